import os, sys; sys.path.insert(0, os.getcwd())
# Equivalence digest for batch twins5 (path_padding outputs / input classification, apply_move stores, compound branch of apply_rotation).
# Sections: direct calls of the padding helpers, move / rotate grids, compound anchors,
# Collections, pose setters (pad / slice, empty and Fortran-ordered paths), rejected calls.
import warnings

import numpy as np
from scipy.spatial.transform import Rotation as R

import magpylib as magpy
from magpylib._src.obj_classes import class_BaseGeo as bg
from magpylib._src.obj_classes import class_BaseTransform as bt

warnings.simplefilter("ignore")


def dig(a):
    return (np.round(np.asarray(a, dtype=float), 9) + 0.0).tolist()


def arr(a):
    """values, dtype, shape and memory layout of an array"""
    return (
        dig(a), str(a.dtype), a.shape, a.flags.c_contiguous, a.flags.f_contiguous,
        a.flags.owndata, a.flags.writeable,
    )


def state(obj):
    pos, ori = obj._position, obj._orientation
    return arr(pos), dig(ori.as_quat()), len(ori)


def tree_state(obj):
    out = [state(obj)]
    for child in getattr(obj, "children", []):
        out.extend(tree_state(child))
    return out


def show(tag, fn):
    try:
        print(tag, "->", fn())
    except BaseException as err:  # pylint: disable=broad-except
        print(tag, "-> EXC", type(err).__name__, repr(str(err))[:200])


def val(x):
    return repr(x), type(x).__name__


def sensor(n, fortran=False):
    pos = np.array([(1 + i, 2 * i, -i) for i in range(n)], dtype=float).reshape(-1, 3)
    if fortran:
        pos = np.asfortranarray(pos)
    s = magpy.Sensor(position=pos)
    s.rotate_from_angax([7 * (i + 1) for i in range(n)], (1, 1, 0), start=0)
    return s


def empty_sensor():
    s = magpy.Sensor()
    s.position = np.zeros((0, 3))
    return s


def tree():
    inner = magpy.Collection(sensor(2), position=[(0, 0, 1), (0, 1, 1), (1, 1, 1)])
    return magpy.Collection(inner, sensor(1), position=(3, 2, 1))


STARTS = ("auto", -7, -4, -2, -1, 0, 1, 2, 5, np.int64(-3), np.int32(3), True, False)

# 1) path_padding_param: full grid incl. value types and odd direct inputs
for scalar_input in (True, False, 0, 1):
    for lenop in (0, 1, 3):
        for lenip in (0, 1, 2, 4):
            for start in STARTS + (1.0, -2.5, float("nan"), np.int8(-100), np.float64(-9.0)):
                show(
                    f"ppp sc={scalar_input!r} op={lenop} ip={lenip} st={start!r}",
                    lambda a=scalar_input, b=lenop, c=lenip, d=start: tuple(
                        (val(x) if not isinstance(x, tuple) else tuple(map(val, x)))
                        for x in bt.path_padding_param(a, b, c, d)
                    ),
                )
for bad in (None, "x", "Auto", [1], (1, 2), np.array([1, 2]), 1j, b"auto"):
    show(f"ppp bad start {bad!r}", lambda bad=bad: bt.path_padding_param(False, 2, 2, bad))
show("ppp np lenop", lambda: bt.path_padding_param(False, np.int64(2), np.int32(3), -4))
show("ppp str lenip", lambda: bt.path_padding_param(False, 2, "3", 1))
show("ppp None lenop", lambda: bt.path_padding_param(False, None, 1, "auto"))
show("ppp None lenop scalar", lambda: bt.path_padding_param(True, None, 1, "auto"))

INPUTS = {
    "s3": np.array((1.0, 2.0, 3.0)),
    "v1": np.array([(1.0, 2.0, 3.0)]),
    "v2": np.array([(1.0, 0, 0), (0, 2.0, 0)]),
    "v4": np.arange(12.0).reshape(4, 3),
    "q": np.array((0.0, 0, 0, 1)),
    "q3": np.array([(0.0, 0, 0, 1)] * 3),
    "v0": np.zeros((0, 3)),
}

# 2) path_padding called directly
for n in (0, 1, 2, 4):
    for fortran in (False, True):
        for ik, inp in INPUTS.items():
            for start in STARTS:
                s = empty_sensor() if n == 0 else sensor(n, fortran)

                def run(s=s, inp=inp, start=start):
                    res = bt.path_padding(inp, start, s)
                    ppath, opath, newstart, end, padded = res
                    return (
                        len(res), arr(ppath), arr(opath), val(newstart), val(end), val(padded),
                        "same_pos", ppath is s._position,
                    )

                show(f"pp n={n} F={fortran} in={ik} st={start!r}", run)
                print("   ", state(s))
show("pp 0-d", lambda: bt.path_padding(np.float64(1.0), 0, sensor(1)))
show("pp 0-d no object", lambda: bt.path_padding(np.float64(1.0), 0, object()))
show("pp bad start", lambda: bt.path_padding(INPUTS["v2"], "x", sensor(1)))
show("pp bad start no object", lambda: bt.path_padding(INPUTS["v2"], "x", object()))
show("pp None start", lambda: bt.path_padding(INPUTS["v2"], None, sensor(1)))
show("pp float start", lambda: tuple(map(repr, bt.path_padding(INPUTS["v2"], 1.0, sensor(1))[2:])))
show("pp no object", lambda: bt.path_padding(INPUTS["v2"], 0, object()))

# 3) multi_anchor_behavior called directly
MA_ANCHORS = {
    "a3": np.array((1.0, -1.0, 2.0)),
    "a13": np.array([(1.0, -1.0, 2.0)]),
    "a23": np.array([(1.0, 0, 0), (0, 2.0, 0)]),
    "a43": np.arange(12.0).reshape(4, 3),
    "a43F": np.asfortranarray(np.arange(12.0).reshape(4, 3)),
    "a23i": np.arange(6).reshape(2, 3),
    "a03": np.zeros((0, 3)),
    "a0d": np.array(1.0),
    "a223": np.zeros((2, 2, 3)),
}
MA_ROTS = {
    "q4": R.from_rotvec((0.1, -0.2, 0.3)),
    "q14": R.from_rotvec([(0.1, -0.2, 0.3)]),
    "q24": R.from_euler("xy", [(10, 20), (30, 40)], degrees=True),
    "q34": R.from_rotvec([(0, 0, 0.25), (0, 0.5, 0), (0.75, 0, 0.1)]),
    "q04": R.from_quat(np.zeros((0, 4))),
}
for ak, anc in MA_ANCHORS.items():
    for rk, rot in MA_ROTS.items():
        for qform in ("float", "int", "F"):
            inq = rot.as_quat()
            if qform == "int":
                inq = np.array((0, 0, 0, 1)) if inq.ndim == 1 else np.tile((0, 0, 0, 1), (len(inq), 1))
            elif qform == "F":
                inq = np.asfortranarray(inq)

            def run(anc=anc, inq=inq, rot=rot):
                a2, q2, r2 = bt.multi_anchor_behavior(anc, inq, rot)
                return (
                    arr(a2), arr(q2), dig(r2.as_quat()), r2.single,
                    a2 is anc, q2 is inq, r2 is rot,
                )

            show(f"mab a={ak} r={rk} q={qform}", run)
show("mab None anchor", lambda: bt.multi_anchor_behavior(None, np.zeros(4), None))
show("mab list rot", lambda: bt.multi_anchor_behavior(np.zeros(3), [0, 0, 0, 1], None))
show("mab list anchor", lambda: bt.multi_anchor_behavior([0, 0, 0], np.zeros(4), None))
show("mab both bad", lambda: bt.multi_anchor_behavior([0, 0, 0], [0, 0, 0, 1], None))
show("mab both 0-d", lambda: bt.multi_anchor_behavior(np.array(1.0), np.array(2.0), None))

# 4) pad_slice_path called directly
PATHS = {
    "p03": np.zeros((0, 3)),
    "p13": np.array([(1.0, 2, 3)]),
    "p23": np.array([(1.0, 2, 3), (4, 5, 6)]),
    "p53": np.arange(15.0).reshape(5, 3),
    "p53F": np.asfortranarray(np.arange(15.0).reshape(5, 3)),
    "p34": np.arange(12.0).reshape(3, 4),
    "p24i": np.arange(8).reshape(2, 4),
    "p3": np.array((1.0, 2.0, 3.0)),
    "list2": [(1, 2, 3), (4, 5, 6)],
    "p0d": np.array(1.0),
    "rot3": R.from_rotvec([(0, 0, 0.1 * k) for k in range(3)]),
    "None": None,
}
for k1, p1 in PATHS.items():
    for k2, p2 in PATHS.items():

        def run(p1=p1, p2=p2):
            res = bg.pad_slice_path(p1, p2)
            if isinstance(res, np.ndarray):
                return arr(res), res is p2, res.base is p2
            return type(res).__name__, res is p2

        show(f"psp {k1} {k2}", run)

DISPS = {
    "scalar": (1, 2, 3),
    "one": [(1, 2, 3)],
    "two": [(1, 0, 0), (0, 2, 0)],
    "four": [(1, 0, 0), (0, 2, 0), (0, 0, 3), (4, 4, 4)],
    "empty": np.zeros((0, 3)),
    "fourF": np.asfortranarray(np.arange(12.0).reshape(4, 3)),
}
ANCHORS = {
    "none": None,
    "zero": 0,
    "single": (1, -1, 2),
    "two": [(1, 0, 0), (0, 2, 0)],
    "three": [(1, 0, 0), (0, 2, 0), (0, 0, 3)],
    "empty": np.zeros((0, 3)),
}
ROTS = {
    "scalar": R.from_rotvec((0.1, -0.2, 0.3)),
    "one": R.from_rotvec([(0.1, -0.2, 0.3)]),
    "two": R.from_euler("xy", [(10, 20), (30, 40)], degrees=True),
    "three": R.from_rotvec([(0, 0, 0.25), (0, 0.5, 0), (0.75, 0, 0.1)]),
    "None": None,
    "empty": R.from_quat(np.zeros((0, 4))),
}

# 5) move: displacement x start x path length, identity of the stored arrays
for n in (0, 1, 2, 3):
    for fortran in (False, True):
        for dk, disp in DISPS.items():
            for start in STARTS:
                for direct in (False, True):
                    s = empty_sensor() if n == 0 else sensor(n, fortran)
                    pos0, ori0 = s._position, s._orientation
                    if direct:
                        fn = lambda s=s, disp=disp, start=start: bt.apply_move(s, disp, start) is s
                    else:
                        fn = lambda s=s, disp=disp, start=start: s.move(disp, start=start) is s
                    show(f"move n={n} F={fortran} d={dk} st={start!r} direct={direct}", fn)
                    print(
                        "   ", state(s), "same_pos", s._position is pos0,
                        "same_ori", s._orientation is ori0, dig(pos0),
                    )

# 6) rotate: rotation x anchor x start x path length
for n in (0, 1, 3):
    for rk, rot in ROTS.items():
        for ak, anc in ANCHORS.items():
            for start in STARTS:
                s = empty_sensor() if n == 0 else sensor(n, fortran=(n == 3 and rk == "two"))
                pos0, ori0 = s._position, s._orientation
                show(
                    f"rot n={n} r={rk} a={ak} st={start!r}",
                    lambda s=s, rot=rot, anc=anc, start=start: (
                        s.rotate(rot, anchor=anc, start=start) is s
                    ),
                )
                print(
                    "   ", state(s), "same_pos", s._position is pos0,
                    "same_ori", s._orientation is ori0, dig(pos0),
                )

# 7) apply_rotation with an explicit parent_path (compound anchor)
for n in (0, 1, 2, 4):
    for rk, rot in ROTS.items():
        for plen in (0, 1, 2, 5):
            for start in ("auto", -6, -1, 0, 2, 5):
                for fortran in (False, True):
                    s = empty_sensor() if n == 0 else sensor(n)
                    pp = np.array([(0.5 * k, 1.0, -k) for k in range(plen)], dtype=float).reshape(-1, 3)
                    if fortran:
                        pp = np.asfortranarray(pp)
                    pp0 = pp.copy()
                    show(
                        f"apply n={n} r={rk} plen={plen} F={fortran} st={start}",
                        lambda s=s, rot=rot, pp=pp, start=start: bt.apply_rotation(
                            s, rot, anchor=None, start=start, parent_path=pp
                        )
                        is s,
                    )
                    print("   ", state(s), "parent untouched", np.array_equal(pp, pp0))
show("apply anchor and parent", lambda: state(bt.apply_rotation(
    sensor(2), ROTS["two"], anchor=(1, 2, 3), start=1, parent_path=np.ones((2, 3)))))
show("apply parent list", lambda: bt.apply_rotation(
    sensor(2), ROTS["two"], anchor=None, start=1, parent_path=[(1, 2, 3)]))
show("apply parent 1-d", lambda: state(bt.apply_rotation(
    sensor(2), ROTS["scalar"], anchor=None, start=0, parent_path=np.ones(3))))

# 8) Collections
for start in ("auto", -4, -1, 0, 1, 3):
    for rk, rot in ROTS.items():
        for ak in ("none", "zero", "single", "two"):
            col = tree()
            show(
                f"coll r={rk} a={ak} st={start}",
                lambda col=col, rot=rot, ak=ak, start=start: (
                    col.rotate(rot, anchor=ANCHORS[ak], start=start) is col
                ),
            )
            print("   ", tree_state(col))
    for dk, disp in DISPS.items():
        col = tree()
        show(
            f"coll move d={dk} st={start}",
            lambda col=col, disp=disp, start=start: col.move(disp, start=start) is col,
        )
        print("   ", tree_state(col))

# 9) pose setters: pad / slice of the other path, children follow, empty and F-ordered input
NEWPOS = {
    "t3": (1, 2, 3),
    "l13": [(1, 2, 3)],
    "l23": [(1, 2, 3), (4, 5, 6)],
    "a53": np.arange(15.0).reshape(5, 3),
    "a53F": np.asfortranarray(np.arange(15.0).reshape(5, 3)),
    "e03": np.zeros((0, 3)),
    "bad": (1, 2),
    "None": None,
}
NEWORI = {
    "None": None,
    "scalar": R.from_rotvec((0.1, -0.2, 0.3)),
    "one": R.from_rotvec([(0.1, -0.2, 0.3)]),
    "two": R.from_euler("xy", [(10, 20), (30, 40)], degrees=True),
    "five": R.from_rotvec([(0, 0, 0.1 * k) for k in range(5)]),
    "empty": R.from_quat(np.zeros((0, 4))),
    "bad": (0, 0, 0, 1),
}
MAKERS = {
    "s0": empty_sensor,
    "s1": lambda: sensor(1),
    "s3": lambda: sensor(3),
    "s3F": lambda: sensor(3, True),
    "tree": tree,
    "emptycoll": lambda: magpy.Collection(position=[(1, 1, 1), (2, 2, 2)]),
}
for mk, make in MAKERS.items():
    for pk, pos in NEWPOS.items():
        obj = make()
        pos0 = obj._position
        before = dig(pos0)

        def setpos(obj=obj, pos=pos):
            obj.position = pos
            return "set"

        show(f"setpos {mk} {pk}", setpos)
        print("   ", tree_state(obj), "old array untouched", dig(pos0) == before)
        if isinstance(pos, np.ndarray):
            print("    input aliased", obj._position is pos, np.shares_memory(obj._position, pos))
    for ok, ori in NEWORI.items():
        obj = make()
        pos0 = obj._position

        def setori(obj=obj, ori=ori):
            obj.orientation = ori
            return "set"

        show(f"setori {mk} {ok}", setori)
        print(
            "   ", tree_state(obj), "same_pos", obj._position is pos0,
            "view", obj._position.base is pos0,
        )
# setters on the inner nodes and leaves of a tree, and after one another
for target in ("inner", "leaf"):
    for pk in ("t3", "l23", "a53", "e03"):
        col = tree()
        node = col.children[0] if target == "inner" else col.children[0].children[0]

        def setpos(node=node, pk=pk):
            node.position = NEWPOS[pk]
            return "set"

        show(f"setpos {target} {pk}", setpos)
        print("   ", tree_state(col))
    for ok in ("None", "two", "five", "empty"):
        col = tree()
        node = col.children[0] if target == "inner" else col.children[0].children[0]

        def setori(node=node, ok=ok):
            node.orientation = NEWORI[ok]
            return "set"

        show(f"setori {target} {ok}", setori)
        print("   ", tree_state(col))
col = tree()
col.position = [(1, 1, 1)] * 4
col.orientation = R.from_rotvec([(0, 0, 0.3), (0.2, 0, 0)])
col.move([(1, 2, 3)] * 3, start=-1)
col.position = (0, 0, 0)
col.rotate_from_angax([10, 20, 30], "y", start=1)
col.orientation = None
print("setter sequence", tree_state(col))
col.reset_path()
print("reset", tree_state(col))
show("getter", lambda: (dig(sensor(1).position), dig(sensor(3).position),
                        dig(sensor(1).orientation.as_quat()), dig(sensor(3).orientation.as_quat())))
show("init pad pos", lambda: state(magpy.Sensor(position=(1, 2, 3), orientation=NEWORI["five"])))
show("init pad ori", lambda: state(magpy.Sensor(position=NEWPOS["a53F"], orientation=NEWORI["two"])))
show("init empty pos", lambda: state(magpy.Sensor(position=np.zeros((0, 3)))))
show("init empty ori", lambda: state(magpy.Sensor(orientation=NEWORI["empty"])))
show("init both empty", lambda: state(magpy.Sensor(np.zeros((0, 3)), NEWORI["empty"])))

# 10) a sequence of operations
s = magpy.Sensor()
s.move([(1, 0, 0), (2, 0, 0)]).rotate_from_angax([10, 20, 30], "z", anchor=0, start=1)
s.move((0, 0, 1), start=-2).rotate_from_rotvec((0, 0.2, 0), degrees=False, start=-9)
s.move([(1, 1, 1)] * 3, start=-8).rotate(R.from_quat([(0, 0, 1, 1)] * 2), anchor=[(1, 0, 0)] * 4)
s.position = [(0, 0, 0)] * 2
s.move([(1, 2, 3)] * 3, start=1)
s.rotate_from_mrp([(0, 0, 0.1), (0, 0.2, 0)], anchor=[(1, 1, 1)] * 3, start=-1)
s.rotate_from_quat((0, 0, 1, 1), anchor=[(1, 0, 0), (2, 0, 0)], start=-2)
print("sequence", state(s))

# 11) rejected calls change nothing
for make in (lambda: sensor(2), tree, empty_sensor):
    obj = make()
    ref = tree_state(obj)
    for tag, kw in {
        "bad rot": dict(rotation=(1, 2, 3)),
        "bad anchor str": dict(rotation=ROTS["scalar"], anchor="x"),
        "bad anchor shape": dict(rotation=ROTS["scalar"], anchor=(1, 2)),
        "bad anchor 1": dict(rotation=ROTS["scalar"], anchor=1),
        "bad start": dict(rotation=ROTS["scalar"], start=1.5),
        "bad start str": dict(rotation=ROTS["scalar"], start="end"),
        "bad start None": dict(rotation=ROTS["two"], start=None),
        "empty anchor": dict(rotation=ROTS["two"], anchor=np.zeros((0, 3)), start=0),
        "empty rot anchors": dict(rotation=ROTS["empty"], anchor=[(1, 2, 3)] * 2, start=0),
    }.items():
        show(tag, lambda kw=kw, obj=obj: obj.rotate(**kw) is obj)
        print("    unchanged", tree_state(obj) == ref)
    for tag, kw in {
        "bad disp str": dict(displacement="abc"),
        "bad disp shape": dict(displacement=(1, 2)),
        "bad disp 3d": dict(displacement=np.zeros((2, 2, 3))),
        "bad disp None": dict(displacement=None),
        "bad start": dict(displacement=(1, 2, 3), start=1.5),
        "bad start str": dict(displacement=[(1, 2, 3)], start="end"),
        "bad both": dict(displacement=(1, 2), start="end"),
    }.items():
        show(tag, lambda kw=kw, obj=obj: obj.move(**kw) is obj)
        print("    unchanged", tree_state(obj) == ref)
    for attr, value in (
        ("position", (1, 2)), ("position", "abc"), ("position", None), ("position", np.zeros((2, 2, 3))),
        ("orientation", (0, 0, 0, 1)), ("orientation", "x"), ("orientation", 1),
    ):
        show(f"bad set {attr} {value!r}"[:60], lambda attr=attr, value=value, obj=obj: setattr(obj, attr, value))
        print("    unchanged", tree_state(obj) == ref)
show("0-d displacement direct", lambda: bt.apply_move(sensor(2), np.float64(3.0)))
show("no path move", lambda: bt.apply_move(object(), (1, 2, 3)))
show("no path move bad start", lambda: bt.apply_move(object(), (1, 2, 3), 1.5))
show("no path rot", lambda: bt.apply_rotation(object(), ROTS["scalar"]))
show("no path rot bad anchor", lambda: bt.apply_rotation(object(), ROTS["scalar"], anchor="x"))


class Hacked:
    """object with an integer position path: the in-place add is rejected by numpy"""

    def __init__(self):
        self._position = np.arange(6).reshape(2, 3)
        self._orientation = R.from_rotvec([(0, 0, 0.1), (0, 0, 0.2)])


for tag, fn in {
    "int path move": lambda h: bt.apply_move(h, (0.5, 0, 0)),
    "int path move pad": lambda h: bt.apply_move(h, [(0.5, 0, 0)] * 2),
    "int path rot": lambda h: bt.apply_rotation(h, ROTS["two"], anchor=(1.5, 0, 0)),
    "int path rot none": lambda h: bt.apply_rotation(h, ROTS["scalar"]),
}.items():
    h = Hacked()
    show(tag, lambda h=h, fn=fn: fn(h) is h)
    print("   ", arr(h._position), dig(h._orientation.as_quat()))


# 12) which attributes are read / stored in which order (also on the error exits)
class Logged:
    """path carrier that records every read and store of the two path attributes"""

    def __init__(self, n, integer=False):
        object.__setattr__(self, "log", [])
        pos = np.arange(3 * n).reshape(n, 3)
        object.__setattr__(self, "_position", pos if integer else pos.astype(float))
        object.__setattr__(
            self, "_orientation", R.from_rotvec([(0, 0, 0.1 * k) for k in range(n)])
        )

    def __getattribute__(self, name):
        if name in ("_position", "_orientation"):
            object.__getattribute__(self, "log").append(("get", name))
        return object.__getattribute__(self, name)

    def __setattr__(self, name, value):
        self.log.append(("set", name, type(value).__name__, len(value)))
        object.__setattr__(self, name, value)


LOGGED_OPS = {
    "move scalar": lambda h: bt.apply_move(h, (0.5, 0, 0)),
    "move scalar st": lambda h: bt.apply_move(h, (0.5, 0, 0), 1),
    "move scalar far": lambda h: bt.apply_move(h, (0.5, 0, 0), 6),
    "move scalar before": lambda h: bt.apply_move(h, (0.5, 0, 0), -6),
    "move vec auto": lambda h: bt.apply_move(h, [(0.5, 0, 0)] * 2),
    "move vec inside": lambda h: bt.apply_move(h, [(0.5, 0, 0)] * 2, 0),
    "move vec over": lambda h: bt.apply_move(h, [(0.5, 0, 0)] * 2, -1),
    "move vec before": lambda h: bt.apply_move(h, [(0.5, 0, 0)] * 2, -5),
    "move empty": lambda h: bt.apply_move(h, np.zeros((0, 3))),
    "move empty far": lambda h: bt.apply_move(h, np.zeros((0, 3)), 7),
    "move bad": lambda h: bt.apply_move(h, (1, 2)),
    "move bad start": lambda h: bt.apply_move(h, (1, 2, 3), "x"),
    "rot scalar": lambda h: bt.apply_rotation(h, ROTS["scalar"]),
    "rot scalar anchor": lambda h: bt.apply_rotation(h, ROTS["scalar"], anchor=(1, 2, 3), start=1),
    "rot vec anchor": lambda h: bt.apply_rotation(h, ROTS["three"], anchor=[(1, 2, 3)] * 2),
    "rot vec parent": lambda h: bt.apply_rotation(h, ROTS["two"], parent_path=np.ones((1, 3)), start=-1),
    "rot scalar parent": lambda h: bt.apply_rotation(h, ROTS["scalar"], parent_path=np.ones((4, 3)), start=-9),
    "rot None parent": lambda h: bt.apply_rotation(h, None, parent_path=np.ones((4, 3)), start=3),
    "rot anchor parent": lambda h: bt.apply_rotation(h, ROTS["two"], anchor=0, parent_path=np.ones((4, 3))),
    "rot parent list": lambda h: bt.apply_rotation(h, ROTS["two"], parent_path=[(1, 2, 3)]),
    "rot parent empty": lambda h: bt.apply_rotation(h, ROTS["two"], parent_path=np.zeros((0, 3))),
    "rot parent wide": lambda h: bt.apply_rotation(h, ROTS["two"], parent_path=np.ones((2, 4))),
    "rot bad anchor": lambda h: bt.apply_rotation(h, ROTS["two"], anchor="x"),
    "pp scalar": lambda h: bt.path_padding(INPUTS["s3"], "auto", h)[2:],
    "pp vec": lambda h: bt.path_padding(INPUTS["v2"], "auto", h)[2:],
    "pp vec before": lambda h: bt.path_padding(INPUTS["v4"], -9, h)[2:],
    "pp list": lambda h: bt.path_padding([(1, 2, 3)], 0, h)[2:],
    "pp bad start": lambda h: bt.path_padding(INPUTS["v2"], "x", h)[2:],
}
for n in (1, 2):
    for integer in (False, True):
        for tag, fn in LOGGED_OPS.items():
            h = Logged(n, integer)

            def run(h=h, fn=fn):
                res = fn(h)
                return "self" if res is h else tuple(map(val, res))

            show(f"logged n={n} int={integer} {tag}", run)
            log = object.__getattribute__(h, "log")
            print("   ", log)
            print(
                "   ", arr(object.__getattribute__(h, "_position")),
                dig(object.__getattribute__(h, "_orientation").as_quat()),
            )

# 13) the five results of path_padding: types of start / end / padded for odd direct input
for start in (np.int8(-100), np.int8(-128), np.int64(-(2**62)), 2**40, -(2**40), 1.0, -0.5, float("nan")):
    for ik in ("s3", "v2", "v0"):
        def run(start=start, ik=ik):
            res = bt.path_padding(INPUTS[ik], start, sensor(2))
            return res[0].shape, res[1].shape, tuple(map(val, res[2:]))

        show(f"pp odd st={start!r} in={ik}", run)
