"""Shared plumbing of the static checks: findings, known-findings matching, evidence, exit protocol.

No check imports magpylib or executes any of its code.  Everything is decided from the source
text of /repo's *current working tree* (env VERIF_REPO overrides the root, used by the self-tests
that analyse mutated scratch copies).
"""
from __future__ import annotations

import ast
import hashlib
import json
import os
import re
import sys
import time
import traceback

VERIF = os.path.dirname(os.path.dirname(os.path.abspath(__file__)))
REPO = os.environ.get("VERIF_REPO", "/repo")
EVIDENCE_DIR = os.environ.get("VERIF_EVIDENCE_DIR", os.path.join(VERIF, "evidence"))
KNOWN_FILE = os.path.join(VERIF, "known_findings.json")


class AnalysisError(Exception):
    """anchor vanished / construct outside the modelled fragment: exit 2, never a silent pass"""


def norm(node_or_text) -> str:
    """normalised construct text: unparse, collapse whitespace.  Findings are keyed by this, never by line."""
    if isinstance(node_or_text, ast.AST):
        t = ast.unparse(node_or_text)
    else:
        t = str(node_or_text)
    t = t.splitlines()[0] if "\n" in t else t
    return re.sub(r"\s+", " ", t).strip()[:160]


class _Canon(ast.NodeTransformer):
    """canonical form of an expression for *identity of a site* (never for semantics): `a > b` is `b < a`, operands of commutative
    operators, of ==/!= and of and/or are ordered by their text.  A comparison written the other way round, or `x * k` for `k * x`,
    is the same site - not a new, untriaged one."""
    def visit_Compare(self, n):
        self.generic_visit(n)
        if len(n.ops) == 1:
            op, a, b = n.ops[0], n.left, n.comparators[0]
            if isinstance(op, (ast.Gt, ast.GtE)):
                n.left, n.comparators, n.ops = b, [a], [ast.Lt() if isinstance(op, ast.Gt) else ast.LtE()]
            elif isinstance(op, (ast.Eq, ast.NotEq)) and ast.unparse(a) > ast.unparse(b):
                n.left, n.comparators = b, [a]
        return n

    def visit_BinOp(self, n):
        self.generic_visit(n)
        if isinstance(n.op, (ast.Add, ast.Mult, ast.BitAnd, ast.BitOr, ast.BitXor)) and ast.unparse(n.left) > ast.unparse(n.right):
            n.left, n.right = n.right, n.left
        return n

    def visit_BoolOp(self, n):
        self.generic_visit(n)
        n.values = sorted(n.values, key=ast.unparse)
        return n


def canon_text(text: str) -> str:
    """canonical form of an already name-abstracted shape text (triage tables and known-finding keys written before canonicalisation)"""
    try:
        tree = ast.parse(text, mode="eval").body
    except SyntaxError:
        try:
            mod = ast.parse(text)
            tree = mod.body[0] if len(mod.body) == 1 else None
            if tree is not None and norm(tree) != text:
                tree = None          # not a statement as `norm` prints it (e.g. a keyword `size=1`): opaque text, left alone
        except SyntaxError:
            tree = None
        if tree is None:
            return text
    return norm(ast.fix_missing_locations(_Canon().visit(tree)))


def canon_key(key: str) -> str:
    """rule|function|shape[|sig]#n with the shape part canonicalised"""
    try:
        head, ordn = key.rsplit("#", 1)
        parts = head.split("|")
        if len(parts) >= 3:
            parts[2] = canon_text(parts[2])
        return "|".join(parts) + "#" + ordn
    except ValueError:
        return key


def expand_single_defs(node, fn):
    """copy of `node` with every local name that is bound exactly once in `fn` (plain `name = <expr>`, not a parameter, loop or
    comprehension variable) replaced by its defining expression (one level)"""
    import copy as _copy
    defs = {}
    for a in ast.walk(fn):
        if isinstance(a, (ast.Assign, ast.AugAssign, ast.AnnAssign, ast.For, ast.comprehension, ast.NamedExpr, ast.With)):
            tg = a.targets if isinstance(a, ast.Assign) else ([a.target] if hasattr(a, "target") else [i.optional_vars for i in a.items if i.optional_vars is not None])
            for t in tg:
                for x in ast.walk(t):
                    if isinstance(x, ast.Name):
                        defs.setdefault(x.id, []).append(a)
    params = {a.arg for a in fn.args.posonlyargs + fn.args.args + fn.args.kwonlyargs}

    class Sub(ast.NodeTransformer):
        def visit_Name(self, x):
            d = defs.get(x.id, [])
            if isinstance(x.ctx, ast.Load) and len(d) == 1 and isinstance(d[0], ast.Assign) and len(d[0].targets) == 1 and isinstance(d[0].targets[0], ast.Name) \
                    and x.id not in params and not isinstance(d[0].value, (ast.Constant, ast.Name)):
                return _copy.deepcopy(d[0].value)
            return x
    return Sub().visit(_copy.deepcopy(node))


def shape_of(node_or_text) -> str:
    """rename-invariant form of a construct: local variable names replaced by `_` (attribute, callee and keyword names and all
    literals are kept).  Known findings are keyed by this, so renaming a variable does not turn a listed finding into a new one."""
    try:
        tree = node_or_text if isinstance(node_or_text, ast.AST) else ast.parse(str(node_or_text), mode="eval").body
    except SyntaxError:
        return norm(node_or_text)
    import copy as _copy
    tree = _copy.deepcopy(tree)
    for x in ast.walk(tree):
        if isinstance(x, ast.Name) and x.id not in ("np", "self", "len", "abs", "all", "any", "R", "MU0"):
            x.id = "_"
    try:
        tree = ast.fix_missing_locations(_Canon().visit(tree))
    except Exception:  # noqa - statements that are not expressions keep their plain form
        pass
    return norm(tree)


class Finding:
    def __init__(self, rule, file, func, construct, detail="", line=None, path=None):
        self.rule, self.file, self.func = rule, file, func
        self.construct = norm(construct)
        self.shape = shape_of(construct)
        self.detail, self.line, self.path = detail, line, path
        self.ordinal = 1
        self.sig = ""        # optional semantic signature (e.g. the dimensions combined): part of the known-findings key, so that a
        #                      *different* defect at an already listed construct is reported as new

    def set_alt(self, node):
        """an equivalent spelling of the construct (single-definition local names replaced by their defining expression): a listed finding is
        also recognised under this spelling, so that hoisting a sub-expression into a local does not turn it into a new one"""
        self.alt_shape = shape_of(node)

    @property
    def alt_key(self):
        a = getattr(self, "alt_shape", None)
        return None if not a or a == self.shape else f"{self.rule}|{self.func}|{a}{'|' + self.sig if self.sig else ''}#{self.ordinal}"

    @property
    def ident(self):
        """identity used for de-duplication inside one run"""
        return f"{self.rule}|{self.func}|{self.construct}"

    @property
    def key(self):
        """identity used for known-findings matching: rule | function | rename-invariant shape # occurrence (source order)"""
        return f"{self.rule}|{self.func}|{self.shape}{'|' + self.sig if self.sig else ''}#{self.ordinal}"

    def as_dict(self):
        d = {"rule": self.rule, "file": self.file, "function": self.func, "construct": self.construct,
             "detail": self.detail, "key": self.key}
        if self.line:
            d["line"] = self.line
        if self.path:
            d["path"] = self.path
        return d

    def __str__(self):
        loc = f"{self.file}:{self.line}" if self.line else self.file
        return f"[{self.rule}] {loc} {self.func}: {self.construct} -- {self.detail}"


class Result:
    """what one property check produced"""

    def __init__(self, pid):
        self.pid = pid
        self.findings: list[Finding] = []
        self.obligations = 0          # rule instances examined
        self.discharged = 0
        self.evaluations = 0          # typed expressions / CFG exits / call sites examined
        self.nontrivial = set()       # distinct non-trivial instances (strings)
        self.samples: list = []
        self.assumptions: list[str] = []
        self.notes: list[str] = []
        self.analysed = {}            # free-form counters
        self.rules: list[str] = []
        self.undecided: list[str] = []

    def ob(self, name, ok, sample=None, nontrivial=True):
        """record one obligation"""
        self.obligations += 1
        if ok:
            self.discharged += 1
        if nontrivial:
            self.nontrivial.add(name)
        if sample is not None and len(self.samples) < 40:
            self.samples.append(sample)

    def add(self, f: Finding):
        if f.ident not in {x.ident for x in self.findings}:
            self.findings.append(f)
            # occurrence numbers among findings of the same rule/function/shape, in source order
            same = sorted((x for x in self.findings if (x.rule, x.func, x.shape, x.sig) == (f.rule, f.func, f.shape, f.sig)),
                          key=lambda x: (x.line or 0, x.construct))
            for i, x in enumerate(same, 1):
                x.ordinal = i

    current_funcs = None      # set by decide(): names of the functions present in the tree under check

    def split_known(self):
        """-> (listed, new): [(finding, known entry)], [finding].  A listed finding is recognised under its recorded key; when the function
        it was recorded in no longer exists in the tree (merged into its caller and deleted), the same rule / shape / signature reported from
        another function is the same finding that moved - each listed entry is consumed at most once, anything beyond it is new."""
        known = {k["key"]: k for k in load_known().get("known", []) if k["property"] == self.pid}
        listed, new, used = [], [], set()
        for f in self.findings:
            if f.key in known:
                listed.append((f, known[f.key]))
                used.add(f.key)
            elif f.alt_key in known and f.alt_key not in used:
                listed.append((f, known[f.alt_key]))
                used.add(f.alt_key)
            else:
                new.append(f)
        if new and self.current_funcs is not None:
            def parts(key):
                rule, _, rest = key.partition("|")
                func, _, rest = rest.partition("|")
                return rule, func, rest.rsplit("#", 1)[0]
            free = {}
            for k in known:
                rule, func, rest = parts(k)
                base = func.split(" (")[0]
                if k not in used and base not in self.current_funcs and base.split(".")[-1] not in self.current_funcs:
                    free[k] = (rule, rest)
            # the mirror image: the construct was moved out of its (still existing) function into a helper that is not part of the reference
            # tree - the listed entry is no longer reported under its key, and the same rule / shape / signature comes from a new function
            base_funcs = getattr(self, "baseline_funcs", None)
            free_new = {}
            if base_funcs is not None:
                free_new = {k: (parts(k)[0], parts(k)[2]) for k in known if k not in used and k not in free}
            still = []
            for f in new:
                rest_f = f"{f.shape}{'|' + f.sig if f.sig else ''}"
                fb = f.func.split(" (")[0]
                if free_new and fb not in base_funcs and fb.split(".")[-1] not in base_funcs:
                    hit = next((k for k, (rule, rest) in free_new.items() if rule == f.rule and rest == rest_f), None)
                    if hit is not None:
                        del free_new[hit]
                        listed.append((f, known[hit]))
                        continue
                hit = next((k for k, (rule, rest) in free.items() if rule == f.rule and rest == rest_f), None)
                if hit is None and f.sig:
                    # merging a function into its caller substitutes arguments: the spelling changes, the semantic signature does not
                    hit = next((k for k, (rule, rest) in free.items() if rule == f.rule and rest.endswith("|" + f.sig)), None)
                if hit is not None:
                    del free[hit]
                    listed.append((f, known[hit]))
                else:
                    still.append(f)
            new = still
        return listed, new

    def new_findings(self):
        """findings that are not listed as known for this property"""
        return self.split_known()[1]

    def require(self, cond, what):
        if not cond:
            raise AnalysisError(what)


def load_known():
    if not os.path.exists(KNOWN_FILE):
        return {"known": [], "fixed": []}
    d = json.load(open(KNOWN_FILE))
    for k in d.get("known", []):
        k["key"] = canon_key(k["key"])
    return d


def src_digest(paths):
    h = hashlib.sha256()
    for p in sorted(paths):
        h.update(p.encode())
        try:
            h.update(open(p, "rb").read())
        except OSError:
            h.update(b"<missing>")
    return h.hexdigest()[:16]


def finish(res: Result, tier, t0, level="other", explanation="", extra_cov=None, seed=0):
    """apply known-findings, write evidence, print protocol lines, return exit code"""
    known = load_known()
    kmap = {}
    for k in known.get("known", []):
        if k["property"] == res.pid:
            kmap[k["key"]] = k
    listed, new = res.split_known()
    old = [f for f, _k in listed]
    for f, k in listed:
        print(f"KNOWN-FINDING: property={res.pid} {k.get('what', k['key'])} :: {f}")
    stale = [k for k in kmap if k not in {e["key"] for _f, e in listed}]
    cov = {
        "explanation": explanation,
        "rules": res.rules,
        "obligations": res.obligations,
        "discharged": res.discharged,
        "evaluations": max(res.evaluations, res.obligations, 1),
        "distinct_nontrivial": len(res.nontrivial),
        "rule": "one obligation per rule instance found in the source (call site, store, exit path, typed expression, table row); "
                "non-trivial = involves at least one branch, call, store or typed operator; distinct by normalised construct",
        "samples": res.samples[:40] or ["<none>"],
        "analysed": res.analysed,
        "undecided": res.undecided,
        "known_findings_present": [f.as_dict() for f in old],
        "known_findings_no_longer_reported": stale,
        "new_findings": [f.as_dict() for f in new],
        "notes": res.notes,
        "checker_cmd": f"/verif/check {res.pid} --tier {tier}",
        "trusted_base": ["python ast module", "declaration tables in /verif/sa (frame/dimension types, numpy copy/view table)"],
        "repo_root": REPO,
    }
    if extra_cov:
        cov.update(extra_cov)
    ev = {
        "property_id": res.pid, "tier": tier, "seed": seed, "level": level, "coverage": cov,
        "assumptions": res.assumptions, "wall_s": round(time.time() - t0, 3), "violations": len(new),
    }
    os.makedirs(EVIDENCE_DIR, exist_ok=True)
    with open(os.path.join(EVIDENCE_DIR, f"{res.pid}.json"), "w") as fh:
        json.dump(ev, fh, indent=1, default=str)
    for u in res.undecided:
        print(f"UNDECIDED: property={res.pid} {u}")
    print(f"[{res.pid}] tier={tier} obligations={res.obligations} discharged={res.discharged} "
          f"evaluations={cov['evaluations']} distinct={len(res.nontrivial)} known={len(old)} new={len(new)} "
          f"wall={ev['wall_s']}s")
    stale_rp = os.path.join(EVIDENCE_DIR, f"{res.pid}.violation.json")
    if not new and os.path.exists(stale_rp):
        os.remove(stale_rp)          # a replay file of an earlier failing run must not outlive a passing one
    if new:
        rp = os.path.join(EVIDENCE_DIR, f"{res.pid}.violation.json")
        with open(rp, "w") as fh:
            json.dump([f.as_dict() for f in new], fh, indent=1)
        for f in new:
            print(f"  finding: {f}")
        print(f"VIOLATION property={res.pid} replay={rp}")
        return 1
    return 0


def run_guarded(pid, fn, tier, seed=0):
    """run a check function; tracebacks become ANALYSIS-ERROR exit 2"""
    t0 = time.time()
    try:
        return fn(tier, t0, seed)
    except AnalysisError as e:
        print(f"ANALYSIS-ERROR property={pid} {e}")
        return 2
    except Exception as e:  # noqa
        traceback.print_exc()
        print(f"ANALYSIS-ERROR property={pid} checker crashed: {type(e).__name__}: {e}")
        return 2
