"""Single-edit mutants (must fire) and behaviour-preserving refactor twins (must stay silent) for the thorough tier,
plus the table saying which seeded change (/verif/seeded/<id>) each property's check is recorded to detect.

Edits are text replacements (first occurrence) applied to a scratch copy of the current working tree; an edit whose anchor
text is gone is skipped and reported (never a silent pass: see selftest.py).
"""
F = "magpylib/_src/fields/"
O = "magpylib/_src/obj_classes/"
D = "magpylib/_src/display/"


def M(pids, name, file, old, new, expect="fire"):
    return {"pids": pids if isinstance(pids, (list, tuple)) else [pids], "name": name, "file": file, "old": old, "new": new, "expect": expect}


MUTANTS = [
    # ------------------------------------------------------------------ DIM family (C12, C02, C05)
    M(["C12"], "cuboid exponent", F + "field_BH_cuboid.py", "xma2, xpa2 = xma**2, xpa**2", "xma2, xpa2 = xma**3, xpa**2"),
    M(["C02"], "cuboid M tail drops /MU0", F + "field_BH_cuboid.py", "        BHJM[~mask_inside] = 0\n        return BHJM / MU0", "        BHJM[~mask_inside] = 0\n        return BHJM"),
    M(["C12"], "cylinder forgets z/r0", F + "field_BH_cylinder.py", "    z = z / r0\n", "    z = z\n"),
    M(["C12"], "sphere r**5 -> r**4", F + "field_BH_sphere.py", "/ r[out] ** 5", "/ r[out] ** 4"),
    M(["C12"], "circle relative -> absolute tolerance", F + "field_BH_circle.py", "abs(r - r0) < 1e-15 * r0", "abs(r - r0) < 1e-15"),
    M(["C12", "C02"], "dipole B tail drops *MU0", F + "field_BH_dipole.py", "        return BHJM * MU0", "        return BHJM"),
    M(["C12"], "polyline absolute tolerance", F + "field_BH_polyline.py", "mask1 = norm_o4 < 1e-15", "mask1 = norm(po - p4, axis=1) * norm_12 < 1e-15"),
    M(["C02"], "sphere H tail multiplies by MU0", F + "field_BH_sphere.py", "        BHJM[~out] -= polarization[~out]\n        return BHJM / MU0", "        BHJM[~out] -= polarization[~out]\n        return BHJM * MU0"),
    M(["C02"], "second mu0 constant in cylinder module", F + "field_BH_cylinder.py", "from scipy.constants import mu_0 as MU0", "MU0 = 4 * np.pi * 1e-7"),
    M(["C05", "C12"], "cuboid term loses its polarization factor", F + "field_BH_cuboid.py", "    bx_pol_x = pol_x * ff1x * qsigns[:, 0, 0]", "    bx_pol_x = ff1x * qsigns[:, 0, 0]"),
    M(["C05", "C12"], "dipole squares the moment", F + "field_BH_dipole.py", "3 * np.sum(moments * observers, axis=1) * observers.T / r**5", "3 * np.sum(moments * moments * observers, axis=1) * observers.T / r**5"),
    M(["C12"], "twin: hoisted relative tolerance", F + "field_BH_cuboid.py", "mask_surf_x = abs(x_dist := abs(x) - a) < RTOL_SURFACE * a",
      "tolx = a * RTOL_SURFACE\n    mask_surf_x = abs(x_dist := abs(x) - a) < tolx", expect="silent"),
    M(["C12", "C05", "C02"], "twin: multiply by reciprocal", F + "field_BH_cylinder.py", "    r = r / r0\n    z = z / r0\n", "    inv = 1 / r0\n    r = r * inv\n    z = z * inv\n", expect="silent"),
    # ------------------------------------------------------------------ FRAME family (C03, C04, C09, C10, C19)
    M(["C03"], "forward instead of inverse source rotation", F + "field_wrap_BH.py", "orientation.apply(observers - position, inverse=True)", "orientation.apply(observers - position)"),
    M(["C03"], "rotate before translating", F + "field_wrap_BH.py", "orientation.apply(observers - position, inverse=True)", "orientation.apply(observers, inverse=True) - position"),
    M(["C03"], "field rotated back with the inverse", F + "field_wrap_BH.py", "        BH = orientation.apply(BH)", "        BH = orientation.apply(BH, inverse=True)"),
    M(["C03"], "twin: inv().apply", F + "field_wrap_BH.py", "orientation.apply(observers - position, inverse=True)", "orientation.inv().apply(observers - position)", expect="silent"),
    M(["C04"], "inverse pixel rotation", F + "field_wrap_BH.py", "else r.apply(sens.pixel.reshape(-1, 3))", "else r.apply(sens.pixel.reshape(-1, 3), inverse=True)"),
    M(["C04"], "forward sensor back-rotation", F + "field_wrap_BH.py", "Bpart_flat_rot = sens_orient.inv().apply(Bpart_flat)", "Bpart_flat_rot = sens_orient.apply(Bpart_flat)"),
    M(["C04"], "left-handed flips y", F + "field_wrap_BH.py", "B[..., pix_slice, 0] *= -1", "B[..., pix_slice, 1] *= -1"),
    M(["C04"], "twin: hoisted inverse", F + "field_wrap_BH.py", "Bpart_flat_rot = sens_orient.inv().apply(Bpart_flat)", "sens_inv = sens_orient.inv()\n                Bpart_flat_rot = sens_inv.apply(Bpart_flat)", expect="silent"),
    M(["C09"], "right composition oldrot * rotation", O + "class_BaseTransform.py", "(rotation * oldrot).as_quat()", "(oldrot * rotation).as_quat()"),
    M(["C09"], "anchor not subtracted", O + "class_BaseTransform.py", "        ppath[newstart:end] -= anchor\n", "        pass\n"),
    M(["C09"], "rotate_from_quat drops start", O + "class_BaseTransform.py", "        rot = R.from_quat(quat)\n        return self.rotate(rot, anchor=anchor, start=start)", "        rot = R.from_quat(quat)\n        return self.rotate(rot, anchor=anchor)"),
    M(["C09"], "rotate_from_rotvec drops degrees", O + "class_BaseTransform.py", "rot = R.from_rotvec(rotvec, degrees=degrees)", "rot = R.from_rotvec(rotvec)"),
    M(["C09"], "start validated after the position write", O + "class_BaseTransform.py",
      "    check_start_type(start)\n\n    # pad target_object path and compute start and end-index for rotation application\n    ppath, opath, start, end, padded = path_padding(inpath, start, target_object)\n    if padded:\n        target_object._orientation = R.from_quat(opath)\n\n    # apply move operation\n    ppath[start:end] += inpath\n",
      "    # pad target_object path and compute start and end-index for rotation application\n    ppath, opath, start, end, padded = path_padding(inpath, start, target_object)\n    if padded:\n        target_object._orientation = R.from_quat(opath)\n\n    # apply move operation\n    ppath[start:end] += inpath\n    check_start_type(start)\n"),
    M(["C09"], "new pose writer", O + "class_BaseGeo.py", "    def reset_path(self):", "    def _shift(self, v):\n        self._position = self._position + v\n\n    def reset_path(self):"),
    M(["C10"], "children rotated by old^-1 * new", O + "class_BaseGeo.py", "self.orientation * old_ori_pad.inv()", "old_ori_pad.inv() * self.orientation"),
    M(["C10"], "children anchored at their own position", O + "class_BaseGeo.py", "self.orientation * old_ori_pad.inv(), anchor=self._position, start=0", "self.orientation * old_ori_pad.inv(), anchor=child._position, start=0"),
    M(["C10"], "move skips the children", O + "class_BaseTransform.py", "        for child in getattr(self, \"children\", []):\n            child.move(displacement, start=start)\n", ""),
    M(["C10"], "child position uses the wrong sign", O + "class_BaseGeo.py", "child.position = self._position + rel_child_pos", "child.position = self._position - rel_child_pos", expect="silent"),  # sign errors are invisible to frame types (documented limit)
    M(["C19"], "position added before rotation", D + "traces_utility.py", "            vertices = orientation.apply(vertices)\n        new_vertices = (vertices * scale + position).T * length_factor",
      "            vertices = orientation.apply(vertices + position)\n        new_vertices = (vertices * scale).T * length_factor"),
    M(["C19"], "unit factor on the vertices only", D + "traces_utility.py", "new_vertices = (vertices * scale + position).T * length_factor", "new_vertices = (vertices * scale * length_factor + position).T"),
    M(["C19"], "style written outside the temp region", D + "traces_utility.py", "        if style.label is None:\n            style.label = str(type(subobj).__name__)",
      "        if style.label is None:\n            style.label = str(type(subobj).__name__)\n        subobj.style.label = style.label"),
    M(["C19"], "displayed positions use other indices than the orientations", D + "traces_utility.py", "    poss = pos[inds]\n", "    poss = pos[inds - 1]\n"),
    M(["C19", "C20"], "style_temp_edit without finally", "magpylib/_src/utility.py", "    try:\n        # temporary replace style attribute\n        obj._style = style_temp\n        if style_temp and copy:\n            # deepcopy style only if obj is in multiple subplots.\n            obj._style = style_temp.copy()\n        yield\n    finally:\n        obj._style = orig_style",
      "    obj._style = style_temp\n    if style_temp and copy:\n        obj._style = style_temp.copy()\n    yield\n    obj._style = orig_style"),
    # ------------------------------------------------------------------ flow family (C08, C11, C18)
    M(["C08", "C19"], "tiling reset without finally", F + "field_wrap_BH.py", ["    # tiled paths are reset in the `finally` clause, also when the computation fails\n    try:\n", "    finally:\n        # reset tiled objects\n"],
      ["    if True:\n", "    if True:\n        # reset tiled objects\n"]),
    M(["C08"], "orientation reset dropped", F + "field_wrap_BH.py", "            obj._position = obj._position[:m0]\n            obj._orientation = obj._orientation[:m0]", "            obj._position = obj._position[:m0]"),
    M(["C08"], "functional interface shares the caller's arrays", F + "field_wrap_BH.py", "                val = np.array(val, dtype=float)\n        except TypeError as err:", "                val = np.asarray(val, dtype=float)\n        except TypeError as err:"),
    M(["C17"], "make_float_array without copy", "magpylib/_src/input_checks.py", "        inp_array = np.array(inp, dtype=float)", "        inp_array = np.asarray(inp, dtype=float)"),
    M(["C08"], "new object state written on the field path", F + "field_wrap_BH.py", "    src_props = group[0]._field_func_kwargs_ndim\n", "    src_props = group[0]._field_func_kwargs_ndim\n    group[0]._last_n_pix = n_pix\n"),
    M(["C08"], "twin: reset extracted into a helper called in the finally clause", F + "field_wrap_BH.py",
      ["def tile_group_property(group: list, n_pp: int, prop_name: str):",
       "        for obj, m0 in zip(reset_obj, reset_obj_m0):\n            obj._position = obj._position[:m0]\n            obj._orientation = obj._orientation[:m0]"],
      ["def _reset_paths(objs, lens):\n    for obj, m0 in zip(objs, lens):\n        obj._position = obj._position[:m0]\n        obj._orientation = obj._orientation[:m0]\n\n\ndef tile_group_property(group: list, n_pp: int, prop_name: str):",
       "        _reset_paths(reset_obj, reset_obj_m0)"], expect="silent"),
    M(["C08"], "twin: tiling via local padded arrays (no writes)", F + "field_wrap_BH.py", "    obj_list = set(src_list + sensors)  # unique obj entries only !!!", "    obj_list = set(sensors + src_list)  # unique obj entries only !!!", expect="silent"),
    M(["C11"], "views not refreshed after add", O + "class_Collection.py", "        finally:\n            self._update_src_and_sens()\n        return self", "        finally:\n            pass\n        return self"),
    M(["C11"], "cycle test dropped", O + "class_Collection.py", "                if obj is self or self in obj.collections_all:", "                if False:"),
    M(["C11"], "remove clears parent without unlisting check", O + "class_Collection.py", "            if child in self_objects and rec_obj_remover(self, child):\n                child._parent = None", "            if child in self_objects:\n                rec_obj_remover(self, child)\n                child._parent = None"),
    M(["C11"], "new writer of _parent", O + "class_BaseGeo.py", "    def reset_path(self):", "    def detach(self):\n        self._parent = None\n\n    def reset_path(self):"),
    M(["C11"], "sources setter leaves the views stale while add() may reject", O + "class_Collection.py",
      "        self._children = new_children\n        self._update_src_and_sens()\n        self.add(*src_list, override_parent=True)",
      "        self._children = new_children\n        self.add(*src_list, override_parent=True)"),
    M(["C18"], "shallow copy", O + "class_BaseGeo.py", "                obj_copy = deepcopy(self)\n            finally:", "                obj_copy = copy_(self)\n            finally:"),
    M(["C18"], "parent restore without finally", O + "class_BaseGeo.py", "            try:\n                obj_copy = deepcopy(self)\n            finally:\n                self._parent = parent", "            obj_copy = deepcopy(self)\n            self._parent = parent"),
    M(["C18"], "kwargs applied to self", O + "class_BaseGeo.py", "                setattr(obj_copy, k, v)", "                setattr(self, k, v)"),
    M(["C18"], "__deepcopy__ shortcut", O + "class_BaseGeo.py", "    def reset_path(self):", "    def __deepcopy__(self, memo):\n        return self\n\n    def reset_path(self):"),
    M(["C18"], "detachment dropped", O + "class_BaseGeo.py", "            parent = self._parent\n            self._parent = None\n            try:\n                obj_copy = deepcopy(self)\n            finally:\n                self._parent = parent",
      "            obj_copy = deepcopy(self)"),
    # ------------------------------------------------------------------ tables (C07, C17, C20, C06)
    M(["C07"], "getH passes field='B'", F + "field_wrap_BH.py", "        field=\"H\",\n        sumup=sumup,", "        field=\"B\",\n        sumup=sumup,"),
    M(["C07"], "Sensor.getB drops in_out", O + "class_Sensor.py", "            field=\"B\",\n            sumup=sumup,\n            squeeze=squeeze,\n            pixel_agg=pixel_agg,\n            output=output,\n            in_out=in_out,", "            field=\"B\",\n            sumup=sumup,\n            squeeze=squeeze,\n            pixel_agg=pixel_agg,\n            output=output,"),
    M(["C07"], "wrong rank in the table", O + "class_magnet_Cuboid.py", "_field_func_kwargs_ndim = {\"polarization\": 2, \"dimension\": 2}", "_field_func_kwargs_ndim = {\"polarization\": 2, \"dimension\": 1}"),
    M(["C07"], "table key not a parameter", O + "class_misc_Dipole.py", "_field_func_kwargs_ndim = {\"moment\": 2}", "_field_func_kwargs_ndim = {\"moments\": 2}"),
    M(["C17"], "setter stores the raw parameter", O + "class_misc_Dipole.py", "        self._moment = check_format_input_vector(\n            mom,", "        self._moment = mom\n        check_format_input_vector(\n            mom,"),
    M(["C17"], "documented shape without length", O + "class_misc_Triangle.py", "            length=3,\n", ""),
    M(["C17"], "validator skips shape_m1 when length is given", "magpylib/_src/input_checks.py", "        if length is None or len(inp) == length:\n            if inp.shape[-1] == shape_m1:\n                return None\n            if shape_m1 == \"any\":\n                return None",
      "        if length is None:\n            if inp.shape[-1] == shape_m1:\n                return None\n            if shape_m1 == \"any\":\n                return None\n        elif len(inp) == length:\n            return None"),
    M(["C17", "C02"], "None guard lost in the polarization setter", O + "class_BaseExcitations.py", "        if mag is None:\n            self._polarization = None\n            self._magnetization = None\n            return\n", ""),
    M(["C20"], "reset merges into the current state", "magpylib/_src/defaults/defaults_classes.py", "        self.display = None\n", ""),
    M(["C20"], "style dict captured", O + "class_BaseGeo.py", "            style = deepcopy(style)", "            style = style"),
    M(["C20"], "defaults overwrite object values", "magpylib/_src/style.py", "style.update(**base_style_flat, _match_properties=False, _replace_None_only=True)", "style.update(**base_style_flat, _match_properties=False)"),
    M(["C20"], "effective style is the object's own style", "magpylib/_src/style.py", "    style = obj.style.copy()", "    style = obj.style"),
    M(["C20"], "setter without validation", "magpylib/_src/style.py", "        assert val is None or isinstance(val, bool), (\n            \"The `show` input must be either True or False,\\n\"\n            f\"but received {repr(val)} instead.\"\n        )\n        self._show = val\n\n    @property\n    def size(self):", "        self._show = val\n\n    @property\n    def size(self):"),
    M(["C06"], "last row joins the previous run", F + "field_BH_triangularmesh.py", "                mask_inside = mask_inside_trimesh(\n                    observers[prev_ind:new_ind], mesh[prev_ind]", "                new_ind = min(new_ind + 1, len(BHJM))\n                mask_inside = mask_inside_trimesh(\n                    observers[prev_ind:new_ind], mesh[prev_ind]"),
    M(["C06"], "shape comparison dropped", F + "field_BH_triangularmesh.py", "                or mesh[new_ind].shape != mesh[prev_ind].shape\n", ""),
    M(["C06"], "new batch-size switch", F + "field_BH_sphere.py", "    check_field_input(field)\n", "    check_field_input(field)\n    if len(observers) > 1000:\n        observers = observers.astype(np.float32)\n"),
    M(["C06"], "row-axis cumsum", F + "field_BH_dipole.py", "    return H\n", "    return np.cumsum(H, axis=0)\n"),
    M(["C06"], "twin: skip-empty-work guard added", F + "field_BH_sphere.py", "    BHJM[out] = (", "    if np.any(out):\n        pass\n    BHJM[out] = (", expect="silent"),
]

# which property checks are recorded (DESIGN.md §10) to detect which confirmed seeded change; "-" = documented miss
SEED_DETECTION = {
    "C02-2": [], "C02-3": ["C02"], "C02-1": [],
    "C03-1": ["C10"], "C03-2": ["C03"], "C03-3": ["C04"],
    "C04-1": ["C04"], "C04-2": ["C04"], "C04-3": ["C08"],
    "C05-1": [], "C05-2": ["C12"], "C05-3": [],
    "C06-1": ["C06"], "C06-2": ["C06"], "C06-3": ["C06"],
    "C07-1": ["C07"], "C07-2": [], "C07-3": ["C07"],
    "C08-1": ["C08"], "C08-3": ["C08"],
    "C09-1": [], "C09-2": [], "C09-3": [],
    "C10-1": ["C10"], "C10-2": ["C10", "C17"], "C10-3": ["C10"],
    "C11-1": ["C11"], "C11-2": ["C11"], "C11-3": ["C11"],
    "C12-1": ["C12"], "C12-2": ["C12"], "C12-3": ["C12"],
    "C17-1": ["C17"], "C17-2": ["C17"], "C17-3": [],
    "C18-1": ["C18"], "C18-2": ["C18"], "C18-3": ["C18"],
    "C19-1": ["C19"], "C19-2": ["C19"], "C19-3": ["C19"],
    "C20-1": ["C20"], "C20-2": ["C20", "C19"], "C20-3": [],
}
