"""Length evaluator - decides "both pose paths end up equally long" for a constructor / setter by evaluating only the *lengths* of the
arrays involved, over a finite set of sample orderings of the two input lengths.

The code under analysis touches the two lengths only through comparisons, +/-, max/min, np.pad widths and slices, so its behaviour on
lengths is determined by their ordering (and by whether a length is 1, for branches on a literal length).  The samples
{(1,1), (1,4), (4,1), (2,5), (5,2), (3,3)} realise every such case.  Nothing of the package is executed: the evaluator walks the syntax
tree with arrays represented by their length alone; any construct it does not know makes the result *undecided* (never a verdict).

Assumptions (declared): a call that is handed an array and is not modelled here returns an array of the same length (validators,
`R.from_quat`, `np.array`, `.copy()`, `.as_quat()`); `np.pad(x, ((a, b), (0, 0)), ..)` has length len(x)+a+b.
"""
from __future__ import annotations

import ast


class Undecided(Exception):
    pass


class Arr:
    def __init__(self, n):
        self.n = n

    def __repr__(self):
        return f"Arr(len={self.n})"


class Ret(Exception):
    def __init__(self, v):
        self.v = v


SAMPLES = [(1, 1), (1, 4), (4, 1), (2, 5), (5, 2), (3, 3)]


class LenEval:
    def __init__(self, resolve, depth=0):
        self.resolve, self.depth = resolve, depth      # resolve(name) -> FunctionDef of a package function or None
        self.attrs = {}                                # stores to self.<attr>

    # ---------------------------------------------------------------- expressions
    def ev(self, e, env):
        if isinstance(e, ast.Constant):
            return e.value
        if isinstance(e, ast.Name):
            if e.id in env:
                return env[e.id]
            if e.id in ("None", "True", "False"):
                return {"None": None, "True": True, "False": False}[e.id]
            raise Undecided(f"name {e.id}")
        if isinstance(e, ast.Tuple):
            return tuple(self.ev(x, env) for x in e.elts)
        if isinstance(e, ast.UnaryOp):
            v = self.ev(e.operand, env)
            if isinstance(e.op, ast.USub) and isinstance(v, int):
                return -v
            if isinstance(e.op, ast.Not) and isinstance(v, (bool, int)):
                return not v
            raise Undecided("unary")
        if isinstance(e, ast.BinOp):
            a, b = self.ev(e.left, env), self.ev(e.right, env)
            if isinstance(a, int) and isinstance(b, int) and not isinstance(a, bool) and not isinstance(b, bool):
                if isinstance(e.op, ast.Add):
                    return a + b
                if isinstance(e.op, ast.Sub):
                    return a - b
                if isinstance(e.op, ast.Mult):
                    return a * b
            raise Undecided("binop")
        if isinstance(e, ast.Compare) and len(e.ops) == 1:
            a, b = self.ev(e.left, env), self.ev(e.comparators[0], env)
            op = e.ops[0]
            if isinstance(op, (ast.Is, ast.IsNot)) and (a is None or b is None):
                return (a is b) == isinstance(op, ast.Is)
            if isinstance(a, int) and isinstance(b, int):
                return {ast.Lt: a < b, ast.LtE: a <= b, ast.Gt: a > b, ast.GtE: a >= b, ast.Eq: a == b, ast.NotEq: a != b}.get(type(op), None) \
                    if type(op) in (ast.Lt, ast.LtE, ast.Gt, ast.GtE, ast.Eq, ast.NotEq) else self._und("compare")
            raise Undecided("compare")
        if isinstance(e, ast.BoolOp):
            vals = [self.ev(v, env) for v in e.values]
            if all(isinstance(v, (bool, int)) for v in vals):
                return all(vals) if isinstance(e.op, ast.And) else any(vals)
            raise Undecided("boolop")
        if isinstance(e, ast.IfExp):
            t = self.ev(e.test, env)
            if isinstance(t, (bool, int)):
                return self.ev(e.body if t else e.orelse, env)
            raise Undecided("ifexp")
        if isinstance(e, ast.Attribute):
            if isinstance(e.value, ast.Name) and e.value.id == "self" and e.attr in self.attrs:
                return self.attrs[e.attr]
            v = self.ev(e.value, env)
            if isinstance(v, Arr) and e.attr == "shape":
                return (v.n, "?")
            raise Undecided(f"attribute {e.attr}")
        if isinstance(e, ast.Subscript):
            v = self.ev(e.value, env)
            if isinstance(v, tuple) and isinstance(e.slice, ast.Constant) and isinstance(e.slice.value, int):
                return v[e.slice.value]
            if isinstance(v, Arr) and isinstance(e.slice, ast.Slice) and e.slice.step is None:
                lo = self.ev(e.slice.lower, env) if e.slice.lower is not None else 0
                hi = self.ev(e.slice.upper, env) if e.slice.upper is not None else v.n
                if isinstance(lo, int) and isinstance(hi, int):
                    lo = max(v.n + lo, 0) if lo < 0 else min(lo, v.n)
                    hi = max(v.n + hi, 0) if hi < 0 else min(hi, v.n)
                    return Arr(max(hi - lo, 0))
            raise Undecided("subscript")
        if isinstance(e, ast.Call):
            return self.call(e, env)
        raise Undecided(type(e).__name__)

    @staticmethod
    def _und(what):
        raise Undecided(what)

    @staticmethod
    def _may_change_length(fn):
        for x in ast.walk(fn):
            if isinstance(x, ast.Call) and getattr(x.func, "attr", getattr(x.func, "id", "")) in ("pad", "tile", "repeat", "concatenate", "delete", "append", "vstack", "insert", "resize"):
                return True
            if isinstance(x, ast.Subscript) and isinstance(x.slice, ast.Slice):
                return True
        return False

    def call(self, c, env):
        f = c.func
        name = f.id if isinstance(f, ast.Name) else (f.attr if isinstance(f, ast.Attribute) else None)
        args = [self.ev(a, env) for a in c.args]
        kw = {k.arg: k.value for k in c.keywords if k.arg}
        if name == "len" and len(args) == 1 and isinstance(args[0], Arr):
            return args[0].n
        if name in ("max", "min") and args and all(isinstance(a, int) for a in args):
            return max(args) if name == "max" else min(args)
        if name == "abs" and len(args) == 1 and isinstance(args[0], int):
            return abs(args[0])
        if name == "resize" and len(args) >= 2 and isinstance(args[0], Arr):
            n_ = args[1][0] if isinstance(args[1], tuple) and args[1] else args[1]
            if isinstance(n_, int):
                return Arr(n_)          # np.resize(a, (n, ..)) has n rows (filled cyclically - the *values* are P6's business, not a length matter)
            raise Undecided("resize shape")
        if name == "pad" and args and isinstance(args[0], Arr):
            w = args[1] if len(args) > 1 else (self.ev(kw["pad_width"], env) if "pad_width" in kw else None)
            if isinstance(w, tuple) and w and isinstance(w[0], tuple) and len(w[0]) == 2 and all(isinstance(x, int) for x in w[0]):
                if w[0][0] < 0 or w[0][1] < 0:
                    raise Undecided("negative pad width (np.pad raises)")
                return Arr(args[0].n + w[0][0] + w[0][1])
            raise Undecided("pad width")
        if isinstance(f, ast.Name):
            fn = self.resolve(f.id)
            if fn is not None and any(isinstance(a, Arr) for a in args) and self._may_change_length(fn):
                # a package function that pads / slices / concatenates: its body is evaluated (an unknown construct in it is undecided)
                if self.depth >= 3 or fn.args.vararg or fn.args.kwarg:
                    raise Undecided(f"call {f.id}")
                params = [a.arg for a in fn.args.args]
                sub = LenEval(self.resolve, self.depth + 1)
                env2 = dict(zip(params, args))
                for k, v in kw.items():
                    env2[k] = self.ev(v, env)
                dflt = dict(zip(params[len(params) - len(fn.args.defaults):], fn.args.defaults))
                for p_, d_ in dflt.items():
                    if p_ not in env2 and isinstance(d_, ast.Constant):
                        env2[p_] = d_.value
                try:
                    sub.block(fn.body, env2)
                except Ret as r:
                    return r.v
                return None
        # not modelled: an array in, an array of the same length out (validators, constructors, copies)
        arrs = [a for a in args if isinstance(a, Arr)]
        if isinstance(f, ast.Attribute):
            try:
                recv = self.ev(f.value, env)
                if isinstance(recv, Arr):
                    arrs = [recv] + arrs
            except Undecided:
                pass
        if arrs:
            return Arr(arrs[0].n)
        raise Undecided(f"call {ast.unparse(c.func)}")

    # ---------------------------------------------------------------- statements
    def assign(self, t, v, env):
        if isinstance(t, ast.Name):
            env[t.id] = v
        elif isinstance(t, ast.Tuple) and isinstance(v, tuple) and len(t.elts) == len(v):
            for a, b in zip(t.elts, v):
                self.assign(a, b, env)
        elif isinstance(t, ast.Attribute) and isinstance(t.value, ast.Name) and t.value.id == "self":
            self.attrs[t.attr] = v
        else:
            raise Undecided("assignment target")

    def block(self, stmts, env):
        for s in stmts:
            if isinstance(s, ast.Expr):
                continue
            if isinstance(s, ast.Assign):
                v = self.ev(s.value, env)
                for t in s.targets:
                    self.assign(t, v, env)
            elif isinstance(s, ast.AnnAssign) and s.value is not None:
                self.assign(s.target, self.ev(s.value, env), env)
            elif isinstance(s, ast.If):
                t = self.ev(s.test, env)
                if not isinstance(t, (bool, int)):
                    raise Undecided("test")
                self.block(s.body if t else s.orelse, env)
            elif isinstance(s, ast.Return):
                raise Ret(self.ev(s.value, env) if s.value is not None else None)
            elif isinstance(s, (ast.Import, ast.ImportFrom, ast.Pass)):
                continue
            else:
                raise Undecided(type(s).__name__)


def equal_lengths_after(fn, resolve, first="position", second="orientation", attrs=("_position", "_orientation")):
    """-> (verdict, detail): verdict True / False / None (undecided).  fn(self, <first>, <second>) must leave self.<attrs> equally long,
    as long as the longer input, for every sample ordering of the input lengths."""
    bad = []
    for p, o in SAMPLES:
        ev = LenEval(resolve)
        env = {"self": "self", first: Arr(p), second: Arr(o)}
        try:
            try:
                ev.block(fn.body, env)
            except Ret:
                pass
        except Undecided as u:
            return None, f"construct outside the length fragment: {u}"
        a, b = ev.attrs.get(attrs[0]), ev.attrs.get(attrs[1])
        if not (isinstance(a, Arr) and isinstance(b, Arr)):
            return None, f"the attributes {attrs} were not both assigned arrays"
        if not (a.n == b.n == max(p, o)):
            bad.append(f"position length {p}, orientation length {o} -> paths of length {a.n} and {b.n}")
    return (not bad), "; ".join(bad)
