"""E2-DIM/LIN runs: dimension typing (length L, excitation X, mu0 M, log-affine flag) and linearity class of every
registered field function, for each of the four `field` literals, plus the TriangularMesh geometry helpers.

Used by C12 (scale invariance), C02 (unit bookkeeping of B/H/J/M), C05 (linearity in the excitation).
"""
from __future__ import annotations

import ast
from fractions import Fraction as Fr

import absint
from absint import ARepo, Interp, FuncRef, Const, Seq, Unsupported
import dimdom
from dimdom import D
import lindom
from lindom import LinDimDomain, lin_of
from common import AnalysisError, Finding, norm, REPO
import common

# parameter name -> declared dimension (the specification; trusted)
L, ONE = D(l=1), D()


def _x():
    x = D(x=1)
    x.lin = "L"
    return x


PARAM_DIM = {
    "observers": lambda: L, "dimension": lambda: L, "diameter": lambda: L, "vertices": lambda: L, "mesh": lambda: L,
    "segment_start": lambda: L, "segment_end": lambda: L,
    "polarization": _x, "moment": _x, "current": _x,
    "in_out": lambda: Const("auto"),
}
# heterogeneous columns
PARAM_DIM_BY_CLASS = {("CylinderSegment", "dimension"): lambda: Seq([L, L, L, ONE, ONE], "cols")}
# literal annotations: (module leaf, function, repr(literal)) -> dimension.  One line of reason each.
LIT_ANNOT = {
    ("field_BH_cylinder_segment", "magnet_cylinder_segment_Hfield", "1e-07"): D(m=1),  # 1e-7 is mu0/4pi written out
}


def dimless_summary(d, args, kwargs, node):
    for a in list(args) + list(kwargs.values()):
        d.require_dimless(a, node, "special")
    r = D()
    r.lin = "C" if all(lin_of(a) in ("C", "0") for a in args) else "N"
    return r


def none_summary(d, args, kwargs, node):
    return Const(None)


SUMMARIES = {"check_field_input": none_summary, "cel": dimless_summary, "cel_iter": dimless_summary,
             "el3_angle": dimless_summary}


def expected(kind, field, ldeg):
    if kind in ("magnet", "sheet"):
        return {"B": (0, 1, 0), "H": (0, 1, -1), "J": (0, 1, 0) if kind == "magnet" else None,
                "M": (0, 1, -1) if kind == "magnet" else None}[field]
    return {"B": (ldeg, 1, 1), "H": (ldeg, 1, 0), "J": None, "M": None}[field]


def class_kind(repo, cls):
    names = [b.name for b in repo.mro(cls)]
    if cls.name == "Triangle":
        return "sheet", 0
    if "BaseMagnet" in names:
        return "magnet", 0
    if "BaseCurrent" in names:
        return "current", -1
    if cls.name == "Dipole":
        return "dipole", -3
    return None, None


def field_entries(repo):
    """(class name, kind, ldeg, module name, function name, param specs[list of dict]) for every registered _field_func"""
    out = []
    for c in sorted(repo.cls_by_key.values(), key=lambda c: c.name):
        if "_field_func" not in c.attrs:
            continue
        v = c.attrs["_field_func"]
        if isinstance(v, ast.Call) and getattr(v.func, "id", "") == "staticmethod" and v.args:
            v = v.args[0]
        if not isinstance(v, ast.Name):
            continue
        r = repo.resolve_name(c.mod, v.id)
        if not r or r[0] != "func":
            raise AnalysisError(f"cannot resolve _field_func of {c.name}")
        kind, ldeg = class_kind(repo, c)
        if kind is None:
            continue
        fn = r[2]
        params = [a.arg for a in fn.args.posonlyargs + fn.args.args + fn.args.kwonlyargs if a.arg != "field"]
        ndefault = len(fn.args.defaults)
        required = params[: len(params) - ndefault] if ndefault else params
        specs = []
        # Polyline: two alternative parameterisations (vertices | segment_start+segment_end)
        if {"vertices", "segment_start", "segment_end"} <= set(params):
            specs.append([p for p in params if p not in ("segment_start", "segment_end")])
            specs.append([p for p in params if p != "vertices"])
        else:
            specs.append(params)
        for i, ps in enumerate(specs):
            bind = {}
            for p in ps:
                if (c.name, p) in PARAM_DIM_BY_CLASS:
                    bind[p] = PARAM_DIM_BY_CLASS[(c.name, p)]()
                elif p in PARAM_DIM:
                    bind[p] = PARAM_DIM[p]()
                else:
                    raise AnalysisError(f"no declared dimension for parameter `{p}` of {fn.name} ({c.name})")
            out.append((c.name + ("" if len(specs) == 1 else f"#{i+1}"), kind, ldeg, r[1].name, fn.name, bind))
    return out


def _convert(fd, rule_prefix=""):
    return Finding(rule_prefix + fd.kind, fd.module + ".py", fd.func, fd.node, fd.msg, getattr(fd.node, "lineno", None))


def run_fields(root=None, fields="BHJM"):
    """-> list of result dicts, one per (entry, field)"""
    from repo import Repo
    root = root or common.REPO
    repo = Repo(root)
    results = []
    for name, kind, ldeg, modname, fname, bind in field_entries(repo):
        for field in fields:
            arepo = ARepo(root)
            dom = LinDimDomain(lit_annot=LIT_ANNOT)
            dom.repo_summaries = dict(SUMMARIES)
            it = Interp(arepo, dom)
            mod = arepo.module(modname)
            f = FuncRef(mod, mod.funcs[fname])
            res = {"entry": name, "kind": kind, "field": field, "function": fname, "module": modname, "error": None}
            try:
                out = it.call_func(f, [], dict(field=Const(field), **{k: v for k, v in bind.items()}), mod.funcs[fname])
            except Unsupported as e:
                # a construct outside the strict fragment: interpret this entry again in tolerant mode (unmodelled statements are skipped,
                # the typed remainder is still judged) and report the entry as undecided instead of failing the whole analysis
                why = f"{e} [stack {it.callstack}]"
                dom = LinDimDomain(lit_annot=LIT_ANNOT)
                dom.repo_summaries = dict(SUMMARIES)
                it = Interp(arepo, dom)
                it.tolerant = True
                try:
                    out = it.call_func(f, [], dict(field=Const(field), **{k: v for k, v in bind.items()}), mod.funcs[fname])
                    res["undecided"] = why
                except (Unsupported, BudgetExceeded, RecursionError) as e2:
                    res["error"] = f"{e2} [stack {it.callstack}]"
                    out = None
            if isinstance(out, Seq):
                c = dom.collapse(out, None)
                out = c if c is not None else out
            exp = expected(kind, field, ldeg)
            ok = isinstance(out, D) and ((exp is None and out.poly) or (exp is not None and (out.poly or out.dim == tuple(map(Fr, exp)))))
            # a B/H result that is identically the polymorphic zero is not acceptable for exp != None
            if exp is not None and isinstance(out, D) and out.poly:
                ok = False
            if res.get("undecided") and not isinstance(out, D):
                ok = True          # return value not followed in tolerant mode: nothing claimed about it
            res.update({"out": repr(out), "dim": out.dim if isinstance(out, D) and not out.poly else None,
                        "poly": isinstance(out, D) and out.poly, "la": isinstance(out, D) and out.la, "expected": exp, "ok": ok,
                        "lin": lin_of(out) if out is not None else None, "nexpr": dom.nexpr, "maxexp": dom.maxexp,
                        "findings": dom.findings})
            results.append(res)
    return results


GEOM_ENTRIES = [
    ("magpylib._src.fields.field_BH_triangularmesh", "is_facet_inwards", dict(face=L, faces=L)),
    ("magpylib._src.fields.field_BH_triangularmesh", "segments_intersect_facets", dict(segments=L, facets=L)),
    ("magpylib._src.fields.field_BH_triangularmesh", "calculate_centroid", dict(vertices=L, faces=D(isint=True))),
    ("magpylib._src.fields.field_BH_triangularmesh", "mask_inside_trimesh", dict(points=L, faces=L)),
]


# entry points that contain constructs outside the strict fragment (python sets, KDTree): interpreted in tolerant mode, i.e.
# unmodelled statements are skipped and only the typed remainder is judged (more coverage, never a spurious finding)
GEOM_TOLERANT = [
    ("magpylib._src.fields.field_BH_triangularmesh", "get_inwards_mask", dict(vertices=L, triangles=D(isint=True))),
    ("magpylib._src.fields.field_BH_triangularmesh", "fix_trimesh_orientation", dict(vertices=L, faces=D(isint=True))),
    ("magpylib._src.fields.field_BH_triangularmesh", "get_intersecting_triangles", dict(vertices=L, triangles=D(isint=True))),
]


def run_geometry(root=None):
    root = root or common.REPO
    results = []
    missing = []
    for modname, fname, bind in GEOM_ENTRIES + GEOM_TOLERANT:
        arepo = ARepo(root)
        dom = LinDimDomain()
        dom.repo_summaries = {}
        it = Interp(arepo, dom)
        it.tolerant = (modname, fname, bind) in GEOM_TOLERANT
        mod = arepo.module(modname)
        if mod is None:
            raise AnalysisError(f"anchor vanished: {modname}")
        if fname not in mod.funcs:
            # a geometry helper that was merged into its caller: the caller is an entry of its own and types the merged code
            missing.append(fname)
            if len(missing) > 2:
                raise AnalysisError(f"anchors vanished: geometry helpers {missing} of {modname}")
            continue
        f = FuncRef(mod, mod.funcs[fname])
        res = {"entry": fname, "function": fname, "module": modname, "error": None}
        fparams = {a.arg for a in mod.funcs[fname].args.args}
        bind = {k: v for k, v in bind.items() if k in fparams}
        try:
            out = it.call_func(f, [], dict(bind), mod.funcs[fname])
        except Unsupported as e:
            # same policy as for the field functions: judge the typed remainder in tolerant mode, claim nothing about the rest
            why = f"{e} [stack {it.callstack}]"
            dom = LinDimDomain()
            dom.repo_summaries = {}
            it = Interp(arepo, dom)
            it.tolerant = True
            try:
                out = it.call_func(f, [], dict(bind), mod.funcs[fname])
                res["undecided"] = why
            except (Unsupported, BudgetExceeded, RecursionError) as e2:
                res["error"] = f"{e2} [stack {it.callstack}]"
                out = None
        res.update({"out": repr(out), "nexpr": dom.nexpr, "maxexp": dom.maxexp, "findings": dom.findings})
        results.append(res)
    return results
