"""Two-view decision: the plain tree first; when that raises an alarm or loses an anchor, the helper-inlined view (inline.py).

A property is reported as holding when either view discharges every obligation: inlining is a behaviour-preserving program
transformation, so both views describe the same behaviour.  The inlined view never *adds* an alarm - when it is not clean either,
the plain outcome is what is reported."""
from __future__ import annotations

import os
import shutil
import tempfile

import common


def _run(pid, mod, root, tier):
    from repo import Repo
    prev = common.REPO
    common.REPO = root
    res = common.Result(pid)
    err, extra = None, {}
    try:
        repo = Repo(root)
        res.analysed["modules_parsed"] = len(repo.mods)
        import rules_t1
        rules_t1.init_aliases(repo)
        res.current_funcs = set()
        for _m, qn, _fn, _cl in repo.all_functions():
            base = qn.split(" (")[0]
            res.current_funcs.add(base)
            res.current_funcs.add(base.split(".")[-1])
        try:
            import inline
            res.baseline_funcs = {e.split(":", 1)[1] for e in inline.load_inventory() if ":const " not in e}
            res.baseline_funcs |= {b.split(".")[-1] for b in res.baseline_funcs}
        except Exception:  # noqa - without the inventory nothing is recognised as "moved into a new helper"
            res.baseline_funcs = None
        extra = mod.run(repo, res, tier) or {}
    except common.AnalysisError as e:
        err = e
    finally:
        common.REPO = prev
    return res, err, extra


def decide(pid, mod, root, tier):
    """-> (res, err, extra): err is an AnalysisError to re-raise or None"""
    res, err, extra = _run(pid, mod, root, tier)
    if err is None and not res.new_findings():
        return res, None, extra
    if os.environ.get("VERIF_NO_INLINE"):
        return res, err, extra
    import inline
    tmp = tempfile.mkdtemp(prefix="verif_inlined_")
    try:
        try:
            rep = inline.build_inlined_tree(root, tmp)
        except Exception as e:  # noqa - the second view is optional; its failure leaves the plain outcome
            res.notes.append(f"helper-inlined view not built: {type(e).__name__}: {e}")
            return res, err, extra
        if not rep["inlined"] and not rep.get("normalised") and not rep.get("constants_folded") and not rep.get("scalarised") and not rep.get("literal_factories_folded") \
                and not rep.get("removed"):
            return res, err, extra
        try:
            res2, err2, extra2 = _run(pid, mod, tmp, tier)
        except Exception as e:  # noqa
            res.notes.append(f"helper-inlined view crashed: {type(e).__name__}: {e}")
            return res, err, extra
        if err2 is None and not res2.new_findings():
            plain = f"analysis-error: {err}" if err is not None else "; ".join(str(f)[:160] for f in res.new_findings()[:6])
            res2.notes.append("decided on the helper-inlined view (inline.py): helpers that are not part of the reference tree were inlined "
                              f"into their callers {rep['inlined']}; the plain view reported: {plain}")
            extra2 = dict(extra2)
            extra2["view"] = {"name": "helper-inlined + control-flow normal form", "inlined_call_sites": rep["inlined"], "normalised_constructs": rep.get("normalised", {}), "helpers_removed": rep["removed"],
                              "helpers_kept": rep["kept"], "plain_view_outcome": plain}
            return res2, None, extra2
        res.notes.append(f"helper-inlined view ({len(rep['inlined'])} helpers) was not clean either; reporting the plain view")
        return res, err, extra
    finally:
        shutil.rmtree(tmp, ignore_errors=True)
