"""Rule MEMO - a property getter that memoises a value derived from mutable state must be invalidated wherever that state is written.

Instance discovery (no list): every `@property` getter G of a class under magpylib/_src/obj_classes whose body stores `self.M = E`
with E reading the receiver's state (`self.<attr>` or the bare `self` handed to a call).  E built only from constructors / literals
(lazy default objects such as `self._style = self._style_class()`) is not a memo of state.

  local inputs   I = the `self.<attr>` read by E.  Obligation: every method / setter of the class, its bases and its subclasses that
                 stores to an input (`self.i = ..`, `self.i[..] = ..`, tuple targets) also stores `self.M` after that store
                 (reset or recompute), `__init__` included (the memo must be initialised after its inputs).
  foreign inputs E hands `self` itself to a function, or reads attributes of elements of a self attribute: the value depends on the
                 state of *other* objects (a collection's descendants).  Such a memo can only be kept coherent by invalidation
                 propagated from those objects; obligation: some function stores `<not self>.M = ..`; otherwise a change below a
                 nested child leaves the ancestor's memo stale (nested tree -> read -> change in a child -> read).

This is a necessary condition of every property that reads object state through the public getters (C05 sums over `sources_all`,
C07 all interfaces read `mesh` / `vertices`, C11 flattened views): a stale memo is returned instead of the current state.
"""
from __future__ import annotations

import ast

from common import Finding, norm


def _self_attr(t):
    return t.attr if isinstance(t, ast.Attribute) and isinstance(t.value, ast.Name) and t.value.id == "self" else None


def _targets(stmt):
    ts = stmt.targets if isinstance(stmt, ast.Assign) else [stmt.target]
    out = []
    for t in ts:
        out += list(t.elts) if isinstance(t, (ast.Tuple, ast.List)) else [t]
    return out


def stores_of(fn):
    """[(attr, lineno, stmt)] for stores to self.attr / self.attr[...] in fn"""
    out = []
    for n in ast.walk(fn):
        if isinstance(n, (ast.Assign, ast.AugAssign, ast.AnnAssign)):
            for t in _targets(n):
                base = t
                while isinstance(base, ast.Subscript):
                    base = base.value
                a = _self_attr(base)
                if a:
                    out.append((a, n.lineno, n))
    return out


def memo_getters(repo, modprefix="magpylib._src.obj_classes"):
    """-> list of dict(cls, getter, memo, expr, inputs, foreign)"""
    out = []
    for (mname, cname), cl in sorted(repo.cls_by_key.items()):
        if not mname.startswith(modprefix):
            continue
        for gname, g in cl.getters.items():
            for n in ast.walk(g):
                if not isinstance(n, ast.Assign):
                    continue
                for t in _targets(n):
                    m = _self_attr(t)
                    if not m:
                        continue
                    e = n.value
                    inputs, foreign = set(), False
                    for x in ast.walk(e):
                        a = _self_attr(x)
                        if a and a != m:
                            # `self._cls()` style constructor attributes are not state reads
                            par_call = any(isinstance(c, ast.Call) and c.func is x for c in ast.walk(e))
                            if not par_call:
                                inputs.add(a)
                        if isinstance(x, ast.Call):
                            for arg in list(x.args) + [k.value for k in x.keywords]:
                                if isinstance(arg, ast.Name) and arg.id == "self":
                                    foreign = True
                    if inputs or foreign:
                        out.append({"cls": cl, "getter": gname, "memo": m, "expr": e, "inputs": inputs, "foreign": foreign, "stmt": n})
    return out


def run(repo, res, rule="MEMO", modfilter=None):
    memos = memo_getters(repo)
    n_get = sum(len(cl.getters) for (mn, cn), cl in repo.cls_by_key.items() if mn.startswith("magpylib._src.obj_classes"))
    res.analysed[f"{rule}:getters_scanned"] = n_get
    res.ob(f"{rule}:scan", True, {"rule": rule, "getters_scanned": n_get, "memoising_getters": [f"{m['cls'].name}.{m['getter']}->{m['memo']}" for m in memos]})
    for m in memos:
        cl = m["cls"]
        if modfilter and not modfilter(cl.mod.name):
            continue
        rel = cl.mod.rel if hasattr(cl.mod, "rel") else cl.mod.name.replace(".", "/") + ".py"
        label = f"{cl.name}.{m['getter']} (getter)"
        if m["foreign"]:
            prop = False
            for mod, q, fn, c2 in repo.all_functions():
                for n in ast.walk(fn):
                    if isinstance(n, (ast.Assign, ast.AugAssign)):
                        for t in _targets(n):
                            if isinstance(t, ast.Attribute) and t.attr == m["memo"] and not _self_attr(t):
                                prop = True
            res.ob(f"{rule}:{label}:{m['memo']}:foreign", prop, {"rule": rule, "memo": m["memo"], "expr": norm(m["expr"]), "propagated_invalidation": prop})
            if not prop:
                res.add(Finding(f"{rule}:foreign", rel, label, m["stmt"],
                                f"memoises a value computed from the state of other objects (the receiver's whole tree is handed to the "
                                f"callee) and nothing outside the receiver ever resets `{m['memo']}`: a change inside a nested child leaves it stale",
                                m["stmt"].lineno))
        if not m["inputs"]:
            continue
        # an input that a public getter hands out *by reference* can be edited in place from outside (`v = m.vertices; v *= s`): no
        # writer of the attribute runs, so the memo cannot be invalidated
        for c0 in repo.mro(cl):
            for gname, g in c0.getters.items():
                rets = [r for r in ast.walk(g) if isinstance(r, ast.Return) and r.value is not None]
                for r in rets:
                    a = _self_attr(r.value)
                    if a in m["inputs"] and gname != m["getter"]:
                        res.ob(f"{rule}:{label}:aliased-input:{a}", False, {"rule": rule, "memo": m["memo"], "input": a, "handed_out_by": f"{c0.name}.{gname}"})
                        res.add(Finding(f"{rule}:aliased-input", rel, label, m["stmt"], f"memoises a value computed from `{a}`, which the getter `{c0.name}.{gname}` hands out by "
                                        f"reference: an in-place edit of that array (`obj.{gname} *= s`) changes the input without invalidating `{m['memo']}`", m["stmt"].lineno))
        family = {c.name: c for c in repo.mro(cl)}
        for c in repo.subclasses(cl.name):
            family[c.name] = c
        for c in family.values():
            fns = [(f"{c.name}.{k}", v) for k, v in c.methods.items()] + [(f"{c.name}.{k} (setter)", v) for k, v in c.setters.items()]
            for q, fn in fns:
                st = stores_of(fn)
                ins = [(a, ln, s) for a, ln, s in st if a in m["inputs"]]
                if not ins:
                    continue
                memo_lines = [ln for a, ln, s in st if a == m["memo"]]
                for a, ln, s in ins:
                    ok = any(ml >= ln for ml in memo_lines)
                    res.ob(f"{rule}:{label}:{q}:{a}", ok, {"rule": rule, "memo": m["memo"], "input": a, "writer": q, "store": norm(s), "invalidated": ok})
                    if not ok:
                        crel = c.mod.rel if hasattr(c.mod, "rel") else c.mod.name.replace(".", "/") + ".py"
                        res.add(Finding(f"{rule}:stale", crel, q, s,
                                        f"writes `{a}`, an input of the value memoised in `{m['memo']}` by {label}, without resetting the memo: "
                                        f"the getter keeps returning the value computed from the old `{a}`", ln))
    return memos
