import sys, traceback
sys.path.insert(0, '/root/scratch/proto')
from absint import *
from dimdom import *
L = D(l=1); INT = D(isint=True)
ENTRIES = [
 ('is_facet_inwards', dict(face=L, faces=L)),
 ('segments_intersect_facets', dict(segments=L, facets=L)),
 ('fix_trimesh_orientation', dict(vertices=L, faces=INT)),
 ('get_intersecting_triangles', dict(vertices=L, triangles=INT)),
 ('calculate_centroid', dict(vertices=L, faces=INT)),
 ('mask_inside_trimesh', dict(points=L, faces=L)),
]
for fn, params in ENTRIES:
    repo = Repo('/repo'); dom = DimDomain(); dom.repo_summaries = {}
    it = Interp(repo, dom)
    mod = repo.module('magpylib._src.fields.field_BH_triangularmesh')
    f = FuncRef(mod, mod.funcs[fn])
    try:
        out = it.call_func(f, [], params, mod.funcs[fn])
        print(fn, '->', out, 'exprs', dom.nexpr)
    except Unsupported as e:
        print(fn, 'UNSUPPORTED', e, it.callstack)
    except Exception:
        print(fn, 'CRASH'); traceback.print_exc()
    seen=set()
    for fd in dom.findings:
        if fd.key() in seen: continue
        seen.add(fd.key()); print('    ', fd)
