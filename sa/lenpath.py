"""LEN-PATH - length consistency of the path plumbing behind move / rotate (apply_move, apply_rotation, path_padding,
path_padding_param, multi_anchor_behavior), decided by evaluating only lengths, ranks, start indices and flags.

The code under analysis touches the path lengths, the input length and `start` only through comparisons, +/-, max/min, np.pad widths
and slices; its behaviour on *lengths* is therefore a function of finitely many cases: the ordering of the lengths involved, the sign /
size class of `start` (or "auto"), scalar vs vector input, and which optional inputs are given.  The sample set below realises these
cases.  For every sample the functions are evaluated on values that carry nothing but a length and a rank:

  obligations   (a) an in-place slice operation `A[i:j] op= X` / `A[i:j] = X` is handed an X whose length is j-i or 1 (or a rank-1 vector);
                (b) rotation.apply(X) and rotation * other combine stacks of equal length (or length 1);
                (c) afterwards the object's position and orientation paths are equally long;
                (d) and that length is the documented one: max(old length, start + input length) for vector input, the old length (or
                    |start| when start reaches before the path) for scalar input.

Nothing of the package is executed; an unknown construct makes the run *undecided* (never a verdict).  Declared summaries: the three
validators hand back their input with its length and rank (`check_format_input_orientation` as the pair (rotation, quaternions)).
"""
from __future__ import annotations

import ast

from lengths import Undecided, Ret


class Arr:
    """an array / Rotation stack: rows (n = 1 and rank 1: a single vector / single rotation).  Every row carries its *recipe*: a nested
    tuple that says from which input rows it was computed (("c", 2) = row 2 of the object's own path, ("sub", x, y) = x - y, ...)."""
    def __init__(self, n, rank=2, rows=None, tag="?"):
        self.rank = rank
        self.rows = rows if isinstance(rows, ViewRows) else (list(rows) if rows is not None else [(tag, k) for k in range(n)])

    @property
    def n(self):
        return len(self.rows)

    def __repr__(self):
        return f"Arr(n={self.n}, rank={self.rank})"


class ViewRows:
    """the rows lo..hi of another row list, written through (a NumPy basic slice is a view)"""
    def __init__(self, base, lo, hi):
        self.base, self.lo, self.hi = base, lo, max(hi, lo)

    def __len__(self):
        return self.hi - self.lo

    def __iter__(self):
        return iter([self.base[k] for k in range(self.lo, self.hi)])

    def __getitem__(self, k):
        if isinstance(k, slice):
            return [self.base[j] for j in range(self.lo, self.hi)][k]
        if k < 0:
            k += len(self)
        if not 0 <= k < len(self):
            raise IndexError(k)
        return self.base[self.lo + k]

    def __setitem__(self, k, v):
        if k < 0:
            k += len(self)
        self.base[self.lo + k] = v

    def __bool__(self):
        return len(self) > 0


class Obj:
    def __init__(self, **attrs):
        self.attrs = dict(attrs)


class Problem(Exception):
    pass


class Rec(tuple):
    """a record (NamedTuple): a tuple whose items can also be read by field name"""
    fields = ()


class Slc:
    def __init__(self, lo, hi):
        self.lo, self.hi = lo, hi


class PathEval:
    def __init__(self, resolve, depth=0, problems=None):
        self.resolve, self.depth = resolve, depth
        self.problems = problems if problems is not None else []

    # ------------------------------------------------------------------ helpers
    def compat(self, a, b, node, what, op="op"):
        """stacks a and b are combined row by row"""
        if isinstance(a, Arr) and isinstance(b, Arr):
            na = 1 if a.rank == 1 else a.n
            nb = 1 if b.rank == 1 else b.n
            if na != nb and 1 not in (na, nb):
                self.problems.append((node, f"{what}: {na} rows against {nb} rows"))
                raise Problem()
            n = max(na, nb)
            rows = [(op, a.rows[k if na > 1 else 0], b.rows[k if nb > 1 else 0]) for k in range(n)] if a.rows and b.rows else []
            return Arr(n, 2 if 2 in (a.rank, b.rank) else 1, rows)
        raise Undecided(what)

    def truth(self, v):
        if isinstance(v, bool):
            return v
        if v is None:
            return False
        if isinstance(v, (int, str, list, tuple)):
            return bool(v)
        if isinstance(v, (Arr, Obj)):
            raise Undecided("truth of an array")
        raise Undecided("truth")

    # ------------------------------------------------------------------ expressions
    def ev(self, e, env):
        if isinstance(e, ast.Constant):
            return e.value
        if isinstance(e, ast.Name):
            if e.id in env:
                return env[e.id]
            raise Undecided(f"name {e.id}")
        if isinstance(e, ast.Tuple):
            return tuple(self.ev(x, env) for x in e.elts)
        if isinstance(e, ast.List):
            return [self.ev(x, env) for x in e.elts]
        if isinstance(e, ast.UnaryOp):
            v = self.ev(e.operand, env)
            if isinstance(e.op, ast.USub) and isinstance(v, int) and not isinstance(v, bool):
                return -v
            if isinstance(e.op, ast.Not):
                return not self.truth(v)
            raise Undecided("unary")
        if isinstance(e, ast.BinOp):
            a, b = self.ev(e.left, env), self.ev(e.right, env)
            ints = lambda x: isinstance(x, int) and not isinstance(x, bool)      # noqa
            if ints(a) and ints(b):
                if isinstance(e.op, ast.Add):
                    return a + b
                if isinstance(e.op, ast.Sub):
                    return a - b
                if isinstance(e.op, ast.Mult):
                    return a * b
            if isinstance(a, Arr) and isinstance(b, Arr) and isinstance(e.op, (ast.Add, ast.Sub, ast.Mult)):
                return self.compat(a, b, e, "composition / arithmetic of two stacks", {ast.Add: "add", ast.Sub: "sub", ast.Mult: "mul"}[type(e.op)])
            if isinstance(a, tuple) and isinstance(b, tuple) and isinstance(e.op, ast.Add):
                return a + b
            raise Undecided("binop")
        if isinstance(e, ast.Compare) and len(e.ops) == 1:
            a, b = self.ev(e.left, env), self.ev(e.comparators[0], env)
            op = e.ops[0]
            if isinstance(op, (ast.Is, ast.IsNot)):
                if a is None or b is None:
                    return (a is b) == isinstance(op, ast.Is)
                raise Undecided("identity test")
            if isinstance(op, (ast.Eq, ast.NotEq)) and (isinstance(a, str) or isinstance(b, str)):
                return (a == b) == isinstance(op, ast.Eq)
            if isinstance(a, int) and isinstance(b, int):
                return {ast.Lt: a < b, ast.LtE: a <= b, ast.Gt: a > b, ast.GtE: a >= b, ast.Eq: a == b, ast.NotEq: a != b}[type(op)]
            raise Undecided("compare")
        if isinstance(e, ast.BoolOp):
            last = None
            for v in e.values:
                last = self.ev(v, env)
                t = self.truth(last)
                if isinstance(e.op, ast.And) and not t:
                    return last
                if isinstance(e.op, ast.Or) and t:
                    return last
            return last
        if isinstance(e, ast.IfExp):
            return self.ev(e.body if self.truth(self.ev(e.test, env)) else e.orelse, env)
        if isinstance(e, ast.Attribute):
            v = self.ev(e.value, env)
            if isinstance(v, Obj) and e.attr in v.attrs:
                return v.attrs[e.attr]
            if isinstance(v, Obj) and e.attr in getattr(self, "getters", {}):
                sub = PathEval(self.resolve, self.depth + 1, self.problems)
                sub.records, sub.getters, sub.setters = getattr(self, "records", {}), self.getters, getattr(self, "setters", {})
                try:
                    sub.block(self.getters[e.attr].body, {"self": v})
                except Ret as r:
                    return r.v
                return None
            if isinstance(v, Rec) and e.attr in v.fields:
                return v[v.fields.index(e.attr)]
            if isinstance(v, Arr):
                if e.attr == "ndim":
                    return v.rank
                if e.attr == "shape":
                    return (v.n, "?") if v.rank == 2 else ("?",)
                if e.attr == "size" and getattr(v, "w", None):
                    return (v.n if v.rank == 2 else 1) * v.w
                if e.attr == "T":
                    raise Undecided("transpose")
            raise Undecided(f"attribute {e.attr}")
        if isinstance(e, ast.Subscript):
            v = self.ev(e.value, env)
            if isinstance(v, tuple) and isinstance(e.slice, ast.Constant) and isinstance(e.slice.value, int):
                return v[e.slice.value]
            if isinstance(v, Arr) and v.rank == 2 and isinstance(e.slice, (ast.Constant, ast.UnaryOp)):
                i_ = self.ev(e.slice, env)
                if isinstance(i_, int) and -v.n <= i_ < v.n:
                    return Arr(1, 1, [v.rows[i_]])            # one entry of a path
            sl = self.as_slice(e.slice, env)
            if isinstance(v, Arr) and sl is not None and v.rank == 2:
                lo, hi = self.bounds(sl, v.n, env)
                return Arr(0, 2, ViewRows(v.rows, lo, hi))           # a basic slice is a view: in-place operations on it reach v
            raise Undecided("subscript")
        if isinstance(e, ast.Call):
            return self.call(e, env)
        raise Undecided(type(e).__name__)

    def as_slice(self, node, env):
        """an `a:b` slice, or an expression whose value is slice(a, b) -> Slc of evaluated bounds (None = open); else None"""
        if isinstance(node, ast.Slice):
            if node.step is not None:
                return None
            return Slc(self.ev(node.lower, env) if node.lower is not None else None, self.ev(node.upper, env) if node.upper is not None else None)
        if isinstance(node, (ast.Name, ast.Attribute, ast.Call)):
            try:
                v = self.ev(node, env)
            except Undecided:
                return None
            return v if isinstance(v, Slc) else None
        return None

    def bounds(self, sl, n, env):
        lo = sl.lo if sl.lo is not None else 0
        hi = sl.hi if sl.hi is not None else n
        if not (isinstance(lo, int) and isinstance(hi, int)):
            raise Undecided("slice bound")
        lo = max(n + lo, 0) if lo < 0 else min(lo, n)
        hi = max(n + hi, 0) if hi < 0 else min(hi, n)
        return lo, hi

    def call(self, c, env):
        f = c.func
        name = f.id if isinstance(f, ast.Name) else (f.attr if isinstance(f, ast.Attribute) else None)
        args = [self.ev(a, env) for a in c.args]
        kw = {k.arg: self.ev(k.value, env) for k in c.keywords if k.arg}
        if name == "len" and len(args) == 1:
            if isinstance(args[0], Arr):
                if args[0].rank == 1:
                    raise Undecided("len() of a single vector")
                return args[0].n
            if isinstance(args[0], (list, tuple)):
                return len(args[0])
        if name == "slice" and isinstance(f, ast.Name) and 1 <= len(args) <= 2:
            return Slc(None, args[0]) if len(args) == 1 else Slc(args[0], args[1])
        if isinstance(f, ast.Name) and f.id in getattr(self, "records", {}):
            names = self.records[f.id]
            vals = dict(zip(names, args))
            vals.update(kw)
            if set(vals) != set(names):
                raise Undecided(f"record {f.id}")
            r_ = Rec(vals[n_] for n_ in names)
            r_.fields = tuple(names)
            return r_
        if name == "bool" and len(args) == 1:
            return self.truth(args[0])
        if name == "getattr" and isinstance(f, ast.Name) and len(args) >= 2 and isinstance(args[0], Obj) and isinstance(args[1], str):
            if args[1] in args[0].attrs:
                return args[0].attrs[args[1]]
            if len(args) == 3:
                return args[2]
            raise Undecided("getattr without default")
        if name == "squeeze" and args and isinstance(args[0], Arr):
            return Arr(0, 1 if args[0].n == 1 else args[0].rank, args[0].rows)
        if name in ("rotate", "_rotate") and isinstance(f, ast.Attribute):
            recv = self.ev(f.value, env)
            fn = self.resolve("apply_rotation")
            if isinstance(recv, Obj) and fn is not None and args:
                # declared: obj.rotate(rotation, anchor, start) of a childless object is apply_rotation(obj, rotation, anchor, start)
                env2 = {"target_object": recv, "rotation": args[0], "anchor": kw.get("anchor", args[1] if len(args) > 1 else None),
                        "start": kw.get("start", args[2] if len(args) > 2 else "auto"), "parent_path": None}
                sub = PathEval(self.resolve, self.depth + 1, self.problems)
                sub.records, sub.getters, sub.setters = getattr(self, "records", {}), getattr(self, "getters", {}), getattr(self, "setters", {})
                try:
                    sub.block(fn.body, env2)
                except Ret:
                    pass
                return recv
            raise Undecided("rotate")
        if name in ("max", "min") and args and all(isinstance(a, int) for a in args):
            return max(args) if name == "max" else min(args)
        if name == "isinstance":
            raise Undecided("isinstance")
        if name == "pad" and args and isinstance(args[0], Arr):
            w = args[1] if len(args) > 1 else kw.get("pad_width")
            if isinstance(w, (tuple, list)) and w and isinstance(w[0], (tuple, list)) and len(w[0]) == 2 and all(isinstance(x, int) for x in w[0]):
                if w[0][0] < 0 or w[0][1] < 0:
                    self.problems.append((c, f"np.pad with a negative width {tuple(w[0])}"))
                    raise Problem()
                if not args[0].rows:
                    raise Undecided("padding an empty path")
                return Arr(0, 2, [args[0].rows[0]] * w[0][0] + list(args[0].rows) + [args[0].rows[-1]] * w[0][1])
            raise Undecided("pad width")
        if name == "reshape" and isinstance(f, ast.Attribute) and args:
            tgt, shp = (args[0], args[1]) if isinstance(args[0], Arr) and len(args) > 1 else (None, None)
            if tgt is not None and isinstance(shp, tuple) and shp and shp[0] == 1 and tgt.n == 1:
                return Arr(1, 2, tgt.rows)
            raise Undecided("reshape")
        if name == "apply" and isinstance(f, ast.Attribute) and args:
            rot = self.ev(f.value, env)
            return self.compat(rot, args[0], c, "rotation.apply(points)", "rot")
        if name in ("as_quat", "copy") and isinstance(f, ast.Attribute):
            v_ = self.ev(f.value, env)
            if not isinstance(v_, Arr):
                return v_
            out_ = Arr(0, v_.rank, v_.rows)
            out_.w = 4 if name == "as_quat" else getattr(v_, "w", None)       # quaternions have four components: `.size` is decidable
            return out_
        if name == "inv" and isinstance(f, ast.Attribute):
            v_ = self.ev(f.value, env)
            if isinstance(v_, Arr):
                return Arr(0, v_.rank, [("inv", r_) for r_ in v_.rows])
            raise Undecided("inv")
        if name in ("from_quat", "array", "asarray") and args and isinstance(args[0], Arr):
            return Arr(0, args[0].rank, args[0].rows)
        # declared summaries of the validators
        if name == "check_format_input_vector" and args:
            if isinstance(args[0], Arr) and isinstance(kw.get("reshape"), tuple):
                return Arr(0, 2, args[0].rows)         # reshape=(-1, 3): always a path (an independent copy)
            return Arr(0, args[0].rank, args[0].rows) if isinstance(args[0], Arr) else args[0]
        if name == "check_format_input_orientation" and args:
            if kw.get("init_format") is True or (len(args) > 1 and args[1] is True):
                q_ = Arr(0, 2, args[0].rows) if isinstance(args[0], Arr) else Arr(1, 2, [("unit",)])      # quaternions in shape (-1, 4)
                q_.w = 4
                return q_
            if isinstance(args[0], Arr):
                q_ = Arr(0, args[0].rank, args[0].rows)
                q_.w = 4                                      # the second element is the quaternion array of the rotation
                return (args[0], q_)
            return (args[0], args[0])
        if name == "check_format_input_anchor" and args:
            return args[0]
        if name == "check_start_type":
            return None
        if isinstance(f, ast.Name):
            fn = self.resolve(f.id)
            if fn is not None:
                if self.depth >= 4 or fn.args.vararg or fn.args.kwarg:
                    raise Undecided(f"call {f.id}")
                params = [a.arg for a in fn.args.args]
                env2 = dict(zip(params, args))
                env2.update(kw)
                dflt = dict(zip(params[len(params) - len(fn.args.defaults):], fn.args.defaults))
                for p_, d_ in dflt.items():
                    if p_ not in env2 and isinstance(d_, ast.Constant):
                        env2[p_] = d_.value
                sub = PathEval(self.resolve, self.depth + 1, self.problems)
                sub.records, sub.getters, sub.setters = getattr(self, "records", {}), getattr(self, "getters", {}), getattr(self, "setters", {})
                try:
                    sub.block(fn.body, env2)
                except Ret as r:
                    return r.v
                return None
        raise Undecided(f"call {ast.unparse(c.func)}")

    # ------------------------------------------------------------------ statements
    def assign(self, t, v, env, node):
        if isinstance(t, ast.Name):
            env[t.id] = v
        elif isinstance(t, ast.Tuple) and isinstance(v, tuple) and len(t.elts) == len(v):
            for a, b in zip(t.elts, v):
                self.assign(a, b, env, node)
        elif isinstance(t, ast.Attribute):
            o = self.ev(t.value, env)
            if not isinstance(o, Obj):
                raise Undecided("attribute store")
            if t.attr in getattr(self, "setters", {}) and self.depth < 4:
                # a property of the package: the store runs the setter
                sfn = self.setters[t.attr]
                sub = PathEval(self.resolve, self.depth + 1, self.problems)
                sub.records, sub.getters, sub.setters = getattr(self, "records", {}), getattr(self, "getters", {}), self.setters
                try:
                    sub.block(sfn.body, {"self": o, sfn.args.args[1].arg: v})
                except Ret:
                    pass
                return
            o.attrs[t.attr] = v
        elif isinstance(t, ast.Subscript):
            self.slice_store(t, v, env, node)
        else:
            raise Undecided("assignment target")

    def slice_store(self, t, v, env, node):
        base = self.ev(t.value, env)
        sl = self.as_slice(t.slice, env)
        if not (isinstance(base, Arr) and sl is not None and base.rank == 2):
            raise Undecided("subscript store")
        lo, hi = self.bounds(sl, base.n, env)
        n = max(hi - lo, 0)
        want_lo = sl.lo if sl.lo is not None else 0
        want_hi = sl.hi if sl.hi is not None else base.n
        if isinstance(want_lo, int) and isinstance(want_hi, int) and want_lo >= 0 and want_hi >= 0 and want_hi - want_lo != n:
            self.problems.append((node, f"the slice [{want_lo}:{want_hi}] reaches beyond the padded path of length {base.n}"))
        if isinstance(v, Arr):
            nv = 1 if v.rank == 1 else v.n
            if nv not in (1, n):
                self.problems.append((node, f"{nv} rows are written into a slice of {n} rows"))
                raise Problem()
            opn = {ast.Add: "add", ast.Sub: "sub", ast.Mult: "mul"}.get(type(getattr(node, "op", None))) if isinstance(node, ast.AugAssign) else None
            for k in range(n):
                r_ = v.rows[k if nv > 1 else 0]
                base.rows[lo + k] = r_ if opn is None else (opn, base.rows[lo + k], r_)
        elif v is not None:
            raise Undecided("stored value")

    def block(self, stmts, env):
        for s in stmts:
            if isinstance(s, ast.Expr):
                if isinstance(s.value, ast.Call):
                    try:
                        self.ev(s.value, env)
                    except Undecided:
                        pass            # a call for its checks only (validators)
                continue
            if isinstance(s, ast.Assign):
                v = self.ev(s.value, env)
                for t in s.targets:
                    self.assign(t, v, env, s)
            elif isinstance(s, ast.AnnAssign) and s.value is not None:
                self.assign(s.target, self.ev(s.value, env), env, s)
            elif isinstance(s, ast.AugAssign):
                if isinstance(s.target, ast.Subscript):
                    self.slice_store(s.target, self.ev(s.value, env), env, s)
                elif isinstance(s.target, ast.Name):
                    a, b = env.get(s.target.id), self.ev(s.value, env)
                    if isinstance(a, int) and isinstance(b, int) and isinstance(s.op, (ast.Add, ast.Sub)):
                        env[s.target.id] = a + b if isinstance(s.op, ast.Add) else a - b
                    elif isinstance(a, Arr) and isinstance(b, Arr) and isinstance(s.op, (ast.Add, ast.Sub, ast.Mult)) and a.rank == 2:
                        # in place on the array the name is bound to (possibly a view)
                        nb = 1 if b.rank == 1 else b.n
                        if nb not in (1, a.n):
                            self.problems.append((s, f"{nb} rows are combined in place with {a.n} rows"))
                            raise Problem()
                        opn = {ast.Add: "add", ast.Sub: "sub", ast.Mult: "mul"}[type(s.op)]
                        for k in range(a.n):
                            a.rows[k] = (opn, a.rows[k], b.rows[k if nb > 1 else 0])
                    else:
                        raise Undecided("augmented assignment")
                else:
                    raise Undecided("augmented assignment")
            elif isinstance(s, ast.If):
                self.block(s.body if self.truth(self.ev(s.test, env)) else s.orelse, env)
            elif isinstance(s, ast.For) and not s.orelse:
                it = self.ev(s.iter, env)
                if not isinstance(it, (list, tuple)):
                    raise Undecided("loop over an abstract sequence")
                for el in it:
                    self.assign(s.target, el, env, s)
                    self.block(s.body, env)
            elif isinstance(s, ast.Return):
                raise Ret(self.ev(s.value, env) if s.value is not None else None)
            elif isinstance(s, (ast.Import, ast.ImportFrom, ast.Pass)):
                continue
            elif isinstance(s, ast.Raise):
                raise Problem()
            else:
                raise Undecided(type(s).__name__)


# ---------------------------------------------------------------------- row recipes
RECIPES = {}        # case -> how every row of the resulting paths is computed from the input rows (filled by the drivers)


def _show(r):
    if isinstance(r, tuple) and r and isinstance(r[0], str):
        if len(r) == 2 and isinstance(r[1], int):
            return f"{r[0]}[{r[1]}]"
        if len(r) == 1:
            return r[0]
        sym = {"add": "+", "sub": "-", "mul": "*"}.get(r[0])
        if sym and len(r) == 3:
            return f"({_show(r[1])} {sym} {_show(r[2])})"
        return f"{r[0]}(" + ", ".join(_show(x) for x in r[1:]) + ")"
    return repr(r)


def recipe(obj, children=()):
    out = []
    for who, o in [("", obj)] + [(f"child{i}.", c) for i, c in enumerate(children, 1)]:
        out.append(who + "position: " + " | ".join(_show(r) for r in o.attrs["_position"].rows))
        out.append(who + "orientation: " + " | ".join(_show(r) for r in o.attrs["_orientation"].rows))
    return out


# ---------------------------------------------------------------------- samples and drivers
LENOP = (1, 2, 4)
STARTS = ("auto", 0, 1, 2, 5, -1, -2, -5)
INPUTS = (("scalar", 1), ("vector", 1), ("vector", 2), ("vector", 5))


def expected_length(lenop, kind, n, start):
    scalar = kind == "scalar"
    lenip = 1 if scalar else n
    if start == "auto":
        start = 0 if scalar else lenop
    pad_before = 0
    if start < 0:
        start = lenop + start
        if start < 0:
            pad_before, start = -start, 0
    return max(lenop + pad_before, start + lenip)


def run_move(fn, resolve, records=None):
    """-> (n_samples, problems[(sample, node, text)], undecided)"""
    probs, und, n = [], None, 0
    for lenop in LENOP:
        for kind, ni in INPUTS:
            for start in STARTS:
                n += 1
                obj = Obj(_position=Arr(lenop, 2, tag="c"), _orientation=Arr(lenop, 2, tag="o"))
                inp = Arr(1, 1, tag="i") if kind == "scalar" else Arr(ni, 2, tag="i")
                ev = PathEval(resolve)
                ev.records = records or {}
                env = {"target_object": obj, "displacement": inp, "start": start}
                sample = f"path length {lenop}, {kind} input of {ni}, start={start!r}"
                try:
                    try:
                        ev.block(fn.body, env)
                    except Ret:
                        pass
                except Problem:
                    pass
                except Undecided as u:
                    return n, probs, f"{u} ({sample})"
                for node, txt in ev.problems:
                    probs.append((sample, node, txt))
                a, b = obj.attrs["_position"], obj.attrs["_orientation"]
                if isinstance(a, Arr) and isinstance(b, Arr) and not ev.problems:
                    if a.n != b.n:
                        probs.append((sample, fn, f"position path of {a.n} and orientation path of {b.n} entries afterwards"))
                    elif a.n != expected_length(lenop, kind, ni, start):
                        probs.append((sample, fn, f"path length {a.n} afterwards, documented {expected_length(lenop, kind, ni, start)}"))
                    else:
                        RECIPES[f"move|{sample}"] = recipe(obj)
    return n, probs, und


def run_rotation(fn, resolve, records=None):
    probs, n = [], 0
    anchors = (None, ("scalar", 1), ("vector", 2), ("vector", 5))
    parents = (None, 1, 2, 3, 6)
    for lenop in LENOP:
        for kind, ni in INPUTS:
            for start in STARTS:
                for anc in anchors:
                    for par in parents:
                        if anc is not None and par is not None:
                            continue        # parent_path only matters without an explicit anchor
                        n += 1
                        obj = Obj(_position=Arr(lenop, 2, tag="c"), _orientation=Arr(lenop, 2, tag="o"))
                        rot = Arr(1, 1, tag="i") if kind == "scalar" else Arr(ni, 2, tag="i")
                        a_ = None if anc is None else (Arr(1, 1, tag="a") if anc[0] == "scalar" else Arr(anc[1], 2, tag="a"))
                        ev = PathEval(resolve)
                        ev.records = records or {}
                        env = {"target_object": obj, "rotation": rot, "anchor": a_, "start": start, "parent_path": None if par is None else Arr(par, 2, tag="p")}
                        sample = f"path length {lenop}, {kind} rotation of {ni}, start={start!r}, anchor={anc}, parent path={par}"
                        try:
                            try:
                                ev.block(fn.body, env)
                            except Ret:
                                pass
                        except Problem:
                            pass
                        except Undecided as u:
                            return n, probs, f"{u} ({sample})"
                        for node, txt in ev.problems:
                            probs.append((sample, node, txt))
                        a, b = obj.attrs["_position"], obj.attrs["_orientation"]
                        if isinstance(a, Arr) and isinstance(b, Arr) and not ev.problems:
                            # with a vector anchor the input is padded to the anchor's length first
                            n_in = ni if anc is None or anc[0] == "scalar" else (max(ni, anc[1]) if kind == "vector" else anc[1])
                            k_in = kind if anc is None or anc[0] == "scalar" or kind == "vector" else "vector"
                            if a.n != b.n:
                                probs.append((sample, fn, f"position path of {a.n} and orientation path of {b.n} entries afterwards"))
                            elif a.n != expected_length(lenop, k_in, n_in, start):
                                probs.append((sample, fn, f"path length {a.n} afterwards, documented {expected_length(lenop, k_in, n_in, start)}"))
                            else:
                                RECIPES[f"rotate|{sample}"] = recipe(obj)
    return n, probs, None


def run_setters(getters, setters, resolve, records=None):
    """position / orientation setters of BaseGeo on an object with children of other path lengths:
       afterwards the object and every child have position and orientation paths of the new length, and no row-wise combination inside
       the setter pairs stacks of different lengths.  -> (n, problems, undecided)"""
    probs, n = [], 0
    for prop in ("position", "orientation"):
        sfn = setters.get(prop)
        if sfn is None:
            return n, probs, f"no {prop} setter"
        for a in (1, 2, 4):
            for b, rank in ((1, 1), (1, 2), (2, 2), (4, 2), (6, 2)):
                for kids in ((), (1,), (a,), (2, 5)):
                    n += 1
                    children = [Obj(_position=Arr(c, 2, tag=f"c{i}"), _orientation=Arr(c, 2, tag=f"o{i}")) for i, c in enumerate(kids, 1)]
                    obj = Obj(_position=Arr(a, 2, tag="c"), _orientation=Arr(a, 2, tag="o"))
                    if children:
                        obj.attrs["children"] = children
                    inp = Arr(b, rank, tag="i")
                    ev = PathEval(resolve)
                    ev.records, ev.getters, ev.setters = records or {}, getters, setters
                    sample = f"{prop} setter: own path {a}, new value of {b} row(s) (rank {rank}), children with paths {list(kids)}"
                    try:
                        try:
                            ev.block(sfn.body, {"self": obj, sfn.args.args[1].arg: inp})
                        except Ret:
                            pass
                    except Problem:
                        pass
                    except Undecided as u:
                        return n, probs, f"{u} ({sample})"
                    for node, txt in ev.problems:
                        probs.append((sample, node, txt))
                    if ev.problems:
                        continue
                    want = b
                    for who, o in [("the object", obj)] + [(f"child {i}", c) for i, c in enumerate(children)]:
                        p_, o_ = o.attrs["_position"], o.attrs["_orientation"]
                        if not (isinstance(p_, Arr) and isinstance(o_, Arr)):
                            return n, probs, f"path of {who} not followed ({sample})"
                        if p_.n != o_.n:
                            probs.append((sample, sfn, f"{who} ends with a position path of {p_.n} and an orientation path of {o_.n} entries"))
                        elif p_.n != want:
                            probs.append((sample, sfn, f"{who} ends with paths of {p_.n} entries, the new path has {want}"))
                    if not any(s_ == sample for s_, _n, _t in probs):
                        RECIPES[f"set|{sample}"] = recipe(obj, children)
    return n, probs, None


GOLDEN = __import__("os").path.join(__import__("os").path.dirname(__import__("os").path.abspath(__file__)), "lenpath_golden.json")


def all_recipes(repo):
    """evaluate every case on `repo` -> (recipes, undecided)"""
    geo = repo.cls("BaseGeo")
    mods = [geo.mod, repo.mod("magpylib._src.obj_classes.class_BaseTransform")]

    def resolve(name):
        for m_ in mods:
            r = repo.resolve_name(m_, name)
            if r and r[0] == "func":
                return r[2]
        return None
    records = {}
    for m_ in mods:
        for c_ in m_.tree.body:
            if isinstance(c_, ast.ClassDef) and any(ast.unparse(b).endswith("NamedTuple") for b in c_.bases):
                records[c_.name] = [st.target.id for st in c_.body if isinstance(st, ast.AnnAssign) and isinstance(st.target, ast.Name)]
    RECIPES.clear()
    und = []
    bt = mods[1]
    for fname, runner in (("apply_move", run_move), ("apply_rotation", run_rotation)):
        if fname in bt.funcs:
            u = runner(bt.funcs[fname], resolve, records)[2]
            if u:
                und.append(u)
    u = run_setters(geo.getters, geo.setters, resolve, records)[2]
    if u:
        und.append(u)
    return dict(RECIPES), und


if __name__ == "__main__":
    import json, sys
    sys.path.insert(0, __import__("os").path.dirname(GOLDEN))
    from repo import Repo
    rec, und = all_recipes(Repo(sys.argv[2] if len(sys.argv) > 2 else "/repo"))
    if sys.argv[1] == "golden":
        json.dump(rec, open(GOLDEN, "w"), indent=0, sort_keys=True)
        print(f"{len(rec)} case recipes written to {GOLDEN}; undecided: {und}")
    else:
        gold = json.load(open(GOLDEN))
        diff = [k for k in gold if k in rec and rec[k] != gold[k]]
        print(f"{len(rec)} cases, {len(diff)} differ from the reference, undecided: {und}")
        for k in diff[:5]:
            print(k, "\n   now:", rec[k], "\n   ref:", gold[k])
