"""Thorough tier: checker self-validation.

For the property under check, every rule is exercised on scratch copies of /repo's *working tree* (a temp dir outside /repo and
/verif, removed immediately):
  must-fire     single-edit mutants (mutants.py) and the confirmed seeded changes under /verif/seeded/<id>-k that this
                property's check is recorded to detect -> the check must report a finding (not an analysis error)
  must-silent   behaviour-preserving refactor twins (all of them, whichever property they were written for) -> no new finding
A rule that stops firing on its mutant, or a twin that raises an alarm, fails the run with exit 2 (the checker is broken,
nothing it reports is believed).  Mutants whose anchor text is no longer present are skipped and listed; if more than half of
a property's mutants are skipped the run fails (the self-test would be vacuous).
"""
from __future__ import annotations

import concurrent.futures as cf
import glob
import importlib
import json
import os
import shutil
import subprocess
import sys
import tempfile

HERE = os.path.dirname(os.path.abspath(__file__))
VERIF = os.path.dirname(HERE)


def _prepare(kind, spec, base):
    """-> temp root containing magpylib/ with the variant applied, or None if not applicable"""
    root = tempfile.mkdtemp(prefix="verif_selftest_")
    shutil.copytree(os.path.join(base, "magpylib"), os.path.join(root, "magpylib"),
                    ignore=shutil.ignore_patterns("__pycache__", "*.pyc"))
    if kind == "patch":
        r = subprocess.run(["git", "apply", "--whitespace=nowarn", spec], cwd=root, capture_output=True, text=True)
        if r.returncode != 0:
            shutil.rmtree(root, ignore_errors=True)
            return None
        return root
    path = os.path.join(root, spec["file"])
    try:
        src = open(path, encoding="utf-8", newline="").read()
    except OSError:
        shutil.rmtree(root, ignore_errors=True)
        return None
    olds = spec["old"] if isinstance(spec["old"], (list, tuple)) else [spec["old"]]
    news = spec["new"] if isinstance(spec["new"], (list, tuple)) else [spec["new"]]
    for old, new in zip(olds, news):
        if src.count(old) < 1:
            if "\r\n" in src and src.count(old.replace("\n", "\r\n")) >= 1:     # CRLF files
                old, new = old.replace("\n", "\r\n"), new.replace("\n", "\r\n")
            else:
                shutil.rmtree(root, ignore_errors=True)
                return None
        src = src.replace(old, new, 1)
    open(path, "w", encoding="utf-8", newline="").write(src)
    try:
        compile(open(path, encoding="utf-8").read(), path, "exec")
    except SyntaxError:
        shutil.rmtree(root, ignore_errors=True)
        return "SYNTAX"
    return root


def _run_variant(args):
    pid, name, kind, spec, expect, base = args
    sys.path.insert(0, HERE)
    sys.dont_write_bytecode = True
    import common
    root = _prepare(kind, spec, base)
    if root is None:
        return (name, expect, "skipped", "anchor text / patch no longer applies")
    if root == "SYNTAX":
        return (name, expect, "skipped", "variant does not compile")
    try:
        common.REPO = root
        import decide
        mod = importlib.import_module(f"props.{pid.lower()}")
        res = common.Result(pid)
        try:
            res, err, _ = decide.decide(pid, mod, root, "quick")
            status = "ok" if err is None else f"analysis-error: {err}"
        except Exception as e:  # noqa
            status = f"crash: {type(e).__name__}: {e}"
        new = res.new_findings()
        if status != "ok" and not new:
            return (name, expect, "error", status[:300])
        return (name, expect, "fired" if new else "silent", "; ".join(f"[{f.rule}] {f.func}: {f.construct[:60]}" for f in new[:3]))
    finally:
        common.REPO = base          # worker processes are reused
        shutil.rmtree(root, ignore_errors=True)


def run_for(pid, mod, seed=0):
    import mutants
    import common
    base = common.REPO
    items = []
    for m in mutants.MUTANTS:
        # a behaviour-preserving twin must leave *every* property's check silent, not only the check it was written for
        if pid in m["pids"] or (m.get("expect") == "silent" and m["name"].startswith("twin:")):
            items.append((pid, m["name"], "edit", {"file": m["file"], "old": m["old"], "new": m["new"]}, m.get("expect", "fire"), base))
    det = mutants.SEED_DETECTION
    for d in sorted(glob.glob(os.path.join(VERIF, "seeded", "*"))):
        sid = os.path.basename(d)
        if pid in det.get(sid, ()):
            items.append((pid, f"seed:{sid}", "patch", os.path.join(d, "patch.diff"), "fire", base))
    # independent behaviour-preserving refactorings (/verif/twins): every check must stay silent on every one of them
    try:
        not_req = json.load(open(os.path.join(VERIF, "twins", "EXPECTED.json")))["not_required_silent"]
    except OSError:
        not_req = {}
    for d in sorted(glob.glob(os.path.join(VERIF, "twins", "*", "patch.diff"))):
        tid = os.path.basename(os.path.dirname(d))
        if tid in not_req and pid in not_req[tid].get("checks", []):
            continue
        items.append((pid, f"twinpatch:{tid}", "patch", d, "silent", base))
    out = {"variants": len(items), "fired": 0, "silent_ok": 0, "skipped": [], "failed": [], "details": []}
    if not items:
        return out
    with cf.ProcessPoolExecutor(max_workers=min(16, len(items))) as ex:
        results = list(ex.map(_run_variant, items))
    if seed:
        pass    # all variants are always run; VERIF_SEED has no choice to make here
    for name, expect, got, detail in results:
        out["details"].append({"variant": name, "expect": expect, "got": got, "detail": detail})
        if got == "skipped":
            out["skipped"].append(name)
        elif expect == "fire" and got == "fired":
            out["fired"] += 1
        elif expect == "silent" and got == "silent":
            out["silent_ok"] += 1
        else:
            out["failed"].append(f"{name}: expected {expect}, got {got} ({detail[:120]})")
    n_mut = sum(1 for i in items if i[2] == "edit")
    n_skip_mut = sum(1 for n in out["skipped"] if not n.startswith("seed:"))
    if n_mut and n_skip_mut * 2 > n_mut:
        out["failed"].append(f"{n_skip_mut} of {n_mut} mutants no longer apply: self-test would be vacuous")
    print(f"[{pid}] self-validation: {out['variants']} variants, must-fire fired {out['fired']}, twins silent {out['silent_ok']}, "
          f"skipped {len(out['skipped'])}, failed {len(out['failed'])}")
    for f in out["failed"]:
        print(f"  SELFTEST-FAIL {f}")
    return out


if __name__ == "__main__":
    sys.path.insert(0, HERE)
    pid = sys.argv[1].upper()
    r = run_for(pid, importlib.import_module(f"props.{pid.lower()}"))
    print(json.dumps(r, indent=1)[:6000])
