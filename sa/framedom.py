"""Prototype FRAME domain (tolerant): points, free vectors, rotations with frames."""
import ast
from absint import *

class Pt(V):
    def __init__(self, axes="G", origin="G"): self.axes, self.origin = axes, origin
    def __repr__(self): return f"Pt[{self.axes};o={self.origin}]"
class Vec(V):
    def __init__(self, axes="G"): self.axes = axes
    def __repr__(self): return f"Vec[{self.axes}]"
class Rot(V):
    def __init__(self, frm, to): self.frm, self.to = frm, to
    def __repr__(self): return f"Rot[{self.frm}->{self.to}]"
class Quat(V):
    def __init__(self, frm, to): self.frm, self.to = frm, to
    def __repr__(self): return f"Quat[{self.frm}->{self.to}]"
class Zero(V):
    def __repr__(self): return "Zero"

U = Unknown

ATTR_TYPES = {
    "_position": lambda r: Pt("G", "G"), "position": lambda r: Pt("G", "G"),
    "_orientation": lambda r: Rot(r, "G"), "orientation": lambda r: Rot(r, "G"),
    "pixel": lambda r: Vec(r), "_pixel": lambda r: Vec(r),
}
PRESERVE = {"reshape", "copy", "astype", "squeeze", "tile", "repeat", "pad", "concatenate", "array", "asarray",
            "flatten", "ravel", "swapaxes", "expand_dims", "stack", "vstack"}

def var_roots(fn):
    """{variable: text of the collection its values are drawn from} for the loop and comprehension variables of fn.  `for a, b in zip(A, B)`
    gives a -> A, b -> B; `enumerate(A)` is looked through; a list built as `[x for x, .. in zip(C, ..) if ..]` is a sub-list of C, so a
    variable drawn from it is drawn from C.  A variable bound from different collections in different places is left out (its spelling
    is then its identity, as for every other expression)."""
    draws = {}

    def bind(tg, it):
        if isinstance(it, ast.Call) and isinstance(it.func, ast.Name) and it.func.id == "enumerate" and it.args and isinstance(tg, ast.Tuple) and len(tg.elts) == 2:
            tg, it = tg.elts[1], it.args[0]
        if isinstance(it, ast.Call) and isinstance(it.func, ast.Name) and it.func.id == "zip" and isinstance(tg, ast.Tuple) and len(tg.elts) == len(it.args):
            for t, a in zip(tg.elts, it.args):
                bind(t, a)
            return
        if isinstance(tg, ast.Name):
            draws.setdefault(tg.id, set()).add(ast.unparse(it))
        else:
            for x in ast.walk(tg):
                if isinstance(x, ast.Name):
                    draws.setdefault(x.id, set()).add(None)
    sublists = {}
    for n in ast.walk(fn):
        if isinstance(n, ast.For):
            bind(n.target, n.iter)
        elif isinstance(n, ast.comprehension):
            bind(n.target, n.iter)
    local = {}
    for n in ast.walk(fn):
        if isinstance(n, ast.Assign) and len(n.targets) == 1 and isinstance(n.targets[0], ast.Name):
            local.setdefault(n.targets[0].id, []).append(n.value)
    for name, vals in local.items():
        if len(vals) == 1 and isinstance(vals[0], ast.ListComp) and isinstance(vals[0].elt, ast.Name) and len(vals[0].generators) == 1:
            g = vals[0].generators[0]
            d2 = {}
            saved = dict(draws)
            draws.clear()
            bind(g.target, g.iter)
            d2 = dict(draws)
            draws.clear()
            draws.update(saved)
            src = d2.get(vals[0].elt.id)
            if src and len(src) == 1 and None not in src:
                sublists[name] = next(iter(src))

    def root(c, depth=0):
        return root(sublists[c], depth + 1) if c in sublists and depth < 5 else c
    params = {a.arg for a in fn.args.posonlyargs + fn.args.args + fn.args.kwonlyargs}
    out = {}
    for v, srcs in draws.items():
        roots = {root(c) if c is not None else None for c in srcs}
        if len(roots) == 1 and None not in roots and v not in params:
            out[v] = next(iter(roots))
    return out


class FrameDomain:
    @property
    def sites(self): return self._sites
    @sites.setter
    def sites(self, v):
        self._sites = v

    def __init__(self):
        self.findings, self._sites, self.interp, self.sitelog = [], 0, None, []
    def report(self, kind, node, msg):
        fn = self.interp.callstack[-1] if self.interp.callstack else "?"
        self.findings.append(f"[{kind}] {fn}:{getattr(node,'lineno','?')}: {ast.unparse(node)[:80]} -- {msg}")
    def enter_function(self, f, bound, node):
        # object identity of loop / comprehension variables: the collection the variable is drawn from (see var_roots), not its spelling
        if not hasattr(self, "_roots"):
            self._roots = {}
        try:
            self._roots[len(self.interp.callstack)] = var_roots(f.node)
        except Exception:  # noqa
            self._roots[len(self.interp.callstack)] = {}

    def tag(self, expr):
        if isinstance(expr, ast.Name) and getattr(self, "interp", None) is not None:
            r = getattr(self, "_roots", {}).get(len(self.interp.callstack), {}).get(expr.id)
            if r:
                return "elem(" + r + ")"
        return ast.unparse(expr)
    def exit_function(self, f, out, node): return out
    def builtin(self, name, node):
        if name in ("True", "False", "None"): return Const({"True": True, "False": False, "None": None}[name])
        return ExtName("builtins." + name)
    def external_name(self, q, node): return ExtName(q)
    def lit(self, value, node): return Const(value)
    def make_seq(self, items, node):
        # a literal vector of zeros is the polymorphic zero
        if items and all(isinstance(i, (Const, Zero)) and (isinstance(i, Zero) or i.value == 0) for i in items):
            return Zero()
        if items and all(isinstance(i, Zero) for i in items): return Zero()
        return Seq(items, "py")
    def abstract_seq(self, elem, node): return Seq([elem], "pyabs")
    def join(self, a, b, node, silent=False):
        if type(a) is type(b) and repr(a) == repr(b): return a
        if isinstance(a, Zero): return b
        if isinstance(b, Zero): return a
        if isinstance(a, Const) and a.value is None: return b
        if isinstance(b, Const) and b.value is None: return a
        if isinstance(a, Seq) and isinstance(b, Seq) and len(a.items) == len(b.items):
            return Seq([self.join(x, y, node) for x, y in zip(a.items, b.items)], a.kind)
        if isinstance(a, (Pt, Vec, Rot, Quat)) and isinstance(b, (Pt, Vec, Rot, Quat)) and not silent:
            self.report("join", node, f"{a} vs {b}")
        return U("join")
    def truth(self, v):
        if isinstance(v, Const):
            try: return bool(v.value)
            except Exception: return None
        return None
    def unpack(self, v, n, node):
        if isinstance(v, Seq):
            if v.kind == "pyabs": return [v.items[0]] * n
            if len(v.items) == n: return list(v.items)
        return [U("unpack")] * n
    def iter_elems(self, v, node):
        if isinstance(v, Seq): return v.items[0] if v.kind == "pyabs" else list(v.items)
        if isinstance(v, Const) and isinstance(v.value, (tuple, list, str)): return [Const(x) for x in v.value]
        if isinstance(v, (Pt, Vec, Rot, Quat)): return v          # iterating a path yields elements
        return U("iter")
    # ---- operators
    def binop(self, op, a, b, node):
        if isinstance(a, Const) and isinstance(b, Const): return U("const")
        if isinstance(op, ast.Mult) and isinstance(a, Rot) and isinstance(b, Rot):
            self.sites += 1
            if b.to != a.frm:
                self.report("compose", node, f"{a} * {b}: SciPy applies the right factor first; its codomain {b.to} is not the left factor's domain {a.frm}")
            return Rot(b.frm, a.to)
        if isinstance(op, (ast.Add, ast.Sub)):
            if isinstance(a, Zero): return b
            if isinstance(b, Zero): return a
            if isinstance(a, (Pt, Vec)) and isinstance(b, (Pt, Vec)):
                self.sites += 1
                if a.axes != b.axes:
                    self.report("axes", node, f"{a} {'+' if isinstance(op, ast.Add) else '-'} {b}")
                    return U()
                if isinstance(a, Pt) and isinstance(b, Pt):
                    if isinstance(op, ast.Sub):
                        if a.origin != b.origin:
                            self.report("origin", node, f"{a} - {b}")
                        return Vec(a.axes)
                    self.report("pt+pt", node, f"{a} + {b}: adding two positions")
                    return U()
                if isinstance(a, Pt): return Pt(a.axes, a.origin)
                if isinstance(b, Pt): return Pt(b.axes, b.origin) if isinstance(op, ast.Add) else U()
                return Vec(a.axes)
        if isinstance(op, (ast.Mult, ast.Div)):
            # scaling by a number keeps the type (unknown/const other operand)
            if isinstance(a, (Pt, Vec)) and not isinstance(b, (Pt, Vec, Rot, Quat)): return a
            if isinstance(b, (Pt, Vec)) and not isinstance(a, (Pt, Vec, Rot, Quat)) and isinstance(op, ast.Mult): return b
        return U("binop")
    def unop(self, op, a, node):
        if isinstance(op, ast.USub) and isinstance(a, (Vec,)): return a
        if isinstance(op, ast.Not) and isinstance(a, Const): return Const(not a.value)
        return U("unop")
    def compare(self, ops, vals, node):
        a, b = vals[0], vals[1]
        if isinstance(ops[0], (ast.Is, ast.IsNot)) and isinstance(b, Const) and b.value is None:
            if isinstance(a, Const): return Const((a.value is None) == isinstance(ops[0], ast.Is))
            if isinstance(a, (Pt, Vec, Rot, Quat)): return Const(isinstance(ops[0], ast.IsNot))
        if isinstance(a, Const) and isinstance(b, Const) and isinstance(ops[0], ast.Eq): return Const(a.value == b.value)
        return U("cmp")
    def boolop(self, op, vals, node):
        if all(isinstance(v, Const) for v in vals):
            r = vals[0].value
            for v in vals[1:]: r = (r and v.value) if isinstance(op, ast.And) else (r or v.value)
            return Const(r)
        return U("bool")
    def attr(self, recv, name, node):
        if name in ATTR_TYPES and not isinstance(recv, (ModRef, ExtName)):
            return ATTR_TYPES[name](self.tag(node.value))
        if isinstance(recv, ModRef): return ExtName(f"{recv.name}.{name}")
        if isinstance(recv, ExtName): return ExtName(f"{recv.q}.{name}")
        if name == "T": return recv
        if name in ("ndim", "shape"): return U(name)
        return U("attr")
    def store_attr(self, recv, name, val, tnode, node):
        if name in ATTR_TYPES and isinstance(val, (Pt, Vec, Rot, Quat)):
            want = ATTR_TYPES[name](self.tag(tnode.value))
            self.sites += 1
            if repr(want) != repr(val):
                self.report("attr-store", node, f"stores {val} into .{name} (declared {want})")
    def subscript(self, recv, idx_node, idx, node):
        if isinstance(recv, (Pt, Vec, Rot, Quat, Zero)): return recv
        if isinstance(recv, Seq) and recv.kind == "py" and isinstance(idx[0], Const) and isinstance(idx[0].value, int):
            return recv.items[idx[0].value]
        return U("sub")
    def store_sub(self, recv, idx_node, idx, val, node, aug=None):
        if aug is not None:
            val = self.binop(aug, recv, val, node)
            # in-place: the *slice* changes type; track per variable (approximation: whole variable)
            return val if isinstance(val, (Pt, Vec)) else recv
        if isinstance(recv, (Pt, Vec, Quat)) and isinstance(val, (Pt, Vec, Quat)):
            self.sites += 1
            if repr(recv) != repr(val):
                self.report("store", node, f"stores {val} into {recv}")
        return val if isinstance(val, (Pt, Vec, Quat)) else recv
    def method(self, recv, name, args, kwargs, node):
        if isinstance(recv, Seq) and recv.kind == "py" and name in ("append", "extend") and args:
            # a local python list that collects per-group results: remember what it holds
            recv.items.extend(args[0].items if (name == "extend" and isinstance(args[0], Seq)) else [args[0]])
            return Const(None)
        if isinstance(recv, Rot):
            if name == "inv": return Rot(recv.to, recv.frm)
            if name == "as_quat": return Quat(recv.frm, recv.to)
            if name == "apply":
                inv = kwargs.get("inverse")
                r = Rot(recv.to, recv.frm) if (isinstance(inv, Const) and inv.value) else recv
                x = args[0]
                self.sites += 1
                if isinstance(x, Vec):
                    if x.axes != r.frm:
                        self.report("apply", node, f"{r}.apply({x}): operand is expressed in {x.axes}, rotation expects {r.frm}")
                    return Vec(r.to)
                if isinstance(x, Pt):
                    if x.axes != r.frm:
                        self.report("apply", node, f"{r}.apply({x})")
                    # rotating a position about the origin it is measured from
                    return Pt(r.to, x.origin) if r.frm == r.to else Pt(r.to, f"rot({x.origin})")
                if isinstance(x, Zero): return Zero()
                return U("apply?")
        if name in PRESERVE or name in ("reshape",): return recv
        if isinstance(recv, (Pt, Vec, Quat)) and name in ("copy", "astype", "reshape", "squeeze"): return recv
        return U("method " + name)
    def call_external(self, q, args, kwargs, node):
        base = q.split(".")[-1]
        if q == "FIELD_FUNC":
            o = kwargs.get("observers")
            self.sites += 1
            if not isinstance(o, Vec) or o.axes == "G":
                self.report("field-func-arg", node, f"observers handed to the field function have type {o}; expected a vector in the source frame")
                return U()
            return Vec(o.axes)
        if base == "from_quat" and args and isinstance(args[0], Quat): return Rot(args[0].frm, args[0].to)
        if base in PRESERVE and args:
            a = args[0]
            if isinstance(a, Seq):
                items = [i for i in a.items]
                t = items[0] if items else U()
                for i in items[1:]:
                    t = self.join(t, i, node)
                return t
            return a
        if base == "zip":
            lists = [self.iter_elems(a, node) for a in args]
            if all(isinstance(l, list) for l in lists): return Seq([Seq(list(t), "py") for t in zip(*lists)], "py")
            return Seq([Seq([l if not isinstance(l, list) else U() for l in lists], "py")], "pyabs")
        if base in ("isinstance",): return U("isinstance")
        if base == "len": return U("len")
        return U("ext " + q)
