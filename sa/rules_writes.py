"""State-write inventory: every place where a function may change the state of a *pre-existing* object.

Used by C08/T2 (functions reachable from the field entry points), C19/D2 (reachable from show), C09/P4 and
C11 (who writes pose / tree attributes).
"""
from __future__ import annotations

import ast

MUTATORS = {"append", "extend", "insert", "pop", "remove", "clear", "update", "sort", "reverse", "fill", "setdefault",
            "resize", "itemset", "put", "setflags", "popitem", "add", "discard", "__setitem__", "__delitem__",
            "partition", "byteswap", "setfield"}
FRESH_CALLS = {"deepcopy", "copy", "dict", "list", "set", "tuple", "sorted", "zip", "enumerate", "range"}
NP_FRESH = {"array", "zeros", "ones", "empty", "full", "tile", "repeat", "concatenate", "stack", "vstack", "hstack",
            "pad", "copy", "zeros_like", "ones_like", "empty_like", "linspace", "arange", "cross", "sum", "cumsum",
            "where", "sqrt", "abs", "einsum", "delete", "insert", "append", "unique", "split", "array_split", "c_",
            "meshgrid", "dot", "matmul", "outer", "mean", "max", "min", "prod", "sign", "arctan2", "sin", "cos",
            "swapaxes", "moveaxis", "full_like", "eye", "identity", "diff", "round", "clip", "logical_and",
            "logical_or", "logical_not", "isclose", "allclose", "nonzero", "argsort", "sort", "cumprod", "nan_to_num"}


def root_name(e):
    while isinstance(e, (ast.Attribute, ast.Subscript, ast.Call)):
        e = e.value if not isinstance(e, ast.Call) else e.func
    return e.id if isinstance(e, ast.Name) else None


def is_fresh_expr(v, fresh_names, classes):
    """syntactic: expression certainly denotes a newly created value"""
    if isinstance(v, (ast.Dict, ast.List, ast.Set, ast.ListComp, ast.DictComp, ast.SetComp, ast.Tuple, ast.Constant,
                      ast.BinOp, ast.UnaryOp, ast.Compare, ast.JoinedStr)):
        return True
    if isinstance(v, ast.Name):
        return v.id in fresh_names
    if isinstance(v, ast.IfExp):
        return is_fresh_expr(v.body, fresh_names, classes) and is_fresh_expr(v.orelse, fresh_names, classes)
    if isinstance(v, ast.Call):
        f = v.func
        if isinstance(f, ast.Name):
            if f.id in FRESH_CALLS or f.id in classes:
                return True
            if f.id == "type":
                return False
        if isinstance(f, ast.Attribute):
            if isinstance(f.value, ast.Name) and f.value.id in ("np", "numpy") and f.attr in NP_FRESH:
                return True
            if f.attr in ("copy", "deepcopy", "as_quat", "as_matrix", "as_rotvec", "as_euler", "astype", "tolist",
                          "from_quat", "from_rotvec", "from_matrix", "from_euler", "from_mrp", "inv", "apply",
                          "flatten", "items", "keys", "values", "split", "join", "format", "replace", "as_dict"):
                # .astype(copy=False) is handled by the ORIGIN analysis, not here
                return True
            # SomeClass(...) through a module attribute
            if f.attr in classes:
                return True
        # type(self)(...) constructs
        if isinstance(f, ast.Call) and isinstance(f.func, ast.Name) and f.func.id == "type":
            return True
    return False


def fresh_locals(fn, classes):
    """names all of whose bindings in fn are fresh expressions (parameters are never fresh)"""
    params = {a.arg for a in fn.args.posonlyargs + fn.args.args + fn.args.kwonlyargs}
    if fn.args.vararg:
        params.add(fn.args.vararg.arg)
    if fn.args.kwarg:
        params.add(fn.args.kwarg.arg)
    binds: dict[str, list] = {}
    for n in ast.walk(fn):
        if isinstance(n, ast.Assign):
            for t in n.targets:
                if isinstance(t, ast.Name):
                    binds.setdefault(t.id, []).append(n.value)
                elif isinstance(t, (ast.Tuple, ast.List)):
                    for e in ast.walk(t):
                        if isinstance(e, ast.Name):
                            binds.setdefault(e.id, []).append(None)
        elif isinstance(n, (ast.For, ast.comprehension)):
            # `for k, v in C.items()` / `for v in C.values()` / `for v in C`: v is an element of C (see fresh_elem)
            it, elem_t = n.iter, None
            if isinstance(it, ast.Call) and isinstance(it.func, ast.Attribute) and isinstance(it.func.value, ast.Name) and not it.args:
                if it.func.attr == "items" and isinstance(n.target, ast.Tuple) and len(n.target.elts) == 2:
                    elem_t, it = n.target.elts[1], it.func.value
                elif it.func.attr == "values":
                    elem_t, it = n.target, it.func.value
            elif isinstance(it, ast.Name):
                elem_t = n.target
            for e in ast.walk(n.target):
                if isinstance(e, ast.Name):
                    binds.setdefault(e.id, []).append(ast.Subscript(value=it, slice=ast.Constant(value=0), ctx=ast.Load())
                                                      if e is elem_t and isinstance(it, ast.Name) else None)
        elif isinstance(n, ast.With):
            for it in n.items:
                if it.optional_vars is not None:
                    for e in ast.walk(it.optional_vars):
                        if isinstance(e, ast.Name):
                            binds.setdefault(e.id, []).append(None)
        elif isinstance(n, ast.NamedExpr):
            binds.setdefault(n.target.id, []).append(n.value)
        elif isinstance(n, ast.AugAssign) and isinstance(n.target, ast.Name):
            pass
    # containers created empty in fn and everything put into them: an element read back from such a container is as new as what went in
    held: dict[str, list] = {}
    for n in ast.walk(fn):
        if isinstance(n, ast.Assign):
            for t in n.targets:
                if isinstance(t, ast.Subscript) and isinstance(t.value, ast.Name):
                    held.setdefault(t.value.id, []).append(n.value)
        elif isinstance(n, ast.Call) and isinstance(n.func, ast.Attribute) and isinstance(n.func.value, ast.Name) \
                and n.func.attr in ("append", "add", "insert", "setdefault", "extend", "update") and n.args:
            held.setdefault(n.func.value.id, []).append(n.args[-1] if n.func.attr not in ("extend", "update") else None)

    def empty_container(v):
        return (isinstance(v, (ast.Dict, ast.List, ast.Set)) and not (v.keys if isinstance(v, ast.Dict) else v.elts)) or \
               (isinstance(v, ast.Call) and isinstance(v.func, ast.Name) and v.func.id in ("dict", "list", "set") and not v.args and not v.keywords)

    def fresh_elem(v, fresh):
        """C[k] / C.setdefault(k, new) / C.get(k) with C a container created empty here that only ever received new values"""
        c = None
        if isinstance(v, ast.Subscript) and isinstance(v.value, ast.Name):
            c = v.value.id
        elif isinstance(v, ast.Call) and isinstance(v.func, ast.Attribute) and isinstance(v.func.value, ast.Name) and v.func.attr in ("setdefault", "get", "pop"):
            c = v.func.value.id
        if c is None or c in params or not binds.get(c) or not all(b is not None and empty_container(b) for b in binds[c]):
            return False
        return all(h is not None and is_fresh_expr(h, fresh, classes) for h in held.get(c, []))

    fresh = set()
    changed = True
    while changed:
        changed = False
        for k, vs in binds.items():
            if k in fresh or k in params:
                continue
            if all(v is not None and (is_fresh_expr(v, fresh, classes) or fresh_elem(v, fresh)) for v in vs):
                fresh.add(k)
                changed = True
    return fresh


class Write:
    def __init__(self, kind, recv, attr, stmt, node):
        self.kind, self.recv, self.attr, self.stmt, self.node = kind, recv, attr, stmt, node

    def __repr__(self):
        return f"{self.kind}:{self.recv}.{self.attr}"


def collect_writes(fn, classes=()):
    """state writes in fn on receivers that are not provably fresh locals.

    kinds: 'store'  X.a = v / X.a op= v / del X.a
           'elem'   X.a[i] = v / X.a[i] op= v       (in place on a value held by an object)
           'mut'    X.a.append(...) etc.
           'setattr' setattr(X, ..) / delattr / X.__dict__[..] = ..
    Plain local arrays (`B[i] = ..` on a Name) are not object state and are the business of the ORIGIN analysis.
    """
    fresh = fresh_locals(fn, classes)
    out = []

    def recv_ok(e):
        r = root_name(e)
        return r is not None and r not in fresh

    for s in ast.walk(fn):
        targets = []
        if isinstance(s, ast.Assign):
            targets = s.targets
        elif isinstance(s, (ast.AugAssign, ast.AnnAssign)):
            targets = [s.target]
        elif isinstance(s, ast.Delete):
            targets = s.targets
        flat = []
        for t in targets:
            if isinstance(t, (ast.Tuple, ast.List)):
                flat += [e for e in t.elts]
            else:
                flat.append(t)
        for t in flat:
            if isinstance(t, ast.Starred):
                t = t.value
            if isinstance(t, ast.Attribute) and recv_ok(t.value):
                out.append(Write("store", ast.unparse(t.value), t.attr, s, t))
            elif isinstance(t, ast.Subscript):
                b = t.value
                while isinstance(b, ast.Subscript):
                    b = b.value
                if isinstance(b, ast.Attribute) and recv_ok(b.value):
                    if b.attr == "__dict__":
                        out.append(Write("setattr", ast.unparse(b.value), "__dict__", s, t))
                    else:
                        out.append(Write("elem", ast.unparse(b.value), b.attr, s, t))
        if isinstance(s, ast.Call):
            f = s.func
            if isinstance(f, ast.Attribute) and f.attr in MUTATORS:
                b = f.value
                while isinstance(b, ast.Subscript):
                    b = b.value
                if isinstance(b, ast.Attribute) and recv_ok(b.value):
                    out.append(Write("mut", ast.unparse(b.value), f"{b.attr}.{f.attr}", s, s))
            if isinstance(f, ast.Name) and f.id in ("setattr", "delattr") and s.args:
                if recv_ok(s.args[0]) or isinstance(s.args[0], ast.Name) and s.args[0].id not in fresh:
                    a = s.args[1].value if len(s.args) > 1 and isinstance(s.args[1], ast.Constant) else "<dynamic>"
                    out.append(Write("setattr", ast.unparse(s.args[0]), str(a), s, s))
            for k in s.keywords:
                if k.arg == "out" and isinstance(k.value, ast.Attribute) and recv_ok(k.value.value):
                    out.append(Write("elem", ast.unparse(k.value.value), k.value.attr, s, s))
    return out
