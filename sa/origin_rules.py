"""E3-ORIGIN rules: alias / escape / mod-ref questions answered with the ORIGIN lattice (origdom.py) of the E2 interpreter.

Abstract value = set of origins {fresh, const, P:<entry parameter>, A:<object attribute expression>}.  Copy-makers and
view-makers follow the NumPy/stdlib table in origdom.py (part of the trusted base, listed in evidence).
  c17_s2   the value each array-valued setter stores is fresh (S2) and every validator returns fresh arrays (V1)
  c08_t3   no caller-owned array reaches an in-place sink on the field path (T3)
  pose_mutations (C09/C10)  in-place writes on pose arrays only on the object being updated (M1)
  display_mutations (C19)   no in-place write on arrays held by the displayed object (M2)
  c20_g4   style dict plumbing neither mutates nor captures caller-owned dicts (G4)
"""
from __future__ import annotations

import ast

from absint import ARepo, Interp, FuncRef, Const, Seq, Unknown
from origdom import OriginDomain, O, FRESH, org_of, owned
from common import AnalysisError, Finding, norm
import common

OBJ_PKG = "magpylib._src.obj_classes"


def run_node(modname, node, params, name=None, summaries=None, root=None, scalar_attrs=None):
    arepo = ARepo(root or common.REPO)
    dom = OriginDomain()
    dom.scalar_attrs = set(scalar_attrs or ())
    dom.repo_summaries = summaries or {}
    it = Interp(arepo, dom)
    it.tolerant = True
    mod = arepo.module(modname)
    if mod is None:
        raise AnalysisError(f"anchor module vanished: {modname}")
    f = FuncRef(mod, node, name=name or node.name)
    out = it.call_func(f, [], params, node)
    return out, dom, it


def find_ast(modname, qual, setter=False, root=None):
    arepo = ARepo(root or common.REPO)
    mod = arepo.module(modname)
    if mod is None:
        raise AnalysisError(f"anchor module vanished: {modname}")
    if "." in qual:
        cn, mn = qual.split(".")
        for c in mod.tree.body:
            if isinstance(c, ast.ClassDef) and c.name == cn:
                for m in c.body:
                    if isinstance(m, ast.FunctionDef) and m.name == mn and setter == any(
                            isinstance(d, ast.Attribute) and d.attr == "setter" for d in m.decorator_list):
                        return m
        raise AnalysisError(f"anchor vanished: {modname}.{qual}")
    if qual not in mod.funcs:
        raise AnalysisError(f"anchor vanished: {modname}.{qual}")
    return mod.funcs[qual]


# ------------------------------------------------------------------------------------------------ S2 / V1
S2_BY_REFERENCE = {
    "BaseSource.field_func": "the user's callable is kept by design",
    "Sensor.handedness": "an immutable string checked against two literals",
    "BaseGeo.parent": "object references are the point of the tree",
    "BaseCollection.children": "object references", "BaseCollection.sources": "object references",
    "BaseCollection.sensors": "object references", "BaseCollection.collections": "object references",
    "BaseGeo.style": "validated by MagicProperties.update, which copies its argument",
}


def _returns_only_admitted_literals(repo, mod, fn, p):
    """every `return <p>` of fn is reached only under a membership test of p in a collection of literal strings / numbers"""
    import rules_domain
    parents = {}
    for x in ast.walk(fn):
        for ch in ast.iter_child_nodes(x):
            parents[id(ch)] = x

    def admitted(test, positive):
        t = test
        while isinstance(t, ast.UnaryOp) and isinstance(t.op, ast.Not):
            t, positive = t.operand, not positive
        if isinstance(t, ast.Compare) and len(t.ops) == 1 and isinstance(t.left, ast.Name) and t.left.id == p and isinstance(t.ops[0], (ast.In, ast.NotIn)):
            members = rules_domain.literal_members(t.comparators[0], repo, mod)
            return members is not None and all(isinstance(v, (str, int, float, bool, type(None))) for v in members) and (isinstance(t.ops[0], ast.In) == positive)
        return False
    rets = [r for r in ast.walk(fn) if isinstance(r, ast.Return) and isinstance(r.value, ast.Name) and r.value.id == p]
    if not rets or any(isinstance(x, ast.Name) and x.id == p and isinstance(x.ctx, ast.Store) for x in ast.walk(fn)):
        return False
    for r in rets:
        ok, ch, q = False, r, parents.get(id(r))
        while q is not None and not ok:
            if isinstance(q, ast.If) and ch is not q.test:
                ok = admitted(q.test, any(ch is b for b in q.body))
            ch, q = q, parents.get(id(q))
        if not ok:
            # `if p not in S: raise` before the return, in the same block
            blk = next((getattr(o, f) for o in ast.walk(fn) for f in ("body", "orelse") if isinstance(getattr(o, f, None), list) and r in getattr(o, f)), [])
            ok = any(isinstance(st, ast.If) and admitted(st.test, False) and st.body and isinstance(st.body[-1], ast.Raise) for st in blk[:blk.index(r)] if r in blk)
        if not ok:
            return False
    return True


def validators_fresh(repo, res, rule="V1", only=None):
    ic = repo.mod("magpylib._src.input_checks")
    nv = 0
    for fname, fn in ic.funcs.items():
        if not (fname.startswith("check_format_input") or fname in ("make_float_array",)):
            continue
        if fname in ("check_format_input_backend", "check_format_input_observers", "check_format_input_obj"):
            continue
        if only and fname not in only:
            continue   # validators of strings / objects: references are the point, nothing array-valued is returned
        params = [a.arg for a in fn.args.posonlyargs + fn.args.args + fn.args.kwonlyargs]
        if not params:
            continue
        bind = {params[0]: O({"P:" + params[0]})}
        for p in params[1:]:
            bind[p] = Unknown(p)
        # defaults for the rest are taken by the interpreter when omitted
        a = fn.args
        ndef = len(a.defaults)
        required = [x.arg for x in (a.posonlyargs + a.args)][: len(a.posonlyargs + a.args) - ndef]
        bind = {k: v for k, v in bind.items() if k in required or k == params[0]}
        try:
            out, dom, it = run_node(ic.name, fn, bind, name=fname)
        except Exception as e:  # noqa
            res.notes.append(f"V1 skipped {fname}: {type(e).__name__}: {e}")
            continue
        nv += 1
        objs_by_ref = fname in ("check_format_input_obj", "check_format_input_observers", "check_format_input_orientation_rot")
        leak = {o for o in org_of(out) if o.startswith("P:")} if out is not None else set()
        mut = [x for x in dom.mutations if x[0].startswith("P:")]
        # orientation validators hand back the scipy Rotation they were given (immutable value object) next to fresh quaternions
        if fname == "check_format_input_orientation":
            leak = set()
        if leak and _returns_only_admitted_literals(repo, ic, fn, params[0]):
            leak = set()     # the input is returned only where it was found among literal strings / numbers: an immutable value, nothing to copy
        ok = (not leak or objs_by_ref) and not mut
        res.ob(f"{rule}:{fname}", ok, {"rule": rule, "validator": fname, "returns": repr(out), "aliases_input": sorted(leak), "mutates_input": [x[4] for x in mut]})
        if not ok:
            if leak and not objs_by_ref:
                res.add(Finding(rule, ic.rel, fname, f"returns a value that may alias its input ({', '.join(sorted(leak))})",
                                "validators must return independent float copies: callers store the result and update it in place"))
            for o, where, line, how, txt in mut:
                res.add(Finding(rule, ic.rel, fname, txt, f"validator modifies the caller's value in place ({how})", line))
    res.require(nv >= (len(only) if only else 8), f"{rule}: only {nv} validators analysed")
    res.analysed[f"{rule}_validators"] = nv


def c17_s2(repo, res):
    n = 0
    for c in repo.cls_by_key.values():
        if not c.mod.name.startswith(OBJ_PKG):
            continue
        for name, m in c.setters.items():
            params = [a.arg for a in m.args.args]
            if len(params) < 2:
                continue
            qn = f"{c.name}.{name}"
            out, dom, it = run_node(c.mod.name, m, {params[0]: O({"A:self"}), params[1]: O({"P:" + params[1]})}, name=qn)
            n += 1
            res.evaluations += 1
            esc = [e for e in dom.escapes]
            mut = [x for x in dom.mutations if x[0].startswith("P:")]
            # S19: a second attribute stored as a *view* of another attribute of the same object (`self._flat = self._pixel.reshape(..)`):
            #      the two share one buffer only until the object is deep-copied (numpy copies a view into an independent array), after
            #      which in-place edits of one are no longer seen through the other
            for base, aname, orgs, node in getattr(dom, "attr_stores", []):
                al = sorted(o for o in orgs if o.startswith("A:self._") and o != f"A:self.{aname}" and base == "self")
                if al:
                    res.ob(f"S19:{qn}:{aname}", False)
                    res.add(Finding("S19", c.mod.rel, f"{qn} (setter)", node, f"`self.{aname}` is stored as a view of {[a[2:] for a in al]}: two attributes share one buffer; after "
                                    "copy() they are independent arrays, so an in-place edit of the public one is not seen by code reading the other", getattr(node, "lineno", None)))
            triaged = qn in S2_BY_REFERENCE
            ok = (not esc and not mut) or triaged
            res.ob(f"S2:{qn}", ok, {"rule": "S2", "setter": qn, "param_escapes_uncopied": [e[1] for e in esc], "param_mutated": [x[4] for x in mut],
                                    "triaged": S2_BY_REFERENCE.get(qn)})
            if not ok:
                for ps, where, fn, line in esc:
                    res.add(Finding("S2", c.mod.rel, f"{qn} (setter)", f"{where} <- {','.join(ps)}",
                                    "the caller's value is stored without an independent copy (later changes to it leak into the object)", line))
                for o, where, line, how, txt in mut:
                    res.add(Finding("S2", c.mod.rel, f"{qn} (setter)", txt, f"the caller's value ({o}) is modified in place ({how})", line))
    res.require(n >= 20, f"S2: only {n} setters analysed")
    res.analysed["S2_setters"] = n
    validators_fresh(repo, res)
    res.assumptions.append("NumPy copy/view table of origdom.py (np.array copies unless copy=False; asarray/reshape/squeeze/basic slices are views; "
                           "astype copies unless copy=False; arithmetic and fancy/boolean indexing copy)")
    return {}


# ------------------------------------------------------------------------------------------------ T3
def field_function_mutations(repo):
    """{(class, function): {param: [sink descriptions]}} for every registered _field_func"""
    import dim_rules
    out = {}
    for name, kind, ldeg, modname, fname, bind in dim_rules.field_entries(repo):
        cname = name.split("#")[0]
        arepo = ARepo(common.REPO)
        mod = arepo.module(modname)
        ps = [p for p in bind if p != "in_out"]
        muts = {}
        for field in "BHJM":
            params = dict(field=Const(field), **{p: O({"P:" + p}) for p in ps})
            if "in_out" in bind:
                params["in_out"] = Const("auto")
            o, dom, it = run_node(modname, mod.funcs[fname], params)
            for org, where, line, how, txt in dom.mutations:
                if org.startswith("P:"):
                    muts.setdefault(org[2:], set()).add(f"{where.split('>')[-1]}: {txt} ({how})")
        out[(cname, fname, name)] = muts
    return out


def attr_shape_fixed(repo, cname, attr):
    """does the validator of <class>.<attr> fix the full shape (so that tile_group_property copies via np.array)?"""
    c, fn = repo.find_method(cname, attr, "setter")
    if fn is None:
        return False
    def fixed_by(call, bound):
        kws = {k.arg: k.value for k in call.keywords}
        for k_ in ("dims", "length"):
            if isinstance(kws.get(k_), ast.Name) and kws[k_].id in bound:
                kws[k_] = bound[kws[k_].id]        # a parameter of a shared validator, bound to a literal at the setter's call
        try:
            dims = ast.literal_eval(kws["dims"]) if "dims" in kws and isinstance(kws["dims"], (ast.Tuple, ast.Constant)) else None
        except ValueError:
            dims = None
        return dims == (1,) or ("length" in kws and isinstance(kws["length"], ast.Constant) and kws["length"].value is not None)
    for call in ast.walk(fn):
        if isinstance(call, ast.Call) and getattr(call.func, "id", "") == "check_format_input_vector":
            if fixed_by(call, {}):
                return True
        elif isinstance(call, ast.Call) and isinstance(call.func, ast.Name):
            # one level of delegation: a validator of the package that forwards to check_format_input_vector
            r = repo.resolve_name(c.mod, call.func.id)
            if r and r[0] == "func":
                ps = [a.arg for a in r[2].args.args]
                bound = {p_: a_ for p_, a_ in zip(ps, call.args) if isinstance(a_, ast.Constant)}
                bound.update({k.arg: k.value for k in call.keywords if k.arg and isinstance(k.value, ast.Constant)})
                for inner in ast.walk(r[2]):
                    if isinstance(inner, ast.Call) and getattr(inner.func, "id", "") == "check_format_input_vector" and fixed_by(inner, bound):
                        return True
    return False


def c08_t3(repo, res):
    W = "magpylib._src.fields.field_wrap_BH"
    # (1)+(2) field functions that mutate an argument, per class
    muts = field_function_mutations(repo)
    res.require(len(muts) >= 10, "T3: field function registry shrank")
    for (cname, fname, entry), m in sorted(muts.items()):
        for p, sinks in m.items():
            ok = attr_shape_fixed(repo, cname, p)
            res.ob(f"T3:{entry}:{fname} mutates {p}", ok, {"rule": "T3", "class": cname, "function": fname, "mutated_param": p, "sinks": sorted(sinks)[:3],
                                                            "attribute_shape_fixed_by_validator": ok})
            if not ok:
                res.add(Finding("T3", "magpylib/_src/fields", fname, f"mutates its argument `{p}`: {sorted(sinks)[0]}",
                                f"{cname}.{p} has a free leading length, so tile_group_property may hand the object's own array (object-dtype "
                                "wrapper of references) to the field function"))
        if not m:
            res.ob(f"T3:{entry}:{fname} mutates nothing", True, {"rule": "T3", "class": cname, "function": fname, "mutated_params": []}, nontrivial=False)
    # (3) functional interface: everything reaching level 1 is fresh
    arepo = ARepo(common.REPO)
    mod = arepo.module(W)
    if mod is None or "getBH_dict_level2" not in mod.funcs:
        raise AnalysisError("anchor vanished: getBH_dict_level2")
    import dim_rules
    from repo import lit as _lit
    n_cls = 0
    for c in sorted(repo.cls_by_key.values(), key=lambda c: c.name):
        if "_field_func" not in c.attrs or "_field_func_kwargs_ndim" not in c.attrs:
            continue
        table = _lit(c.attrs["_field_func_kwargs_ndim"])
        if not isinstance(table, dict) or not table:
            continue
        n_cls += 1
        seen_l1 = {}

        def spy(d, args, kwargs, node, seen_l1=seen_l1):
            for k, v in kwargs.items():
                if not isinstance(v, Const):
                    seen_l1.setdefault(k, set()).update(org_of(v))
            return FRESH
        params = dict(source_type=Const(c.name), observers=O({"P:observers"}), field=Const("B"), position=O({"P:position"}))
        for k in table:
            params[k] = O({"P:" + k})
        o_, dom, it = run_node(W, mod.funcs["getBH_dict_level2"], params, summaries={"getBH_level1": spy})
        res.evaluations += 1
        if not seen_l1:
            raise AnalysisError(f"T3: getBH_level1 call in getBH_dict_level2 not reached for {c.name}; skipped={getattr(it, 'skipped', [])[:3]}")
        leaks = {k: sorted(x for x in orgs if x.startswith("P:")) for k, orgs in seen_l1.items()}
        leaks = {k: v for k, v in leaks.items() if v}
        mutp = [x for x in dom.mutations if x[0].startswith("P:") or x[0].startswith("A:")]     # caller arrays and class/object state (rank tables)
        res.ob(f"T3:getBH_dict_level2[{c.name}]", not leaks and not mutp,
               {"rule": "T3", "source_type": c.name, "level1_arguments": {k: sorted(v) for k, v in seen_l1.items()}, "in_place_sinks_on_caller_values": [x[4] for x in mutp]})
        for k, v in leaks.items():
            res.add(Finding("T3", "magpylib/_src/fields/field_wrap_BH.py", "getBH_dict_level2", f"{k} reaches getBH_level1 with origins {v}",
                            "a caller-owned array is handed to the computation without a copy"))
        for org, where, line, how, txt in mutp:
            what = f"caller-owned {org}" if org.startswith("P:") else f"shared state {org[2:]} (a class-level table / object attribute)"
            res.add(Finding("T3", "magpylib/_src/fields/field_wrap_BH.py", where.split(">")[-1], txt, f"{what} modified in place ({how}): a later computation sees the change", line))
    res.require(n_cls >= 10, f"T3: only {n_cls} classes with a functional interface")
    # (4) level 1 / src dict / tiling: no sink on object-held arrays
    star_seen = False
    for fn, params in (("getBH_level1", dict(field_func=Unknown("ff"), field=Const("B"), position=O({"P:position"}), orientation=O({"P:orientation"}),
                                             observers=O({"P:observers"}))),
                       ("get_src_dict", dict(group=O({"P:group"}), n_pix=Unknown(), n_pp=Unknown(), poso=O({"P:poso"}))),
                       ("tile_group_property", dict(group=O({"P:group"}), n_pp=Unknown(), prop_name=Unknown()))):
        if fn not in mod.funcs:
            if fn == "tile_group_property" and star_seen:
                continue        # the tiling helper was merged into get_src_dict: its obligation was judged on the dict entry there
            raise AnalysisError(f"anchor vanished: {fn}")
        o, dom, it = run_node(W, mod.funcs[fn], params)
        if fn == "get_src_dict" and isinstance(o, Const) and isinstance(o.value, dict) and "*" in o.value:
            # the per-source properties (entries under computed keys) are new arrays, whichever function builds them
            star_seen = True
            orgs_ = sorted(x for x in org_of(o.value["*"]) if x != "fresh" and not x.startswith("const"))
            res.ob("T3:get_src_dict hands new arrays to the field function for every per-source property", not orgs_, {"rule": "T3", "function": fn, "entry_origins": sorted(org_of(o.value["*"]))})
            if orgs_:
                res.add(Finding("T3", "magpylib/_src/fields/field_wrap_BH.py", fn, "per-source property entry of the level-1 argument dict",
                                f"the value handed to the field function may be a view of an object's own attribute (origins {orgs_}): an in-place step of the field function then changes the object"))
        res.evaluations += 1
        mutp = [x for x in dom.mutations]
        res.ob(f"T3:{fn}:no in-place sink on inputs/object arrays", not mutp, {"rule": "T3", "function": fn, "sinks": [x[4] for x in mutp]})
        for org, where, line, how, txt in mutp:
            res.add(Finding("T3", "magpylib/_src/fields/field_wrap_BH.py", fn, txt, f"{org} modified in place ({how})", line))
        if fn == "tile_group_property":
            # the arrays handed to the field functions are new arrays on every path (np.array / np.repeat of the collected
            # attributes), never a view of an object's own attribute: field functions allocate their result from them
            orgs = sorted(x for x in org_of(o) if x != "fresh" and not x.startswith("const"))
            res.ob("T3:tile_group_property returns a new array on every path", not orgs, {"rule": "T3", "function": fn, "return_origins": sorted(org_of(o))})
            if orgs:
                rets = [r for r in ast.walk(mod.funcs[fn]) if isinstance(r, ast.Return) and r.value is not None]
                bad = rets[0]
                for r in rets:
                    if any(isinstance(c, ast.Call) and getattr(c.func, "attr", "") in ("asarray", "asanyarray") for c in ast.walk(r.value)) or \
                            not any(isinstance(c, ast.Call) for c in ast.walk(r.value)):
                        bad = r
                res.add(Finding("T3", "magpylib/_src/fields/field_wrap_BH.py", fn, bad, f"the value handed to the field function may be a view of an object's own "
                                f"attribute (origins {orgs}): an in-place step of the field function then changes the object", bad.lineno))
    return {}


def c08_t4(repo, res, rule="T4"):
    """the method forms of the field computation (`obj.getB(...)`, the collection's input selection helper) modify neither the receiver
    nor anything reached through its getters: a getter may hand out the internal list itself (`col.sources` is `col._sources`), so an
    in-place `+=` / `.append` / `.sort` on what it returned edits the object"""
    import re as _re
    n = 0
    for m, q, fn, cl in repo.all_functions():
        if cl is None or not (_re.fullmatch(r"get[BHJM]", fn.name) or fn.name == "_validate_getBH_inputs"):
            continue
        a = fn.args
        params = {"self": O({"A:self"})}
        pos = [x.arg for x in a.posonlyargs + a.args][1:]
        ndef = len(a.defaults)
        for p in pos[: len(pos) - ndef] if ndef else pos:
            params[p] = O({"P:" + p})
        node = find_ast(m.name, f"{cl.name}.{fn.name}", False)
        out, dom, it = run_node(m.name, node, params, name=q, summaries={"getBH_level2": lambda d, args, kwargs, nd: FRESH})
        n += 1
        res.evaluations += 1
        mut = [x for x in dom.mutations if x[0].startswith("A:self") or x[0].startswith("P:")]
        res.ob(f"{rule}:{q}", not mut, {"rule": rule, "method": q, "in_place_sinks": [x[4] for x in mut]})
        seen = set()
        for org, where, line, how, txt in mut:
            if (line, txt) in seen:
                continue
            seen.add((line, txt))
            res.add(Finding(rule, m.rel, where.split(">")[-1], txt, f"{org} is modified in place ({how}) by a field-computation method: the object's own state "
                            "(e.g. the list handed out by a getter) changes with every call", line))
    res.require(n >= 8, f"{rule}: only {n} method forms of the field computation found")
    res.analysed[f"{rule}_methods"] = n


# ------------------------------------------------------------------------------------------------ M1 (poses)
M1_ALLOWED = {
    ("apply_move", "A:target_object._position"): "the object's own position path is updated in place, then stored",
    ("apply_rotation", "A:target_object._position"): "the object's own position path is updated in place, then stored",
}


def pose_mutations(repo, res, rule="M1"):
    T = "magpylib._src.obj_classes.class_BaseTransform"
    G = "magpylib._src.obj_classes.class_BaseGeo"
    items = [(T, "apply_move", False, dict(target_object=O({"A:target_object"}), displacement=O({"P:displacement"}), start=Unknown())),
             (T, "apply_rotation", False, dict(target_object=O({"A:target_object"}), rotation=O({"P:rotation"}), anchor=O({"P:anchor"}), start=Unknown(),
                                               parent_path=O({"P:parent_path"}))),
             (G, "BaseGeo.position", True, dict(self=O({"A:self"}), inp=O({"P:inp"}))),
             (G, "BaseGeo.orientation", True, dict(self=O({"A:self"}), inp=O({"P:inp"})))]
    for modname, qual, setter, params in items:
        node = find_ast(modname, qual, setter)
        out, dom, it = run_node(modname, node, params, name=qual)
        res.evaluations += 1
        bad = []
        for org, where, line, how, txt in dom.mutations:
            fn = where.split(">")[-1]
            if (fn, org) in M1_ALLOWED or (qual, org) in M1_ALLOWED:
                continue
            if qual in ("apply_move", "apply_rotation") and org == "A:target_object":
                continue   # the object being updated itself (its pose paths are reached through it)
            if how.startswith("attribute store"):
                continue   # re-binding a pose attribute is governed by P4 (who-may-write / paired writes), not an in-place array write
            bad.append((org, fn, line, how, txt))
        res.ob(f"{rule}:{qual}", not bad, {"rule": rule, "function": qual, "in_place_sinks_total": len(dom.mutations), "unexpected": [b[4] for b in bad]})
        for org, fn, line, how, txt in bad:
            res.add(Finding(rule, modname.replace(".", "/") + ".py", qual + (" (setter)" if setter else ""), txt,
                            f"in-place write ({how}) on a value that may alias {org}: only the pose path of the object being updated may be "
                            "modified in place", line))


# ------------------------------------------------------------------------------------------------ M2 (display)
def display_mutations(repo, res, rule="D2c"):
    n = 0
    # attributes whose setter validates a *scalar* (check_format_input_scalar): numbers are immutable, `x = obj.diameter; x *= 1.5` rebinds
    scalar_attrs = set()
    for c in repo.cls_by_key.values():
        for name, fn_ in c.setters.items():
            if any(isinstance(x, ast.Call) and getattr(x.func, "id", "") == "check_format_input_scalar" for x in ast.walk(fn_)):
                scalar_attrs |= {name, "_" + name}
    OBJ_PARAMS = ("obj", "input_obj", "sensor", "source", "src", "magnet", "subobj", "parent_obj")
    for modname in sorted(k for k in repo.mods if k.startswith("magpylib._src.display.")):
        m = repo.mods.get(modname)
        core = modname.endswith(("traces_base", "traces_core"))
        for fname, fn in m.funcs.items():
            params = [a.arg for a in fn.args.posonlyargs + fn.args.args + fn.args.kwonlyargs]
            # the model builders, and every display function that is handed a magpylib object
            if not ((core and fname.startswith("make_")) or any(p in OBJ_PARAMS for p in params)):
                continue
            bind = {}
            for p in params:
                bind[p] = O({"A:obj"}) if p in OBJ_PARAMS else O({"P:" + p})
            a = fn.args
            ndef = len(a.defaults)
            pos = [x.arg for x in a.posonlyargs + a.args]
            required = set(pos[: len(pos) - ndef]) | {x.arg for x, d in zip(a.kwonlyargs, a.kw_defaults) if d is None}
            bind = {k: v for k, v in bind.items() if k in required or k in OBJ_PARAMS}
            try:
                out, dom, it = run_node(modname, fn, bind, name=fname, scalar_attrs=scalar_attrs)
            except Exception as e:  # noqa
                res.notes.append(f"{rule} skipped {fname}: {type(e).__name__}: {e}")
                continue
            n += 1
            res.evaluations += 1
            bad = [x for x in dom.mutations if x[0].startswith("A:obj") or x[0].startswith("P:")]
            # writes to the (temporary) style are judged by D2: a sink one of whose origins is (part of) a style is a style write
            style_sinks = {(x[2], x[4]) for x in dom.mutations if ".style" in x[0] or "style" in x[0].split(":", 1)[1].split(".")[0]}
            bad = [x for x in bad if (x[2], x[4]) not in style_sinks and ".style" not in x[0] and "style" not in x[4].split("=")[0]]
            # re-binding an attribute (obj._faces = ...) is a state write judged by D1/D2; this rule is about in-place array writes
            bad = [x for x in bad if not x[3].startswith("attribute store")]
            res.ob(f"{rule}:{fname}", not bad, {"rule": rule, "function": fname, "in_place_sinks_on_object_or_argument_arrays": [b[4] for b in bad]},
                   nontrivial=bool(dom.mutations) or bool(bad))
            for org, where, line, how, txt in bad:
                res.add(Finding(rule, m.rel, where.split(">")[0] if ">" in where else fname, txt,
                                f"in-place write ({how}) on a value that may alias {org}: show() must not alter arrays held by the object or passed in", line))
    res.require(n >= 15, f"{rule}: only {n} model builders analysed")
    res.analysed[f"{rule}_builders"] = n


# ------------------------------------------------------------------------------------------------ G4 (style dicts)
def c20_g4(repo, res, rule="G4"):
    """style dictionaries and dict-valued style keywords are *dict-typed* origins (PD:x): a shallow copy of them is a new container that
    still holds the caller's nested dicts (N:x).  Neither PD nor N values may be modified, stored in an object or returned."""
    G = "magpylib._src.obj_classes.class_BaseGeo"
    C = "magpylib._src.obj_classes.class_Collection"
    S = "magpylib._src.style"
    D = "magpylib._src.defaults.defaults_utility"
    PD = lambda n: O({"PD:" + n})      # noqa
    items = [
        (G, "BaseGeo._process_style_kwargs", False, dict(style=PD("style"), style_path=PD("style_path")), True),
        (G, "BaseGeo.__init__", False, dict(self=O({"A:self"}), style=PD("style"), style_path=PD("style_path")), False),
        (G, "BaseGeo.style", True, dict(self=O({"A:self"}), val=PD("val")), False),
        (C, "BaseCollection.set_children_styles", False, dict(self=O({"A:self"}), arg=PD("arg"), path=PD("path")), False),
        (D, "MagicProperties.update", False, dict(self=O({"A:self"}), arg=PD("arg"), path=PD("path")), False),
        # the notation helpers receive dicts whose nested values are still the caller's (dict.copy / {**d} copy one level): they
        # must not modify what they are given
        (D, "magic_to_dict", False, dict(kwargs=PD("kwargs"), separator=Const("_")), False),
        (D, "update_nested_dict", False, dict(d=PD("d"), u=PD("u"), same_keys_only=Const(False), replace_None_only=Const(False)), False),
        (D, "linearize_dict", False, dict(kwargs=PD("kwargs"), separator=Const(".")), False),
        # show() linearises nested `style=` dicts before they reach get_style (checked by G15), so only flat style_* keywords arrive here
        (S, "get_style", False, dict(obj=O({"A:obj"}), default_settings=O({"A:default_settings"}), style_color=O({"P:style_color"})), False),
    ]
    for modname, qual, setter, params, check_return in items:
        node = find_ast(modname, qual, setter)
        have = [a.arg for a in node.args.posonlyargs + node.args.args]
        if qual == "get_style" and len(have) >= 2 and have[1] != "default_settings":
            params = {(have[1] if k == "default_settings" else k): v for k, v in params.items()}      # the defaults argument under another name
        if have and have[0] == "self" and "self" not in params:
            params = dict(params, self=O({"A:self"}))          # a static helper turned into a method
        out, dom, it = run_node(modname, node, params, name=qual)
        res.evaluations += 1
        own = ("P:", "PD:", "N:")
        mut = [x for x in dom.mutations if x[0].startswith(own)]
        esc = [e for e in dom.escapes if any(p.startswith(("PD:", "N:")) or p in ("P:style", "P:arg", "P:val") for p in e[0])]
        ret_alias = sorted(o for o in org_of(out) if o.startswith(("PD:", "N:"))) if (check_return and out is not None) else []
        ok = not mut and not esc and not ret_alias
        res.ob(f"{rule}:{qual}", ok, {"rule": rule, "function": qual, "mutates_caller_dict": [x[4] for x in mut], "captures_caller_dict": [e[1] for e in esc],
                                      "returns_caller_dict": ret_alias, "skipped_statements": len(getattr(it, "skipped", []))})
        seen = set()
        for org, where, line, how, txt in mut:
            if (line, txt) in seen:
                continue
            seen.add((line, txt))
            what = "nested dictionary of the caller's" if org.startswith("N:") else "caller's dictionary"
            res.add(Finding(rule, modname.replace(".", "/") + ".py", where.split(">")[-1], txt, f"the {what} `{org.split(':', 1)[1]}` is modified ({how})", line))
        for ps, where, fn, line in esc:
            nested = all(p.startswith("N:") for p in ps)
            res.add(Finding(rule, modname.replace(".", "/") + ".py", qual, f"{where} <- {','.join(ps)}",
                            "nested dictionaries of the caller's dict are captured by reference (only the outer level was copied)" if nested
                            else "the caller's dictionary is captured by reference", line))
        if ret_alias:
            nested = all(p.startswith("N:") for p in ret_alias)
            res.add(Finding(rule, modname.replace(".", "/") + ".py", qual, f"returns {ret_alias}",
                            "the value returned (and kept by the caller for the lazy style creation) still holds the caller's nested dictionaries: only the outer "
                            "level was copied, so a later edit of the caller's dict changes the style that will be applied" if nested
                            else "the caller's dictionary is returned (and stored by the caller) un-copied"))


# ------------------------------------------------------------------------------------------------ core API
def core_mutations(repo, res, rule="W5"):
    """every function exported by magpylib.core leaves the arrays it is given unchanged (they are called directly by users)"""
    from repo import lit as _lit
    core = repo.mod("magpylib.core")
    names = _lit(core.assigns.get("__all__"))
    if not isinstance(names, (list, tuple)) or len(names) < 8:
        raise AnalysisError("magpylib.core.__all__ vanished")
    n = 0
    for name in names:
        r = repo.resolve_name(core, name)
        if not r or r[0] != "func":
            raise AnalysisError(f"{rule}: cannot resolve magpylib.core.{name}")
        m, fn = r[1], r[2]
        a = fn.args
        params = [x.arg for x in a.posonlyargs + a.args + a.kwonlyargs]
        ndef = len(a.defaults)
        pos = [x.arg for x in a.posonlyargs + a.args]
        required = set(pos[: len(pos) - ndef]) | {x.arg for x, d in zip(a.kwonlyargs, a.kw_defaults) if d is None}
        bind = {p: O({"P:" + p}) for p in params if p in required}
        out, dom, it = run_node(m.name, fn, bind, name=name)
        n += 1
        res.evaluations += 1
        mut = [x for x in dom.mutations if x[0].startswith("P:")]
        res.ob(f"{rule}:core.{name}", not mut, {"rule": rule, "function": name, "in_place_sinks_on_arguments": [x[4] for x in mut],
                                                "skipped_statements": len(getattr(it, "skipped", []))})
        for org, where, line, how, txt in mut:
            res.add(Finding(rule, m.rel, name, txt, f"the exported core function modifies its argument {org[2:]} in place ({how}): the caller's array is "
                            "changed, so a following call through any interface computes something else", line))
    res.analysed[f"{rule}_core_functions"] = n
