#!/venv/bin/python
"""CLI of the static checks:  check.py <ID> [--tier quick|thorough]

exit 0  all obligations of the claimed clause(s) discharged (KNOWN-FINDING lines for listed findings)
exit 1  VIOLATION property=<id> replay=<path>
exit 2  ANALYSIS-ERROR (anchor vanished / unmodelled construct / checker crash) - never a silent pass
"""
import argparse
import importlib
import os
import sys
import time

HERE = os.path.dirname(os.path.abspath(__file__))
sys.path.insert(0, HERE)
sys.dont_write_bytecode = True

import common  # noqa: E402


def main():
    ap = argparse.ArgumentParser()
    ap.add_argument("pid")
    ap.add_argument("--tier", default=os.environ.get("VERIF_TIER", "quick"), choices=["quick", "thorough"])
    ap.add_argument("--repo", default=None)
    a = ap.parse_args()
    if a.repo:
        common.REPO = a.repo
    seed = int(os.environ.get("VERIF_SEED", "0") or 0)
    pid = a.pid.upper()

    def body(tier, t0, seed):
        import decide
        mod = importlib.import_module(f"props.{pid.lower()}")
        res, err, extra = decide.decide(pid, mod, common.REPO, tier)
        if err is not None:
            raise err
        if tier == "thorough" and res.new_findings():
            # the tree under check violates the property: that is the verdict; the self-validation (which replays variants of this very
            # tree and expects the twins to be silent) would only restate it
            extra["selftest"] = {"skipped": "the tree under check has new findings; self-validation is run on trees that pass"}
        elif tier == "thorough":
            import selftest
            st = selftest.run_for(pid, mod, seed)
            extra["selftest"] = st
            if st.get("failed"):
                raise common.AnalysisError(f"checker self-validation failed: {st['failed'][:5]}")
        return common.finish(res, tier, t0, level=getattr(mod, "LEVEL", "other"),
                             explanation=mod.EXPLANATION, extra_cov=extra, seed=seed)

    sys.exit(common.run_guarded(pid, body, a.tier, seed))


if __name__ == "__main__":
    main()
