"""E0 - repository model: parse every magpylib/**/*.py of the current tree, resolve names.

Pure `ast`.  Nothing is imported or executed.
"""
from __future__ import annotations

import ast
import glob
import os

from common import REPO, AnalysisError


class Mod:
    def __init__(self, name, path, root):
        self.name, self.path = name, path
        self.rel = os.path.relpath(path, root)
        self.src = open(path, encoding="utf-8").read()
        self.tree = ast.parse(self.src)
        self.funcs: dict[str, ast.FunctionDef] = {}
        self.classes: dict[str, ast.ClassDef] = {}
        self.imports: dict[str, tuple] = {}   # local name -> (module, attr|None)
        self.assigns: dict[str, ast.AST] = {}  # module-level NAME = expr
        is_pkg = os.path.basename(path) == "__init__.py"
        pkg = name if is_pkg else name.rpartition(".")[0]
        for n in ast.walk(self.tree):
            if isinstance(n, ast.ImportFrom):
                m = n.module or ""
                if n.level:
                    base = pkg.split(".")
                    base = base[: len(base) - (n.level - 1)]
                    m = ".".join(base + ([m] if m else []))
                for a in n.names:
                    self.imports.setdefault(a.asname or a.name, (m, a.name))
            elif isinstance(n, ast.Import):
                for a in n.names:
                    self.imports.setdefault(a.asname or a.name.split(".")[0], (a.name if a.asname else a.name.split(".")[0], None))
        for n in self.tree.body:
            if isinstance(n, ast.FunctionDef):
                self.funcs[n.name] = n
            elif isinstance(n, ast.ClassDef):
                self.classes[n.name] = n
            elif isinstance(n, ast.Assign) and len(n.targets) == 1 and isinstance(n.targets[0], ast.Name):
                self.assigns[n.targets[0].id] = n.value
            elif isinstance(n, ast.AnnAssign) and isinstance(n.target, ast.Name) and n.value is not None:
                self.assigns[n.target.id] = n.value


class Cls:
    def __init__(self, mod: Mod, node: ast.ClassDef):
        self.mod, self.node, self.name = mod, node, node.name
        self.base_names = [ast.unparse(b).split(".")[-1] for b in node.bases]
        self.methods: dict[str, ast.FunctionDef] = {}
        self.getters: dict[str, ast.FunctionDef] = {}
        self.setters: dict[str, ast.FunctionDef] = {}
        self.attrs: dict[str, ast.AST] = {}
        for n in node.body:
            if isinstance(n, ast.FunctionDef):
                decs = [ast.unparse(d) for d in n.decorator_list]
                if "property" in decs:
                    self.getters[n.name] = n
                elif any(d.endswith(".setter") for d in decs):
                    self.setters[n.name] = n
                else:
                    self.methods[n.name] = n
            elif isinstance(n, ast.Assign):
                for t in n.targets:
                    if isinstance(t, ast.Name):
                        self.attrs[t.id] = n.value
            elif isinstance(n, ast.AnnAssign) and isinstance(n.target, ast.Name) and n.value is not None:
                self.attrs[n.target.id] = n.value


class Repo:
    def __init__(self, root=None):
        self.root = root or REPO
        self.mods: dict[str, Mod] = {}
        paths = sorted(glob.glob(os.path.join(self.root, "magpylib", "**", "*.py"), recursive=True))
        if not paths:
            raise AnalysisError(f"no magpylib sources under {self.root}")
        for p in paths:
            rel = os.path.relpath(p, self.root)[:-3].replace(os.sep, ".")
            if rel.endswith(".__init__"):
                rel = rel[: -len(".__init__")]
            try:
                self.mods[rel] = Mod(rel, p, self.root)
            except SyntaxError as e:
                raise AnalysisError(f"cannot parse {p}: {e}")
        self.classes: dict[str, Cls] = {}
        self.cls_by_key: dict[tuple, Cls] = {}
        self.clashes: dict[str, list] = {}
        for m in self.mods.values():
            for c in m.classes.values():
                k = Cls(m, c)
                self.cls_by_key[(m.name, c.name)] = k
                if c.name in self.classes:
                    # simple-name clash (e.g. style.Line vs the deprecated current.Line alias): by-name lookups keep the
                    # class with more members; module-aware lookups (resolve_name, mro) are exact
                    self.clashes.setdefault(c.name, [self.classes[c.name]]).append(k)
                    if len(c.body) > len(self.classes[c.name].node.body):
                        self.classes[c.name] = k
                else:
                    self.classes[c.name] = k
        self.paths = paths

    # ------------------------------------------------------------------ lookup helpers
    def mod(self, name) -> Mod:
        if name not in self.mods:
            raise AnalysisError(f"anchor module vanished: {name}")
        return self.mods[name]

    def func(self, modname, fname) -> ast.FunctionDef:
        m = self.mod(modname)
        if fname not in m.funcs:
            raise AnalysisError(f"anchor function vanished: {modname}.{fname}")
        return m.funcs[fname]

    def cls(self, name) -> Cls:
        if name not in self.classes:
            raise AnalysisError(f"anchor class vanished: {name}")
        return self.classes[name]

    def mro(self, name) -> list[Cls]:
        """linearised by-name MRO (C3 not needed for this single-inheritance-mostly code base; depth-first, left to right, dedup keeping last)"""
        out = []

        def walk(c):
            if c is None or len(out) > 200:
                return
            out.append(c)
            for b in c.base_names:
                r = self.resolve_name(c.mod, b)
                walk(r[1] if r and r[0] == "class" else (self.classes.get(b) if b not in self.clashes else None))
        walk(name if isinstance(name, Cls) else self.classes.get(name))
        seen, res = set(), []
        for c in reversed(out):
            if c.name not in seen:
                seen.add(c.name)
                res.append(c)
        res.reverse()
        # move the root class first
        return res

    def subclasses(self, name) -> list[Cls]:
        return [c for c in self.cls_by_key.values() if any(b.name == name for b in self.mro(c)[1:])]

    def find_method(self, clsname, meth, kind="method"):
        for c in self.mro(clsname):
            d = {"method": c.methods, "getter": c.getters, "setter": c.setters}[kind]
            if meth in d:
                return c, d[meth]
        return None, None

    def class_attr(self, clsname, attr):
        for c in self.mro(clsname):
            if attr in c.attrs:
                return c, c.attrs[attr]
        return None, None

    def resolve_name(self, mod: Mod, name, _depth=0):
        """resolve a global name in `mod` to ('func', Mod, node) / ('class', Cls) / ('module', name) / ('ext', qualname) / ('const', Mod, expr) / None"""
        if _depth > 8:
            return None
        if name in mod.funcs:
            return ("func", mod, mod.funcs[name])
        if name in mod.classes:
            return ("class", self.cls_by_key[(mod.name, name)])
        if name in mod.assigns:
            return ("const", mod, mod.assigns[name])
        if name in mod.imports:
            m, a = mod.imports[name]
            if a is None:
                return ("module", m)
            if m in self.mods:
                r = self.resolve_name(self.mods[m], a, _depth + 1)
                if r is not None:
                    return r
                if f"{m}.{a}" in self.mods:
                    return ("module", f"{m}.{a}")
                return None
            return ("ext", f"{m}.{a}")
        return None

    def all_functions(self):
        """yield (Mod, qualname, FunctionDef, Cls|None) for every def (module level, methods, properties)"""
        for m in self.mods.values():
            for f in m.funcs.values():
                yield m, f.name, f, None
            for c in m.classes.values():
                cl = self.cls_by_key[(m.name, c.name)]
                for n in c.body:
                    if isinstance(n, ast.FunctionDef):
                        kind = ""
                        decs = [ast.unparse(d) for d in n.decorator_list]
                        if any(d.endswith(".setter") for d in decs):
                            kind = " (setter)"
                        yield m, f"{c.name}.{n.name}{kind}", n, cl


def walk_with_callees(repo, mod, fn, depth=2, _seen=None, skip=()):
    """ast.walk over fn and over the module-level functions it calls by plain name (same module or imported from the package),
    `depth` levels deep: a rule that looks for "the call that does X in f" must also find it in a helper f delegates to"""
    seen = _seen if _seen is not None else set()
    if id(fn) in seen:
        return
    seen.add(id(fn))
    for n in ast.walk(fn):
        yield n
        if depth and isinstance(n, ast.Call) and isinstance(n.func, ast.Name):
            r = repo.resolve_name(mod, n.func.id)
            if r and r[0] == "func" and id(r[2]) not in seen and n.func.id not in skip:
                yield from walk_with_callees(repo, r[1], r[2], depth - 1, seen, skip)


def fn_params(fn: ast.FunctionDef):
    a = fn.args
    return [x.arg for x in a.posonlyargs + a.args + a.kwonlyargs]


def call_name(call: ast.Call):
    f = call.func
    if isinstance(f, ast.Name):
        return f.id
    if isinstance(f, ast.Attribute):
        return f.attr
    return None


def kw(call: ast.Call, name, default=None):
    for k in call.keywords:
        if k.arg == name:
            return k.value
    return default


def lit(node, default=None):
    try:
        return ast.literal_eval(node)
    except Exception:
        return default


def ret_value(fn: ast.FunctionDef, ret: ast.Return):
    """the expression a `return` hands back, looking through one local temporary: `rv = f(x); return rv` is `return f(x)` when `rv`
    is bound exactly once in the function (rules that recognise a call form in a return must not depend on such a temporary)"""
    v = ret.value
    if isinstance(v, ast.Name):
        # the temporary bound by the statement right before the return (any number of such returns in the function)
        for blk_owner in ast.walk(fn):
            for f in ("body", "orelse", "finalbody"):
                blk = getattr(blk_owner, f, None)
                if isinstance(blk, list) and ret in blk:
                    i = blk.index(ret)
                    if i > 0 and isinstance(blk[i - 1], ast.Assign) and len(blk[i - 1].targets) == 1 and isinstance(blk[i - 1].targets[0], ast.Name) \
                            and blk[i - 1].targets[0].id == v.id:
                        return blk[i - 1].value
            for h in getattr(blk_owner, "handlers", []) or []:
                if ret in h.body:
                    i = h.body.index(ret)
                    if i > 0 and isinstance(h.body[i - 1], ast.Assign) and len(h.body[i - 1].targets) == 1 and isinstance(h.body[i - 1].targets[0], ast.Name) \
                            and h.body[i - 1].targets[0].id == v.id:
                        return h.body[i - 1].value
        defs = [s for s in ast.walk(fn) if isinstance(s, (ast.Assign, ast.AnnAssign, ast.AugAssign))
                and any(isinstance(t, ast.Name) and t.id == v.id for t in (s.targets if isinstance(s, ast.Assign) else [s.target]))]
        loops = [l for l in ast.walk(fn) if isinstance(l, (ast.For, ast.comprehension)) and any(isinstance(x, ast.Name) and x.id == v.id for x in ast.walk(l.target))]
        if len(defs) == 1 and not loops and isinstance(defs[0], ast.Assign) and len(defs[0].targets) == 1 and v.id not in {a.arg for a in fn.args.args + fn.args.kwonlyargs}:
            return defs[0].value
    return v
