"""Prototype ORIGIN domain (tolerant): which caller-owned values can a value alias?  Scratch."""
import ast
from absint import *

class O(V):
    """value with a set of origins: 'fresh', 'const', 'P:<name>' (entry parameter), 'A:<expr>' (object state)"""
    def __init__(self, org, mask=False, local=False):
        # local: a container created in the analysed code (list/dict display); its element origins are tracked in org but
        # mutating the container itself (append/extend/...) is not a write to anybody else's state
        self.org, self.mask, self.local = frozenset(org), mask, local
    def __repr__(self):
        return "O{" + ",".join(sorted(self.org)) + "}"

FRESH = O({"fresh"})
COPY = {"array", "copy", "tile", "repeat", "concatenate", "stack", "vstack", "hstack", "column_stack", "pad", "zeros",
        "zeros_like", "ones", "ones_like", "empty", "full", "arange", "cross", "sum", "mean", "sqrt", "abs", "fabs",
        "linspace", "cumsum", "where", "einsum", "dot", "matmul", "norm", "det", "inv", "from_quat", "from_rotvec",
        "from_euler", "from_matrix", "from_mrp", "identity", "as_quat", "as_rotvec", "deepcopy", "float", "int", "str",
        "len", "min", "max", "unique", "sort", "delete", "split", "isclose", "logical_and", "logical_or", "sign", "log",
        "sin", "cos", "arctan2", "arctan", "any", "all", "isnan", "prod", "round", "tuple", "bool", "range", "zip",
        "enumerate", "isinstance", "getattr", "hasattr", "callable", "getfullargspec", "type", "set", "apply", "inv",
        "nan_to_num_copy"}
VIEW = {"asarray", "reshape", "squeeze", "ravel", "swapaxes", "transpose", "expand_dims", "atleast_1d", "atleast_2d",
        "asanyarray", "list", "dict"}
MUTATORS = {"append", "extend", "update", "pop", "remove", "clear", "insert", "sort", "reverse", "setdefault", "popitem",
            "fill", "resize", "put", "itemset"}

def org_of(v):
    if isinstance(v, O): return v.org
    if isinstance(v, Seq):
        s = frozenset()
        for i in v.items: s |= org_of(i)
        return s or frozenset({"fresh"})
    if isinstance(v, Const): return frozenset({"const"})
    return frozenset({"fresh"})

def owned(org):
    return {o for o in org if o.startswith(("P:", "PD:", "N:", "A:"))}


def nested_of(org):
    """origins of the *values held by* a caller's dictionary: a dict-typed parameter PD:x holds N:x; so do N:x values themselves"""
    return {("N:" + o[3:]) if o.startswith("PD:") else o for o in org if o.startswith(("PD:", "N:"))}


def shallow_copy(v):
    """dict.copy() / dict(d) / {**d} / list(d): a new container (fresh) holding the very same nested values"""
    n = nested_of(org_of(v))
    return O({"fresh"} | n, local=True) if n else None

class OriginDomain:
    def __init__(self):
        self.mutations, self.escapes, self.interp, self.unmodelled = [], [], None, set()
    def where(self):
        return ">".join(self.interp.callstack[-3:])
    def sink(self, v, node, how):
        for o in sorted(owned(org_of(v))):
            self.mutations.append((o, self.where(), getattr(node, "lineno", "?"), how, ast.unparse(node)[:70]))
    def on_skipped(self, stmt, env, interp):
        """a statement could not be modelled: still look for in-place sinks in it (sound fallback)"""
        for n in ast.walk(stmt):
            recv = None
            if isinstance(n, ast.Call) and isinstance(n.func, ast.Attribute) and n.func.attr in MUTATORS:
                recv = n.func.value
            if isinstance(n, ast.Subscript) and isinstance(n.ctx, ast.Store):
                recv = n.value
            if recv is not None:
                try:
                    v = interp.expr(recv, env)
                except Exception:
                    continue
                if (isinstance(v, Seq) and v.kind in ("py", "pyabs")) or (isinstance(v, O) and v.local):
                    continue        # a list / dict built in the analysed code: mutating the container is nobody else's state (as in method())
                self.sink(v, n, "sink in unmodelled statement")
    def enter_function(self, f, bound, node): pass
    def exit_function(self, f, out, node): return out
    def builtin(self, name, node):
        if name in ("True", "False", "None"): return Const({"True": True, "False": False, "None": None}[name])
        return ExtName("builtins." + name)
    def external_name(self, q, node): return ExtName(q)
    def lit(self, value, node): return Const(value)
    def make_seq(self, items, node): return Seq(items, "py")
    def abstract_dict(self, vals, node):
        """{**d, k: v}: a new dict (one level) whose values are the very objects of d and v"""
        org = frozenset()
        for v in vals:
            o = org_of(v)
            org |= (frozenset(nested_of(o)) | frozenset(x for x in o if not x.startswith("PD:")))
        return O(org - {"const"} or {"fresh"}, local=True)
    def abstract_seq(self, elem, node): return Seq([elem], "pyabs")
    def join(self, a, b, node, silent=False):
        if isinstance(a, Const) and isinstance(b, Const) and isinstance(a.value, dict) and isinstance(b.value, dict):
            keys = list(dict.fromkeys(list(a.value) + list(b.value)))
            return Const({k: (self.join(a.value[k], b.value[k], node) if k in a.value and k in b.value
                              else a.value.get(k, b.value.get(k))) for k in keys})
        if isinstance(a, Const) and isinstance(b, Const):
            try:
                if a.value == b.value: return a
            except Exception: pass
        if isinstance(a, Const) and a.value is None and isinstance(b, O): return b
        if isinstance(b, Const) and b.value is None and isinstance(a, O): return a
        if isinstance(a, Seq) and isinstance(b, Seq) and a.kind == b.kind == "py" and len(a.items) == len(b.items):
            return Seq([self.join(x, y, node, silent) for x, y in zip(a.items, b.items)], "py")      # tuples of equal length join element-wise
        loc = lambda v: (isinstance(v, Seq) and v.kind in ("py", "pyabs")) or (isinstance(v, O) and v.local) or isinstance(v, Const)   # literals are fresh containers
        out = O(org_of(a) | org_of(b), local=loc(a) and loc(b))
        if getattr(a, "kind", None) is not None and getattr(a, "kind", None) == getattr(b, "kind", None):
            out.kind = a.kind
        return out
    def truth(self, v):
        if isinstance(v, Const):
            try: return bool(v.value)
            except Exception: return None
        return None
    def unpack(self, v, n, node):
        if isinstance(v, Seq):
            if v.kind == "pyabs": return [v.items[0]] * n
            if len(v.items) == n: return list(v.items)
        return [O(org_of(v))] * n        # unpacking an array yields views
    def iter_elems(self, v, node):
        if isinstance(v, Seq): return v.items[0] if v.kind == "pyabs" else list(v.items)
        if isinstance(v, Const) and isinstance(v.value, (tuple, list, str)): return [Const(x) for x in v.value]
        if isinstance(v, Const) and isinstance(v.value, dict): return [Const(k) for k in v.value]
        return O(org_of(v))
    def binop(self, op, a, b, node):
        if isinstance(a, Const) and isinstance(b, Const):
            return Const(None) if a.value is None else O({"const"})
        return FRESH
    def aug_name(self, op, cur, rhs, node):
        """`x op= y` on a name: in place for ndarrays/lists (the object x refers to is modified), rebinding for numbers"""
        if isinstance(cur, O) and owned(cur.org):
            self.sink(cur, node, "augmented assignment (in place on arrays)")
            return cur
        if isinstance(cur, O):
            return cur
        return self.binop(op, cur, rhs, node)
    def unop(self, op, a, node):
        if isinstance(op, ast.Not) and isinstance(a, Const): return Const(not a.value)
        return FRESH
    def compare(self, ops, vals, node):
        a, b = vals[0], vals[1]
        if isinstance(ops[0], (ast.Is, ast.IsNot)) and isinstance(b, Const) and b.value is None:
            if isinstance(a, Const): return Const((a.value is None) == isinstance(ops[0], ast.Is))
            return Unknown()
        if isinstance(a, Const) and isinstance(b, Const):
            try:
                if isinstance(ops[0], ast.Eq): return Const(a.value == b.value)
                if isinstance(ops[0], ast.NotEq): return Const(a.value != b.value)
            except Exception: pass
        return O({"fresh"}, mask=True)
    def boolop(self, op, vals, node):
        if all(isinstance(v, Const) for v in vals):
            r = vals[0].value
            for v in vals[1:]: r = (r and v.value) if isinstance(op, ast.And) else (r or v.value)
            return Const(r)
        for v in vals:
            if isinstance(v, Const):
                if isinstance(op, ast.And) and not v.value: return Const(False)
                if isinstance(op, ast.Or) and v.value: return Const(True)
        return Unknown()
    def attr(self, recv, name, node):
        if isinstance(recv, ModRef): return ExtName(f"{recv.name}.{name}")
        if isinstance(recv, ExtName): return ExtName(f"{recv.q}.{name}")
        if name == "T": return O(org_of(recv))
        if name in ("shape", "ndim", "size", "dtype"): return O({"const"})
        if name in getattr(self, "scalar_attrs", ()): return O({"const"})      # validated scalars: immutable numbers
        base = ast.unparse(node.value)
        if isinstance(recv, O) and owned(recv.org) and not base.startswith("self"):
            # attribute of a value derived from owned data: conservatively the same origins
            return O(recv.org | {f"A:{base}.{name}"})
        out = O({f"A:{base}.{name}"})
        if name in ("style", "_style"):
            # a style object (MagicProperties): its `.update` is the package's validating update (judged on its own, G4 item
            # MagicProperties.update), not dict.update - it does not make the object hold the argument by reference
            out.kind = "style"
        return out
    def subscript(self, recv, idx_node, idx, node):
        if isinstance(recv, Seq) and recv.kind == "py" and isinstance(idx[0], Const) and isinstance(idx[0].value, int):
            try: return recv.items[idx[0].value]
            except IndexError: pass
        if isinstance(recv, Const) and isinstance(recv.value, dict) and isinstance(idx[0], Const):
            return recv.value.get(idx[0].value, recv.value.get("*", Unknown()))
        if isinstance(recv, Const) and isinstance(recv.value, dict) and recv.value:
            # computed key: any of the stored values (they are references, not copies)
            orgs = set()
            for v in recv.value.values():
                orgs |= set(org_of(v))
            return O(orgs)
        if isinstance(recv, O) and nested_of(recv.org):
            return O(nested_of(recv.org) | {x for x in recv.org if x.startswith("A:")})
        # boolean / fancy index by a mask value -> copy
        if any(isinstance(i, O) and i.mask for i in idx): return FRESH
        if any(isinstance(i, Seq) for i in idx): return FRESH           # list/tuple of indices -> fancy
        return O(org_of(recv))
    def store_sub(self, recv, idx_node, idx, val, node, aug=None):
        if isinstance(recv, Const) and isinstance(recv.value, dict) and isinstance(idx[0], Const):
            d = dict(recv.value); d[idx[0].value] = val
            return Const(d)
        if isinstance(recv, Const) and isinstance(recv.value, dict) and aug is None:
            # store under a computed key into a dict literal built here: remember the value under the wildcard entry
            d = dict(recv.value)
            d["*"] = O(set(org_of(d["*"])) | set(org_of(val))) if "*" in d else val
            return Const(d)
        self.sink(recv, node, "subscript store")
        return recv
    def store_attr(self, recv, name, val, tnode, node):
        base = ast.unparse(tnode.value)
        self.attr_stores = getattr(self, "attr_stores", [])
        self.attr_stores.append((base, name, org_of(val), node))
        ps = {o for o in org_of(val) if o.startswith(("P:", "PD:", "N:"))}
        if ps:
            self.escapes.append((sorted(ps), f"{base}.{name}", self.where(), getattr(node, "lineno", "?")))
        if isinstance(recv, O) and owned(recv.org) and not base.startswith("self"):
            self.sink(recv, node, f"attribute store .{name}")
    def method(self, recv, name, args, kwargs, node):
        if isinstance(recv, Const) and isinstance(recv.value, dict):
            if name == "items": return Seq([Seq([Const(k), v], "py") for k, v in recv.value.items()], "py")
            if name == "values": return Seq(list(recv.value.values()), "py")
            if name == "keys": return Seq([Const(k) for k in recv.value], "py")
            if name == "get": return recv.value.get(args[0].value, args[1] if len(args) > 1 else Const(None)) if isinstance(args[0], Const) else Unknown()
        if name in MUTATORS:
            if isinstance(recv, Seq) and name == "append":
                recv.items.append(args[0]); return Const(None)
            if isinstance(recv, Seq) and recv.kind in ("py", "pyabs") and name in ("extend", "insert"):
                recv.items.extend(args[-1].items if isinstance(args[-1], Seq) else [args[-1]]); return Const(None)
            if isinstance(recv, O) and recv.local:
                return Const(None)
            self.sink(recv, node, f".{name}()")
            return Const(None)
        if name in ("copy",):
            sc = shallow_copy(recv)
            return sc if sc is not None else FRESH
        if name == "astype":
            c = kwargs.get("copy")
            return O(org_of(recv)) if isinstance(c, Const) and c.value is False else FRESH
        if name in ("get", "items", "values", "pop", "setdefault") and nested_of(org_of(recv)):
            return O(nested_of(org_of(recv)) | {x for x in org_of(recv) if x.startswith("A:")})
        if name in VIEW or name in ("T", "view", "flatten_view", "get", "items", "values", "keys"):
            return O(org_of(recv))
        if name in COPY or name in ("flatten", "mean", "sum", "max", "min", "all", "any", "as_quat", "inv", "apply",
                                    "as_rotvec", "as_euler", "as_matrix", "tolist", "split", "startswith", "endswith"):
            return FRESH
        self.unmodelled.add("." + name)
        return FRESH
    def after_method(self, recv, name, args, kwargs, node):
        """d.update(x) / l.append(x) / d.setdefault(k, x): the container now holds x (by reference)"""
        if name not in ("update", "append", "extend", "insert", "setdefault", "add"):
            return None
        if getattr(recv, "kind", None) == "style":
            return None
        if name == "update" and isinstance(recv, Const) and isinstance(recv.value, dict) and len(args) == 1 and isinstance(args[0], Const) \
                and isinstance(args[0].value, dict) and not kwargs:
            # d.update({..}) on a dictionary built here: the entries are merged (computed keys share the entry "*")
            merged = dict(recv.value)
            for k, v in args[0].value.items():
                merged[k] = self.join(merged[k], v, node) if (k == "*" and k in merged) else v
            return Const(merged)
        held = set()
        for v in list(args) + list(kwargs.values()):
            if isinstance(v, Const) and isinstance(v.value, dict):
                for x in v.value.values():
                    held |= owned(org_of(x))
            else:
                o = org_of(v)
                # update(d) / extend(l) copy the *entries* of a dict-typed argument: its nested values
                held |= (nested_of(o) if name in ("update", "extend") and nested_of(o) else owned(o))
        held = {h for h in held if h.startswith(("PD:", "N:"))}
        if not held:
            return None
        if isinstance(recv, O):
            return O(set(recv.org) | held, mask=recv.mask, local=recv.local)
        if isinstance(recv, Const) and isinstance(recv.value, dict):
            return O({"fresh"} | held, local=True)
        return None

    def call_external(self, q, args, kwargs, node):
        base = q.split(".")[-1]
        if q == "builtins.getattr" and len(args) >= 2:
            nm = args[1].value if isinstance(args[1], Const) else "?"
            recv_txt = ast.unparse(node.args[0]) if getattr(node, "args", None) else "?"
            dflt = org_of(args[2]) if len(args) > 2 else frozenset()
            return O({f"A:{recv_txt}.{nm}"} | {x for x in dflt if x not in ("const",)})
        if base == "nan_to_num":
            c = kwargs.get("copy")
            if isinstance(c, Const) and c.value is False:
                self.sink(args[0], node, "nan_to_num(copy=False)")
                return O(org_of(args[0]))
            return FRESH
        if base in ("array", "asarray", "asanyarray"):
            a = args[0] if args else FRESH
            dt = kwargs.get("dtype")
            objdt = isinstance(dt, Const) and dt.value in ("object", "O")
            c = kwargs.get("copy")
            if base != "array" or objdt or (isinstance(c, Const) and c.value is False):
                return O(org_of(a))
            return FRESH
        if "out" in kwargs:
            self.sink(kwargs["out"], node, "out=")
        if base in ("dict", "list", "tuple") and args and shallow_copy(args[0]) is not None:
            return shallow_copy(args[0])
        if base in VIEW:
            return O(org_of(args[0])) if args else FRESH
        if base in COPY:
            return FRESH
        self.unmodelled.add(q)
        return FRESH
