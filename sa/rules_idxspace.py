"""Rule IDX-SPACE - integer row numbers live in an index space; they may only index arrays of that space.

The numerical layer selects sub-batches of rows.  With boolean masks a mix-up of spaces is a shape error NumPy reports; with integer
index arrays (`np.flatnonzero`, `np.nonzero(..)[0]`, `np.where(..)[0]`, `np.argwhere`) it is silent: `j = np.flatnonzero(c[i])` numbers the
rows of the *selection* `c[i]`, and `X[j]` on the full batch picks other rows (correct shapes, values of the wrong source / observer).

Spaces (per function, flow-insensitive, names bound once):  FULL for parameters and anything not selected; `sel(i)` for `A[i]` with i an
index array / mask variable, and for index arrays computed from a condition that reads such a selection.
Obligation: in `A[j]` the space of A equals the space j is relative to.  Composition `i[j]` (positions in the selection mapped back to
batch rows) has the space of i - the correct spelling of the mix-up above.
The reference tree uses masks only (no instance); the embedded examples keep the rule honest on every run.
"""
from __future__ import annotations

import ast

from common import Finding, norm

IDX_FUNCS = ("flatnonzero", "nonzero", "argwhere", "where")
FULL = "FULL"


def _index_call(v):
    """the condition of an index-producing call, or None"""
    if isinstance(v, ast.Subscript) and isinstance(v.slice, ast.Constant) and v.slice.value == 0:
        v = v.value           # np.nonzero(c)[0] / np.where(c)[0]
    if isinstance(v, ast.Call) and getattr(v.func, "attr", getattr(v.func, "id", "")) in IDX_FUNCS and len(v.args) == 1 and not v.keywords:
        return v.args[0]
    return None


def analyse(fn):
    """-> (n_index_arrays, [(node, message)])"""
    binds = {}
    for a in ast.walk(fn):
        if isinstance(a, ast.Assign) and len(a.targets) == 1 and isinstance(a.targets[0], ast.Name):
            binds.setdefault(a.targets[0].id, []).append(a.value)
    # every binding counts (parameters, tuple targets, loop variables, augmented assignments): a name bound more than once has no single
    # space in a flow-insensitive reading (`phi = phi[rows]` re-binds the selected rows to the name of the full array) - no obligation there
    nbind = {}
    for p_ in fn.args.posonlyargs + fn.args.args + fn.args.kwonlyargs:
        nbind[p_.arg] = nbind.get(p_.arg, 0) + 1
    for a in ast.walk(fn):
        tg = a.targets if isinstance(a, ast.Assign) else [a.target] if isinstance(a, (ast.AugAssign, ast.AnnAssign, ast.For, ast.comprehension, ast.NamedExpr)) else []
        for t in tg:
            for x in ast.walk(t):
                if isinstance(x, ast.Name) and isinstance(x.ctx, ast.Store):
                    nbind[x.id] = nbind.get(x.id, 0) + 1
    multi = {k for k, c in nbind.items() if c > 1}
    once = {k: v[0] for k, v in binds.items() if len(v) == 1 and k not in multi}
    idx_space, arr_space = {}, {}
    UNKNOWN = "?"

    def space_of_array(e):
        """space of an array expression: sel(i) if it is (built from) a selection by an index variable, else FULL"""
        if isinstance(e, ast.Name):
            if e.id in multi:
                return UNKNOWN
            if e.id in arr_space:
                return arr_space[e.id]
            return FULL
        if isinstance(e, ast.Subscript) and isinstance(e.slice, ast.Name) and e.slice.id in idx_space:
            return f"sel({e.slice.id})"
        subs = {space_of_array(x) for x in ast.iter_child_nodes(e) if isinstance(x, ast.expr)}
        subs.discard(FULL)
        if UNKNOWN in subs:
            return UNKNOWN
        return next(iter(subs)) if len(subs) == 1 else FULL
    changed = True
    rounds = 0
    while changed and rounds < 6:
        changed, rounds = False, rounds + 1
        for name, v in once.items():
            cond = _index_call(v)
            if cond is not None and name not in idx_space:
                idx_space[name] = space_of_array(cond)       # the space whose rows the numbers count
                changed = True
            elif cond is None and name not in arr_space:
                if isinstance(v, ast.Subscript) and isinstance(v.slice, ast.Name) and v.slice.id in idx_space and isinstance(v.value, ast.Name) and v.value.id in idx_space:
                    # i[j]: positions in the selection mapped back to the rows i numbers
                    idx_space[name] = idx_space[v.value.id]
                    changed = True
                else:
                    sp = space_of_array(v)
                    if sp not in (FULL, UNKNOWN):
                        arr_space[name] = sp
                        changed = True
    probs = []
    for x in ast.walk(fn):
        if isinstance(x, ast.Subscript) and isinstance(x.slice, ast.Name) and x.slice.id in idx_space:
            j = x.slice.id
            if isinstance(x.value, ast.Name) and x.value.id in idx_space:
                continue          # i[j] composition
            want, have = idx_space[j], space_of_array(x.value)
            if UNKNOWN in (want, have):
                continue
            if want != have:
                probs.append((x, f"`{j}` numbers the rows of {('the selection ' + want[4:-1]) if want != FULL else 'the whole batch'} but indexes "
                                 f"{('the selection by ' + have[4:-1]) if have != FULL else 'an array of the whole batch'}"))
    return len(idx_space), probs


POSITIVE = '''
def f(r1, obs, mask1):
    ind_full = np.flatnonzero(~mask1)
    ind_hollow = np.flatnonzero(r1[ind_full] != 0)
    out = g(obs[ind_full])
    out2 = g(obs[ind_hollow])
    return out, out2
'''
NEGATIVE = '''
def f(r1, obs, mask1):
    ind_full = np.flatnonzero(~mask1)
    sub = r1[ind_full]
    pos = np.flatnonzero(sub != 0)
    ind_hollow = ind_full[pos]
    out = g(obs[ind_full], sub[pos])
    out2 = g(obs[ind_hollow])
    k = np.where(mask1)[0]
    return out, out2, obs[k]
'''


def self_check():
    p = analyse(ast.parse(POSITIVE).body[0])
    n = analyse(ast.parse(NEGATIVE).body[0])
    return len(p[1]) == 1 and "ind_hollow" in p[1][0][1] and not n[1] and n[0] >= 3


def run(repo, res, rule, modfilter):
    from common import AnalysisError
    if not self_check():
        raise AnalysisError(f"{rule}: the embedded positive / negative examples are no longer told apart")
    n_fn = n_idx = 0
    for m, qn, fn, cl in repo.all_functions():
        if not modfilter(m.name):
            continue
        n_fn += 1
        n, probs = analyse(fn)
        n_idx += n
        for node, msg in probs:
            res.ob(f"{rule}:{qn}:{norm(node)}", False, {"rule": rule, "function": qn, "use": norm(node)})
            res.add(Finding(rule, m.rel, qn, node, msg + ": the rows picked belong to other sources / observers of the batch (shapes still fit)", node.lineno))
    res.ob(f"{rule}:scan", True, {"rule": rule, "functions_scanned": n_fn, "integer_index_arrays": n_idx, "embedded_examples": "positive fires, negative silent"}, nontrivial=False)
    return n_idx
