"""Rule OFFSET - an index offset carried from one loop iteration to the next must accumulate.

Instance discovery: a `for i, x in enumerate(..)` / `for i in range(..)` loop with a variable v that
  (1) is *loop carried*: bound before the loop and read in the body at a point where it has not yet been re-bound in the same iteration,
  (2) is used as an offset of the loop index: v (or a body-local bound from an expression containing v) occurs in an additive
      expression together with the index variable i (`i + v`, `start = i + v; B[start : ..]`),
  (3) is re-bound in the body.
Obligation: every re-binding of v in the body depends on v's previous value (`v += e`, `v = v + e`, or through body locals that
were computed from v, e.g. `v = start + n - i` with `start = i + v`).
Why this is a necessary condition: v translates between two index spaces (position in the list that is iterated, row in the array
that is addressed); after k iterations that shrink/grow the array the translation is the *sum* of their effects.  A re-binding
that ignores the previous value remembers only the last iteration, so the third and later affected entries address wrong rows
(correct shape, wrong numbers) - the arrangement `[col(2), col(2), col(2)]` that fixed test arrangements do not contain.
"""
from __future__ import annotations

import ast

from common import Finding, norm


def _names(e):
    return {x.id for x in ast.walk(e) if isinstance(x, ast.Name)}


def _index_vars(loop):
    it = loop.iter
    if isinstance(it, ast.Call) and isinstance(it.func, ast.Name):
        if it.func.id == "enumerate" and isinstance(loop.target, ast.Tuple) and isinstance(loop.target.elts[0], ast.Name):
            return {loop.target.elts[0].id}
        if it.func.id == "range" and isinstance(loop.target, ast.Name):
            return {loop.target.id}
    return set()


def _flat(body):
    """statements of the loop body in source order, descending into if/else/with/try (not into nested loops' own carried state)"""
    for s in body:
        yield s
        for f in ("body", "orelse", "finalbody"):
            sub = getattr(s, f, None)
            if sub and not isinstance(s, (ast.FunctionDef, ast.ClassDef)):
                yield from _flat(sub)
        for h in getattr(s, "handlers", []) or []:
            yield from _flat(h.body)


def analyse_loop(loop, bound_before):
    """-> list of (var, rebinding stmt, ok) for offset variables of this loop"""
    idx = _index_vars(loop)
    if not idx:
        return []
    stmts = [s for s in _flat(loop.body) if isinstance(s, (ast.Assign, ast.AugAssign, ast.AnnAssign, ast.Expr, ast.Return, ast.If, ast.While, ast.For))]
    # body-local definitions: name -> set of names its value was computed from (transitively, source order)
    deps = {}
    assigned_at = {}
    first_read, first_write = {}, {}
    for n, s in enumerate(stmts):
        if isinstance(s, (ast.If, ast.While)):
            reads = _names(s.test)
        elif isinstance(s, ast.For):
            reads = _names(s.iter)
        elif isinstance(s, ast.AugAssign):
            reads = _names(s.value) | _names(s.target)
        elif isinstance(s, (ast.Assign, ast.AnnAssign)):
            reads = _names(s.value) if s.value is not None else set()
            for t in (s.targets if isinstance(s, ast.Assign) else [s.target]):
                if not isinstance(t, ast.Name):
                    reads |= _names(t)
        else:
            reads = _names(s)
        for r in reads:
            first_read.setdefault(r, n)
        if isinstance(s, (ast.Assign, ast.AugAssign, ast.AnnAssign)):
            for t in (s.targets if isinstance(s, ast.Assign) else [s.target]):
                for x in ([t] if isinstance(t, ast.Name) else [e for e in getattr(t, "elts", []) if isinstance(e, ast.Name)]):
                    first_write.setdefault(x.id, n)
                    d = set(reads)
                    for r in list(reads):
                        d |= deps.get(r, set())
                    if isinstance(s, ast.AugAssign):
                        d.add(x.id)
                    deps[x.id] = d if x.id not in deps or isinstance(s, ast.AugAssign) else d
                    assigned_at.setdefault(x.id, []).append((n, s, d))
    out = []
    for v, writes in assigned_at.items():
        if v in idx or v not in bound_before:
            continue
        carried = v in first_read and first_read[v] <= first_write[v]
        if not carried:
            continue
        # (2) additive use with the index variable, directly or through one body local
        offset_use = False
        for s in stmts:
            for b in ast.walk(s):
                if isinstance(b, ast.BinOp) and isinstance(b.op, (ast.Add, ast.Sub)):
                    ns = _names(b)
                    if ns & idx and (v in ns):
                        offset_use = True
        if not offset_use:
            continue
        for n, s, d in writes:
            ok = v in d
            out.append((v, s, ok))
    return out


def run_function(fn):
    res = []
    bound = {a.arg for a in fn.args.args + fn.args.kwonlyargs}
    # names bound anywhere before a loop (source order)
    loops = [l for l in ast.walk(fn) if isinstance(l, ast.For)]
    for loop in loops:
        before = set(bound)
        for s in ast.walk(fn):
            if isinstance(s, (ast.Assign, ast.AugAssign, ast.AnnAssign)) and s.lineno < loop.lineno:
                for t in (s.targets if isinstance(s, ast.Assign) else [s.target]):
                    before |= {x.id for x in ast.walk(t) if isinstance(x, ast.Name)}
        for v, s, ok in analyse_loop(loop, before):
            res.append((loop, v, s, ok))
    return res


POSITIVE = '''
def f(B, sources):
    shift = 0
    for i, src in enumerate(sources):
        if src.n > 1:
            start = i + shift
            B[start] = B[start:start + src.n].sum(0)
            shift = src.n - 1
'''
NEGATIVE = '''
def f(B, sources):
    shift = 0
    for i, src in enumerate(sources):
        if src.n > 1:
            start = i + shift
            B[start] = B[start:start + src.n].sum(0)
            shift += src.n - 1
    a = 0
    for b in range(len(B)):
        if B[b] != B[a]:
            g(B[a:b])
            a = b
'''


def self_check():
    p = run_function(ast.parse(POSITIVE).body[0])
    n = run_function(ast.parse(NEGATIVE).body[0])
    return any(not ok for _, _, _, ok in p) and all(ok for _, _, _, ok in n)


def run(repo, res, rule, modules):
    from common import AnalysisError
    if not self_check():
        raise AnalysisError(f"{rule}: the embedded positive/negative examples are no longer told apart")
    nloops = ninst = 0
    for mname in modules:
        m = repo.mod(mname)
        fns = list(m.funcs.values()) + [f for c in m.classes.values() for f in c.body if isinstance(f, ast.FunctionDef)]
        for fn in fns:
            nloops += sum(1 for l in ast.walk(fn) if isinstance(l, ast.For) and _index_vars(l))
            for loop, v, s, ok in run_function(fn):
                ninst += 1
                res.ob(f"{rule}:{fn.name}:{v}:{norm(s)}", ok, {"rule": rule, "function": fn.name, "offset_variable": v, "rebinding": norm(s), "accumulates": ok})
                if not ok:
                    res.add(Finding(rule, m.rel, fn.name, s, f"`{v}` is carried from one iteration to the next and added to the loop index to address rows, but this "
                                    f"re-binding ignores its previous value: after two or more earlier entries that changed the row layout the offset is wrong "
                                    "(e.g. three collections of two sources each)", s.lineno))
    res.ob(f"{rule}:scan", True, {"rule": rule, "indexed_loops_scanned": nloops, "offset_variables": ninst, "embedded_examples": "positive fires, negative silent"}, nontrivial=False)
    res.analysed[f"{rule}_indexed_loops"] = nloops
    return ninst
