"""Rule LOST-WRITE - a store through a chained subscript whose inner index is an array writes to a temporary copy.

NumPy: `A[m]` with a boolean mask or an integer index array (advanced indexing) is a *copy*; `A[m][k] = v`, `A[m][k] -= v` modify that copy and
the result is dropped - the statement has no effect on A (correct spelling: one combined index, `A[rows[k]] = v`, or `tmp = A[m]; tmp[k] = v;
A[m] = tmp`).  A basic inner index (slice, integer, tuple of those) gives a view and is fine.  The statement type-checks and has the right
shapes, so no test that does not look at exactly those rows notices.

Decided: for every store / augmented store in the selected modules whose target is `X[i][j]...`, the inner index i is basic.  An inner index
of unknown kind (a parameter, an attribute) gives no verdict.  The reference tree has no instance; the embedded examples keep the rule honest.
"""
from __future__ import annotations

import ast

from common import Finding, norm

ARRAY_CALLS = {"flatnonzero", "nonzero", "where", "argwhere", "logical_and", "logical_or", "logical_not", "isnan", "isclose", "isfinite", "isin", "argsort",
               "array", "asarray", "arange", "unique"}


def _kind(e, defs, loopvars, depth=0):
    """'array' | 'basic' | None (unknown)"""
    if isinstance(e, ast.Slice):
        return "basic"
    if isinstance(e, ast.Constant):
        return "basic" if isinstance(e.value, int) or e.value is None or e.value is Ellipsis else None
    if isinstance(e, ast.Tuple):
        ks = [_kind(x, defs, loopvars, depth) for x in e.elts]
        return "array" if "array" in ks else ("basic" if all(k == "basic" for k in ks) else None)
    if isinstance(e, ast.List):
        return "array"
    if isinstance(e, ast.Compare):
        return "array"
    if isinstance(e, ast.UnaryOp) and isinstance(e.op, ast.Invert):
        return "array"
    if isinstance(e, ast.UnaryOp) and isinstance(e.op, ast.USub):
        return _kind(e.operand, defs, loopvars, depth)
    if isinstance(e, ast.BinOp) and isinstance(e.op, (ast.BitAnd, ast.BitOr, ast.BitXor)):
        return "array"
    if isinstance(e, ast.BinOp):
        ks = {_kind(e.left, defs, loopvars, depth), _kind(e.right, defs, loopvars, depth)}
        return "array" if "array" in ks else ("basic" if ks == {"basic"} else None)
    if isinstance(e, ast.Call):
        nm = getattr(e.func, "attr", getattr(e.func, "id", ""))
        if nm in ARRAY_CALLS:
            return "array"
        if nm in ("len", "int"):
            return "basic"
        return None
    if isinstance(e, ast.Subscript):
        # a selection of an index / mask array is one again: rows[mask[rows]], nz[0]
        k = _kind(e.value, defs, loopvars, depth)
        return "array" if k == "array" and _kind(e.slice, defs, loopvars, depth) != "basic" or (k == "array" and isinstance(e.slice, ast.Constant)) else None
    if isinstance(e, ast.Name):
        if e.id in loopvars:
            return "basic"
        if depth < 3 and e.id in defs:
            ks = {_kind(v, defs, loopvars, depth + 1) for v in defs[e.id]}
            if ks == {"array"}:
                return "array"
            if ks == {"basic"}:
                return "basic"
        return None
    return None


def analyse(fn):
    """-> (number of chained stores looked at, [(node, message)])"""
    defs, loopvars = {}, set()
    for a in ast.walk(fn):
        if isinstance(a, ast.Assign) and len(a.targets) == 1 and isinstance(a.targets[0], ast.Name):
            defs.setdefault(a.targets[0].id, []).append(a.value)
        if isinstance(a, (ast.For, ast.comprehension)) and isinstance(a.iter, ast.Call) and getattr(a.iter.func, "id", "") in ("range", "enumerate"):
            t = a.target
            if isinstance(t, ast.Name):
                loopvars.add(t.id)
            elif isinstance(t, ast.Tuple) and t.elts and isinstance(t.elts[0], ast.Name) and a.iter.func.id == "enumerate":
                loopvars.add(t.elts[0].id)
    n, probs = 0, []
    for st in ast.walk(fn):
        tgts = st.targets if isinstance(st, ast.Assign) else [st.target] if isinstance(st, (ast.AugAssign, ast.AnnAssign)) else []
        for t in tgts:
            for el in (t.elts if isinstance(t, (ast.Tuple, ast.List)) else [t]):
                if not (isinstance(el, ast.Subscript) and isinstance(el.value, ast.Subscript)):
                    continue
                n += 1
                inner = el.value
                while isinstance(inner, ast.Subscript):
                    if _kind(inner.slice, defs, loopvars) == "array":
                        probs.append((el, f"`{norm(inner)}` is selected with an array index (a copy): the store into `{norm(el)}` changes the copy and is lost"))
                        break
                    inner = inner.value
    return n, probs


POSITIVE = '''
def f(B, r1, mask1):
    mask1x = ~mask1
    mask2 = (r1 != 0) & mask1x
    B[mask1x][mask2[mask1x]] -= g(r1[mask2])
    rows = np.flatnonzero(mask1)
    B[rows][0] = 1.0
    return B
'''
NEGATIVE = '''
def f(B, r1, mask1, k):
    mask2 = (r1 != 0) & ~mask1
    B[mask2] -= g(r1[mask2])
    B[:, 0][mask2] = 0.0
    B[1:3][0] = 2.0
    for i in range(3):
        B[i][mask2] = 1.0
    B[k][0] = 5.0
    rows = np.flatnonzero(mask1)
    B[rows[mask2[rows]]] = 0.0
    return B
'''


def self_check():
    p = analyse(ast.parse(POSITIVE).body[0])
    n = analyse(ast.parse(NEGATIVE).body[0])
    return len(p[1]) == 2 and not n[1] and n[0] >= 4


def run(repo, res, rule, modfilter):
    from common import AnalysisError
    if not self_check():
        raise AnalysisError(f"{rule}: the embedded positive / negative examples are no longer told apart")
    n_fn = n_sites = 0
    for m, qn, fn, cl in repo.all_functions():
        if not modfilter(m.name):
            continue
        n_fn += 1
        n, probs = analyse(fn)
        n_sites += n
        for node, msg in probs:
            res.ob(f"{rule}:{qn}:{norm(node)}", False, {"rule": rule, "function": qn, "store": norm(node)})
            res.add(Finding(rule, m.rel, qn, node, msg, node.lineno))
    res.ob(f"{rule}:scan", True, {"rule": rule, "functions_scanned": n_fn, "chained_subscript_stores": n_sites, "embedded_examples": "positive fires, negative silent"}, nontrivial=False)
    return n_sites
