"""Rule ARG-ALIGN - positional arguments of a parent-constructor call line up with the parent's parameters.

`super().__init__(position, orientation, style, **kwargs)` hands `style` to whatever the parent calls its third parameter.  When the parent
has a parameter *named like the argument* at another position (here `field_func` is third and `style` fourth), the value reaches the wrong
slot: the constructor accepts or rejects it by the rules of another attribute (Dipole(style={..}) was rejected as an attempt to edit
`field_func`).  Decided for every `super().__init__(..)` / `Base.__init__(self, ..)` call in the object classes: a positional argument that
is a plain name equal to a parameter name of the parent's `__init__` sits at that parameter's position.  Arguments whose name is not a
parameter of the parent, keyword arguments and starred arguments give no obligation.
"""
from __future__ import annotations

import ast

from common import Finding, norm


def parent_init(repo, cls):
    for c in repo.mro(cls)[1:]:
        if "__init__" in c.methods:
            return c, c.methods["__init__"]
    return None, None


def run(repo, res, rule, modfilter):
    n = 0
    for c in repo.cls_by_key.values():
        if not modfilter(c.mod.name):
            continue
        init = c.methods.get("__init__")
        if init is None:
            continue
        for call in ast.walk(init):
            if not (isinstance(call, ast.Call) and isinstance(call.func, ast.Attribute) and call.func.attr == "__init__"):
                continue
            recv = call.func.value
            args = list(call.args)
            if isinstance(recv, ast.Call) and isinstance(recv.func, ast.Name) and recv.func.id == "super":
                pc, pinit = parent_init(repo, c)
            elif isinstance(recv, ast.Name) and recv.id in repo.classes and args:
                pc = repo.classes[recv.id]
                pinit = pc.methods.get("__init__")
                args = args[1:]          # the explicit `self`
            else:
                continue
            if pinit is None:
                continue
            params = [a.arg for a in pinit.args.posonlyargs + pinit.args.args][1:]
            n += 1
            bad = []
            for k, a in enumerate(args):
                if isinstance(a, ast.Starred):
                    break
                if isinstance(a, ast.Name) and a.id in params and (k >= len(params) or params[k] != a.id):
                    bad.append((a, k, params[k] if k < len(params) else "<no such position>"))
            res.ob(f"{rule}:{c.name}.__init__ -> {pc.name}.__init__", not bad, {"rule": rule, "class": c.name, "parent": pc.name, "call": norm(call), "parent_parameters": params})
            for a, k, p in bad:
                res.add(Finding(rule, c.mod.rel, f"{c.name}.__init__", call, f"`{a.id}` is passed as positional argument {k + 1} of {pc.name}.__init__, whose parameter "
                                f"there is `{p}`; the parent has a parameter `{a.id}` at another position, so the value reaches the wrong slot", call.lineno))
    return n
