"""LIN component on top of DimDomain (prototype). lin: 'C' const wrt excitation, 'L' linear, 'A' affine, 'N' nonlinear.
masks: 'C', 'Z' (zero test of excitation), 'N'."""
import ast
from absint import *
from dimdom import *

ORDER = {"C": 0, "L": 1, "A": 2, "N": 3}

def lin_of(v):
    if isinstance(v, D): return getattr(v, "lin", "C") if not v.poly else "0"
    if isinstance(v, B): return getattr(v, "lin", "C")
    if isinstance(v, Seq):
        out = "0"
        for i in v.items: out = jl(out, lin_of(i))
        return out
    if isinstance(v, Const):
        return "0" if (is_num_const(v) and v.value == 0) else "C"
    return "C"

def jl(a, b):
    """join of alternatives / sum of terms: '0' is the zero value"""
    if a == "0": return b
    if b == "0": return a
    if "N" in (a, b): return "N"
    if a == b: return a
    if {a, b} == {"C", "L"}: return "A"
    if "A" in (a, b): return "A"
    return "N"

def ml(a, b):
    if a == "0" or b == "0": return "0"
    if "N" in (a, b): return "N"
    if a == "C": return b
    if b == "C": return a
    return "N"       # L*L, L*A, A*A

def setlin(v, l):
    if isinstance(v, D) and not v.poly:
        w = D(v.l, v.x, v.m, la=v.la, lak=v.lak, isint=v.isint); w.lin = "C" if l == "0" else l
        return w
    if isinstance(v, B):
        w = B(); w.lin = l if l in ("C", "Z", "N") else ("C" if l == "0" else "N")
        return w
    return v

NONLIN_FUNCS = {"hypot", "maximum", "minimum", "fmax", "fmin", "clip", "square", "cbrt", "reciprocal", "power", "float_power", "floor", "ceil", "rint", "trunc", "fix", "argmax", "argmin", "argsort", "abs", "fabs", "sign", "sqrt", "log", "log10", "arctan2", "norm", "prod", "det", "inv", "round", "max", "min", "amax", "amin", "sort", "unique", "ptp", "median"} | DIMLESS_FUNCS
PRODUCT_FUNCS = {"cross", "dot", "matmul", "einsum", "outer"}

class LinDimDomain(DimDomain):
    def binop(self, op, a, b, node):
        r = super().binop(op, a, b, node)
        la, lb = lin_of(a), lin_of(b)
        if isinstance(r, B):
            return setlin(r, self.masklin(la, lb))
        if isinstance(op, (ast.Add, ast.Sub)): l = jl(la, lb)
        elif isinstance(op, (ast.Mult, ast.MatMult)): l = ml(la, lb)
        elif isinstance(op, (ast.Div, ast.FloorDiv)): l = la if lb in ("C",) else ("0" if la == "0" else ("N" if lb != "0" else la))
        elif isinstance(op, ast.Pow): l = la if (la in ("C", "0") or (is_num_const(b) and b.value == 1)) else "N"
        else: l = "C" if la in ("C", "0") and lb in ("C", "0") else "N"
        return setlin(r, l)
    def masklin(self, *ls):
        ls = [("C" if x == "0" else x) for x in ls]
        if any(x not in ("C", "Z") for x in ls): return "N"
        return "Z" if "Z" in ls else "C"
    def unop(self, op, a, node):
        r = super().unop(op, a, node)
        if isinstance(r, B): return setlin(r, self.masklin(lin_of(a)))
        return setlin(r, lin_of(a))
    def compare(self, ops, vals, node):
        r = super().compare(ops, vals, node)
        if isinstance(r, B):
            ls = [lin_of(v) for v in vals]
            if all(x in ("C", "0") for x in ls): return setlin(r, "C")
            # zero test: excitation-dependent operand compared (==, !=) with zero
            if len(vals) == 2 and any(x == "0" for x in ls) and isinstance(ops[0], (ast.Eq, ast.NotEq)):
                return setlin(r, "Z")
            return setlin(r, "N")
        return r
    def call_external(self, q, args, kwargs, node):
        r = super().call_external(q, args, kwargs, node)
        base = q.split(".")[-1]
        ls = [lin_of(a) for a in args]
        if isinstance(r, B):
            return setlin(r, self.masklin(*ls) if ls else "C")
        if not isinstance(r, (D, Seq)): return r
        nz = [x for x in ls if x != "0"]
        if base in PRODUCT_FUNCS:
            ops = ls[1:] if base == "einsum" else ls
            l = "C"
            for x in ops: l = ml(l, x)
        elif base == "where" and len(args) == 3:
            c = ls[0]
            l = jl(ls[1], ls[2]) if c in ("C", "Z", "0") else "N"
        elif base in NONLIN_FUNCS or q in SPECIAL_DIMLESS:
            l = "C" if all(x in ("C", "0") for x in ls) else "N"
        elif base in ("zeros", "zeros_like", "empty", "ones", "ones_like", "arange", "full", "len"):
            l = "C"
        else:
            l = ls[0] if ls else 'C'   # structural functions: first argument carries the data
        if isinstance(r, Seq):
            return r
        return setlin(r, l)
    def method(self, recv, name, args, kwargs, node):
        r = super().method(recv, name, args, kwargs, node)
        return setlin(r, lin_of(recv)) if isinstance(r, (D, B)) else r
    def subscript(self, recv, idx_node, idx, node):
        r = super().subscript(recv, idx_node, idx, node)
        if isinstance(r, (D, B)):
            l = lin_of(recv) if not isinstance(recv, Seq) else lin_of(r)
            for i in idx:
                if isinstance(i, B) and lin_of(i) == "N": l = "N"
            return setlin(r, l)
        return r
    def store_sub(self, recv, idx_node, idx, val, node, aug=None):
        r = super().store_sub(recv, idx_node, idx, val, node, aug)
        if isinstance(r, D):
            lr, lv = lin_of(recv), lin_of(val)
            if aug is not None:
                lv = {ast.Add: jl, ast.Sub: jl, ast.Mult: ml, ast.Div: lambda a, b: a if b == "C" else "N"}.get(type(aug), lambda a, b: "N")(lr, lv)
                l = lv if lr == "0" else jl_alt(lr, lv)
            else:
                l = jl_alt(lr, lv)
            for i in idx:
                if isinstance(i, B) and lin_of(i) == "N": l = "N"
            return setlin(r, l)
        return r
    def join(self, a, b, node, silent=False):
        r = super().join(a, b, node, silent)
        if isinstance(r, (D, B)):
            return setlin(r, jl_alt(lin_of(a), lin_of(b)))
        return r

def jl_alt(a, b):
    """join of two alternatives for the same array (rows from either): zero rows are compatible with L"""
    if a == "0": return b
    if b == "0": return a
    if a == b: return a
    if "N" in (a, b): return "N"
    return "A"
