"""LAYOUT domain: which index sets make up each array axis, and in which (major -> minor) order.

The level-2 plumbing of magpylib builds every batch row index as a mixed-radix number over a few index sets (sources of a group G,
path index M, pixels P = sum over sensors of Ps, ...) using np.tile / np.repeat / reshape / concatenate, and later splits it again
with reshape.  Whether two arrays that are paired row by row (position / orientation / observers / per-source parameters handed to
one field function; a stack of sensor rotations applied to a block of field vectors) enumerate these index sets in the *same order*
is a fact about the composition of these calls, not about runtime sizes.  This domain tracks, for every array axis, the ordered
tuple of index-set names ("atoms") whose product it is:

    Arr(((G, M, P), (#3,)))      axis 0 enumerates G (slowest), then M, then P (fastest); axis 1 is a literal 3
    Sz((M, P))                   an integer that is the size of such a product (len(), n_pp, ...)
    RotL((S, M, Ps))             a stack of rotations enumerated the same way

Transfer functions follow NumPy's definitions: tile puts the repetition index on the major side of an axis, repeat on the minor
side, reshape re-splits the flattened factor sequence and is only well defined if every requested dimension is a contiguous run of
that sequence, concatenating per-sensor blocks Ps over the sensors gives P.
Judged sites ("obligations"): rotation.apply(array), array +/- array, reshape/split against a layout, stores of a block into an
array, and the keyword arguments handed to getBH_level1 / the field function (all must share axis 0).
"""
from __future__ import annotations

import ast

from absint import *   # noqa


class Sz(V):
    def __init__(self, f):
        self.f = tuple(f)

    def __repr__(self):
        return "Sz(" + "*".join(self.f) + ")"


class Arr(V):
    def __init__(self, axes):
        self.axes = tuple(tuple(a) for a in axes)

    def __repr__(self):
        return "Arr[" + ", ".join("*".join(a) if a else "1" for a in self.axes) + "]"


class RotL(V):
    def __init__(self, f):
        self.f = tuple(f)

    def __repr__(self):
        return "Rot[" + "*".join(self.f) + "]"


class ObjList(V):
    def __init__(self, atom):
        self.atom = atom

    def __repr__(self):
        return f"ObjList({self.atom})"


class Obj(V):
    def __init__(self, atom):
        self.atom = atom

    def __repr__(self):
        return f"Obj({self.atom})"


class ListOf(V):
    """python list indexed by `atom` whose elements all have the abstract value `elem`"""
    def __init__(self, atom, elem):
        self.atom, self.elem = atom, elem

    def __repr__(self):
        return f"ListOf({self.atom}, {self.elem})"


class IndexOf(V):
    def __init__(self, atom):
        self.atom = atom

    def __repr__(self):
        return f"Index({self.atom})"


class PixShape(V):
    def __repr__(self):
        return "PixShape"


class CumIdx(V):
    """cumulative offsets of the per-sensor blocks Ps inside P"""
    def __init__(self, kind="all"):
        self.kind = kind      # all | point | inner

    def __repr__(self):
        return f"CumIdx({self.kind})"


class SliceV(V):
    def __init__(self, part):
        self.part = part

    def __repr__(self):
        return f"Slice({self.part})"


class DF(V):
    """pandas DataFrame whose rows enumerate the given factors"""
    def __init__(self, rows):
        self.rows = tuple(rows)

    def __repr__(self):
        return "DF[" + "*".join(self.rows) + "]"


def same_rows(f, g):
    """factor lists agree position by position; an unknown atom matches any single atom"""
    f, g = [x for x in f if x != "#1"], [x for x in g if x != "#1"]
    return len(f) == len(g) and all(x == y or x.startswith("?") or y.startswith("?") for x, y in zip(f, g))


class ZipV(V):
    def __init__(self, parts):
        self.parts = parts


class EnumV(V):
    def __init__(self, inner):
        self.inner = inner


U = Unknown
LIT = lambda n: ("#%d" % n,)   # noqa


def flat(axes):
    out = []
    for a in axes:
        out += [x for x in a if x != "#1"]
    return out


def groupify(v):
    """the value stored under a computed key of a dict that was filled in a loop over X: lists that received the loop's elements
    enumerate a group G of X, lists that received the loop's positions hold G's positions inside X"""
    if isinstance(v, Seq) and v.kind == "py" and v.items:
        if all(isinstance(x, Obj) for x in v.items): return ObjList("G")
        if all(isinstance(x, IndexOf) for x in v.items): return ListOf("G", IndexOf(v.items[0].atom))
        return Seq([groupify(x) for x in v.items], "py")
    if isinstance(v, Const) and isinstance(v.value, dict):
        return Const({k: groupify(x) for k, x in v.value.items()})
    return v


def unknownish(f):
    return any(x.startswith("?") for x in f)


def dim_factors(v):
    """factors requested by one entry of a shape tuple; None = wildcard (-1 / unknown)"""
    if isinstance(v, Sz):
        return list(v.f)
    if isinstance(v, Const) and isinstance(v.value, int):
        if v.value == -1:
            return None
        if v.value == 1:
            return []
        return list(LIT(v.value))
    return None


class LayoutDomain:
    def __init__(self):
        self.findings, self.interp = [], None
        self.judged = {}
        self.flist = []
        self.repo_summaries = {}

    # ---------------------------------------------------------------- reporting
    def report(self, kind, node, msg):
        fn = self.interp.callstack[-1] if self.interp.callstack else "?"
        key = (kind, fn, getattr(node, "lineno", 0), msg)
        if key not in {(k, f, getattr(n, "lineno", 0), m) for k, f, n, m in self.flist}:
            self.flist.append((kind, fn, node, msg))

    def log(self, kind, node):
        t = ast.unparse(node)
        self.judged[id(node)] = (kind, " ".join(t.split())[:120])

    def enter_function(self, f, bound, node): pass
    def exit_function(self, f, out, node): return out

    def builtin(self, name, node):
        if name in ("True", "False", "None"):
            return Const({"True": True, "False": False, "None": None}[name])
        return ExtName("builtins." + name)

    def external_name(self, q, node): return ExtName(q)
    def lit(self, value, node): return Const(value)

    def make_seq(self, items, node):
        return Seq(items, "py")

    def abstract_seq(self, elem, node):
        return ListOf(getattr(self, "_iter_atoms", {}).get(id(node), "?"), elem)

    def join(self, a, b, node, silent=False):
        if repr(a) == repr(b):
            return a
        if isinstance(a, Const) and a.value is None:
            return b
        if isinstance(b, Const) and b.value is None:
            return a
        if isinstance(a, Const) and isinstance(b, Const) and isinstance(a.value, dict) and isinstance(b.value, dict):
            d = dict(a.value)
            for k, v in b.value.items():
                d[k] = self.join(d[k], v, node, silent) if k in d else v
            return Const(d)
        if isinstance(a, Arr) and isinstance(b, Arr) and len(a.axes) == len(b.axes):
            ax = []
            for x, y in zip(a.axes, b.axes):
                if x == y: ax.append(x)
                elif x in ((), ("#1",)): ax.append(y)
                elif y in ((), ("#1",)): ax.append(x)
                elif unknownish(x) or unknownish(y): ax.append(("?",))
                else: return U("join")
            return Arr(ax)
        if isinstance(a, RotL) and isinstance(b, RotL):
            if not a.f: return b
            if not b.f: return a
        # integer scalars (a running row offset: `k = 0 ... k += n`): some integer, still a scalar index
        def _int(v): return isinstance(v, Sz) or (isinstance(v, Const) and isinstance(v.value, int) and not isinstance(v.value, bool))
        if _int(a) and _int(b): return Sz(("?int",))
        # a value that is unknown on one path keeps the layout known from the other path (only definite mismatches are reported)
        if isinstance(a, Unknown) and isinstance(b, (Arr, RotL, Sz, DF)): return b
        if isinstance(b, Unknown) and isinstance(a, (Arr, RotL, Sz, DF)): return a
        return U("join")

    def truth(self, v):
        if isinstance(v, Const):
            try: return bool(v.value)
            except Exception: return None
        return None

    def unpack(self, v, n, node):
        if isinstance(v, Seq) and len(v.items) == n:
            return list(v.items)
        if isinstance(v, Arr) and len(v.axes) >= 1:
            return [Arr(v.axes[1:])] * n
        return [U("unpack")] * n

    def iter_elems(self, v, node):
        atom = "?"
        out = U("iter")
        if isinstance(v, ObjList): atom, out = v.atom, Obj(v.atom)
        elif isinstance(v, ListOf): atom, out = v.atom, v.elem
        elif isinstance(v, Arr) and v.axes: atom, out = "*".join(v.axes[0]), Arr(v.axes[1:])
        elif isinstance(v, RotL): atom, out = "*".join(v.f), RotL(())
        elif isinstance(v, CumIdx): atom, out = "?", CumIdx("point")          # zip(.., offsets[:-1], offsets[1:]): one block boundary per step
        elif isinstance(v, ZipV):
            parts = [self.iter_elems(p, node) for p in v.parts]
            atoms = [getattr(self, "_last_iter_atom", "?")]
            # all zipped parts enumerate the same index set: remember the first known one
            for p in v.parts:
                self.iter_elems(p, node)
                if self._last_iter_atom != "?":
                    atoms = [self._last_iter_atom]; break
            atom, out = atoms[0], Seq([p if not isinstance(p, list) else U() for p in parts], "py")
        elif isinstance(v, EnumV):
            inner = self.iter_elems(v.inner, node)
            atom = self._last_iter_atom
            out = Seq([IndexOf(atom), inner if not isinstance(inner, list) else U()], "py")
        elif isinstance(v, Sz):          # range(Sz)
            atom, out = "*".join(v.f), IndexOf("*".join(v.f))
        elif isinstance(v, PixShape):
            self._last_iter_atom = "?"
            return [Sz(("Ps",)), Const(3)]       # a sensor's pixel grid, merged into one axis, and the vector components
        elif isinstance(v, Seq) and v.kind == "py":
            self._last_iter_atom = "?"
            return list(v.items)
        elif isinstance(v, Const) and isinstance(v.value, (tuple, list, str)):
            self._last_iter_atom = "?"
            return [Const(x) for x in v.value]
        self._last_iter_atom = atom
        if not hasattr(self, "_iter_atoms"): self._iter_atoms = {}
        self._iter_atoms[id(node)] = atom
        return out

    # ---------------------------------------------------------------- operators
    def binop(self, op, a, b, node):
        if isinstance(a, Const) and isinstance(b, Const):
            try:
                if isinstance(op, ast.Add): return Const(a.value + b.value)
                if isinstance(op, ast.Sub): return Const(a.value - b.value)
                if isinstance(op, ast.Mult): return Const(a.value * b.value)
            except Exception:
                pass
            return U("const")
        if isinstance(a, Sz) and isinstance(b, Sz):
            if isinstance(op, ast.Mult): return Sz(a.f + b.f)
            if isinstance(op, (ast.Div, ast.FloorDiv)):
                f = list(a.f)
                for x in b.f:
                    if x in f: f.remove(x)
                    else: return Sz(("?div",))
                return Sz(f)
            return Sz(("?" + type(op).__name__,))
        if isinstance(a, Sz) and isinstance(b, Const) and isinstance(op, ast.Mult) and b.value == 1: return a
        if isinstance(a, (Sz,)) or isinstance(b, (Sz,)):
            return Sz(("?arith",))
        if isinstance(a, (IndexOf, CumIdx)) and isinstance(op, (ast.Add, ast.Sub)) and not isinstance(b, (Arr, RotL, ObjList, ListOf)): return a
        if isinstance(b, IndexOf) and isinstance(op, ast.Add) and not isinstance(a, (Arr, RotL, ObjList, ListOf)): return b
        if isinstance(a, Seq) and isinstance(b, ListOf) and isinstance(op, ast.Add): return b     # [0] + pix_nums
        if isinstance(a, ObjList) and isinstance(b, ObjList) and isinstance(op, ast.Add): return ObjList("OBJ")
        if isinstance(a, Arr) and isinstance(b, Arr):
            return self.broadcast(a, b, node)
        if isinstance(a, Arr) and not isinstance(b, (RotL, ObjList, ListOf)): return a
        if isinstance(b, Arr) and not isinstance(a, (RotL, ObjList, ListOf)): return b
        return U("binop")

    def broadcast(self, a, b, node):
        self.log("pair", node)
        n = max(len(a.axes), len(b.axes))
        xa = [()] * (n - len(a.axes)) + list(a.axes)
        xb = [()] * (n - len(b.axes)) + list(b.axes)
        out = []
        for x, y in zip(xa, xb):
            if x == y or y in ((), ("#1",)): out.append(x)
            elif x in ((), ("#1",)): out.append(y)
            elif same_rows(x, y): out.append(x if unknownish(x) else y)       # an axis that was not followed stays unknown
            else:
                self.report("pair", node, f"elementwise operation pairs axes enumerated differently: {a} with {b}")
                out.append(x)
        return Arr(out)

    def unop(self, op, a, node):
        if isinstance(op, ast.Not) and isinstance(a, Const): return Const(not a.value)
        if isinstance(op, ast.USub) and isinstance(a, Const) and isinstance(a.value, (int, float)): return Const(-a.value)
        if isinstance(a, Arr): return a
        return U("unop")

    def compare(self, ops, vals, node):
        a, b = vals[0], vals[1]
        if isinstance(ops[0], (ast.Is, ast.IsNot)) and isinstance(b, Const) and b.value is None:
            if isinstance(a, Const): return Const((a.value is None) == isinstance(ops[0], ast.Is))
            if isinstance(a, (Arr, RotL, Sz, ObjList, ListOf)): return Const(isinstance(ops[0], ast.IsNot))
        if isinstance(a, Const) and isinstance(b, Const) and isinstance(ops[0], ast.Eq):
            return Const(a.value == b.value)
        return U("cmp")

    def boolop(self, op, vals, node):
        if all(isinstance(v, Const) for v in vals):
            r = vals[0].value
            for v in vals[1:]: r = (r and v.value) if isinstance(op, ast.And) else (r or v.value)
            return Const(r)
        return U("bool")

    # ---------------------------------------------------------------- attributes / subscripts
    PATH = "M"

    def attr(self, recv, name, node):
        if name == "newaxis" and isinstance(recv, (ModRef, ExtName)): return Const(None)
        if isinstance(recv, ModRef): return ExtName(f"{recv.name}.{name}")
        if isinstance(recv, ExtName): return ExtName(f"{recv.q}.{name}")
        if isinstance(recv, Obj):
            if name in ("_position", "position"): return Arr(((self.PATH,), LIT(3)))
            if name in ("_orientation", "orientation"): return RotL((self.PATH,))
            if name in ("pixel", "_pixel"): return Arr((("Ps",), LIT(3)))
            if name.startswith("_") and name not in ("_field_func_kwargs_ndim", "_field_func", "_parent", "_children", "_style"):
                return Arr((("??attr",),))        # an array-valued private attribute this table does not know: unknown layout (never a claim)
            return U("attr")
        if isinstance(recv, Arr) and name == "T": return Arr(tuple(reversed(recv.axes)))
        if isinstance(recv, Arr) and name == "shape": return Seq([Sz(tuple(a)) for a in recv.axes], "py")
        return U("attr " + name)

    def store_attr(self, recv, name, val, tnode, node):
        pass

    def _sub_axis(self, axis, it):
        """axis after applying one index item; None = axis dropped"""
        if isinstance(it, tuple) and it and it[0] == "slice":
            lo, hi = it[1], it[2]
            if isinstance(lo, CumIdx) or isinstance(hi, CumIdx): return ("Ps",) if axis == ("P",) else ("?sub",)
            return axis
        if isinstance(it, SliceV): return (it.part,) if axis == ("P",) else ("?sub",)
        if isinstance(it, (IndexOf, Sz)) or (isinstance(it, Const) and isinstance(it.value, int)): return None
        if isinstance(it, Const) and it.value is None: return ("#1",)
        if isinstance(it, ListOf) and isinstance(it.elem, IndexOf):
            # fancy index with the positions a sub-list holds inside this axis: the selected rows enumerate the sub-list
            return (it.atom,) if axis == (it.elem.atom,) else ("?fancy",)
        if isinstance(it, Seq): return ("?fancy",)
        if isinstance(it, Arr): return ("?mask",)
        return ("?idx",)

    def subscript(self, recv, idx_node, idx, node):
        if isinstance(recv, Arr):
            items = list(idx)
            # Ellipsis: align the remaining items to the right
            ell = [i for i, it in enumerate(items) if isinstance(it, Const) and it.value is Ellipsis]
            axes = list(recv.axes)
            if ell:
                k = ell[0]
                left, right = items[:k], items[k + 1:]
                nmid = len(axes) - len(left) - len(right)
                items = left + [("slice", None, None, None)] * max(nmid, 0) + right
            out, i = [], 0
            for it in items:
                if isinstance(it, Const) and it.value is None:
                    out.append(("#1",)); continue
                if i >= len(axes): break
                r = self._sub_axis(axes[i], it)
                if r is not None: out.append(r)
                i += 1
            out += axes[i:]
            return Arr(out)
        if isinstance(recv, RotL):
            it = idx[0]
            if isinstance(it, tuple): return recv
            return RotL(())
        if isinstance(recv, ListOf):
            it = idx[0]
            if isinstance(it, tuple): return recv
            return recv.elem
        if isinstance(recv, ObjList):
            return recv if isinstance(idx[0], tuple) else Obj(recv.atom)
        if isinstance(recv, PixShape): return PixShape()
        if isinstance(recv, CumIdx):
            if isinstance(idx[0], tuple): return CumIdx("inner")
            return CumIdx("point")
        if isinstance(recv, Seq) and recv.kind == "py" and isinstance(idx[0], Const) and isinstance(idx[0].value, int) and -len(recv.items) <= idx[0].value < len(recv.items):
            return recv.items[idx[0].value]
        if isinstance(recv, Seq) and recv.kind == "py" and isinstance(idx[0], tuple) and idx[0] and idx[0][0] == "slice":
            # `B.shape[1:]`: a literal slice of a python sequence
            def _b(v): return v.value if isinstance(v, Const) and (v.value is None or isinstance(v.value, int)) else (None if v is None else "?")
            lo, hi, st = (_b(v) for v in (idx[0] + (None, None, None))[1:4])
            if "?" not in (lo, hi, st):
                return Seq(list(recv.items[slice(lo, hi, st)]), "py")
        if isinstance(recv, Const) and isinstance(recv.value, dict) and isinstance(idx[0], Const) and idx[0].value in recv.value:
            return recv.value[idx[0].value]
        if isinstance(recv, Const) and isinstance(recv.value, dict) and not isinstance(idx[0], (Const, tuple)) and "*" in recv.value:
            return recv.value["*"]            # the entry under a computed key (one abstract entry stands for all of them)
        if isinstance(recv, ExtName) and recv.q.endswith("np.s_"):
            it = idx[0]
            return SliceV("?") if isinstance(it, tuple) else U("s_")
        return U("sub")

    def store_sub(self, recv, idx_node, idx, val, node, aug=None):
        if isinstance(recv, Const) and isinstance(recv.value, dict):
            k = idx[0]
            d = dict(recv.value)
            if isinstance(k, Const): d[k.value] = val
            else: d.setdefault("*", val)
            return Const(d)
        if isinstance(recv, DF) and isinstance(val, Arr) and val.axes:
            self.log("dataframe", node)
            if not same_rows(recv.rows, val.axes[0]):
                self.report("dataframe", node, f"the index columns enumerate {'*'.join(recv.rows)} but the values written next to them enumerate {'*'.join(val.axes[0])}: "
                            "field values are attached to the wrong source/path/sensor/pixel labels")
            return recv
        if isinstance(recv, Arr) and isinstance(val, Arr):
            tgt = self.subscript(recv, idx_node, idx, node)
            if isinstance(tgt, Arr):
                self.log("store", node)
                ta, va = [a for a in tgt.axes if a not in ((), ("#1",))], [a for a in val.axes if a not in ((), ("#1",))]
                if aug is None and not any(a in (("?idx",), ("?fancy",), ("?mask",)) for a in ta) and \
                        (len(ta) != len(va) or not all(same_rows(x, y) for x, y in zip(ta, va))):
                    self.report("store", node, f"a block enumerated as {val} is written into a slot enumerated as {tgt}")
        return recv

    # ---------------------------------------------------------------- reshape
    def reshape(self, arr, dims, node):
        """dims: list of factor lists / None (wildcard); a trailing Opaque marks 'rest unknown'"""
        self.log("reshape", node)
        F = flat(arr.axes)
        # the concatenation of the sensors' pixel blocks may be re-split as (sensor, pixel of that sensor) when all blocks are alike
        if any(x.startswith("??") for x in F):
            # a factor of unknown *structure* (an array whose rank / composition was not followed): the result is unknown where it matters
            return Arr([tuple(d) if d is not None else ("??",) for d in dims])
        want = [x for d in dims if d for x in d]
        if "P" in F and "P" not in want and "SENS" in want and "Ps" in want:
            k = F.index("P")
            F = F[:k] + ["SENS", "Ps"] + F[k + 1:]
        left, right = [], []
        i, j = 0, len(dims) - 1
        Fl = list(F)
        bad = None
        # match from the right up to the first wildcard
        while j >= 0 and dims[j] is not None:
            d = dims[j]
            if d and not same_rows(Fl[len(Fl) - len(d):], d): bad = (j, d); break
            Fl = Fl[: len(Fl) - len(d)] if d else Fl
            right.insert(0, tuple(d) if d else ("#1",))
            j -= 1
        if bad is None:
            while i <= j and dims[i] is not None:
                d = dims[i]
                if d and not same_rows(Fl[: len(d)], d): bad = (i, d); break
                Fl = Fl[len(d):] if d else Fl
                left.append(tuple(d) if d else ("#1",))
                i += 1
        if bad is not None and (unknownish(F) or any(unknownish(d) for d in dims if d)):
            # a size or factor that was not followed takes part: nothing is claimed about this reshape
            return Arr([tuple(d) if d is not None else ("?",) for d in dims])
        if bad is not None:
            self.report("reshape", node, f"reshape of {arr} (row index enumerated as {'*'.join(F)}) into a dimension '{'*'.join(bad[1])}' at position {bad[0]}: "
                        f"that dimension is not the matching run of the flattened index, so entries are re-paired across {'/'.join(F)}")
            return Arr([tuple(d) if d is not None else ("?",) for d in dims])
        nw = j - i + 1
        if nw <= 0:
            if Fl:
                self.report("reshape", node, f"reshape of {arr}: the requested dimensions do not cover the factors {'*'.join(Fl)}")
            mid = []
        elif nw == 1:
            mid = [tuple(Fl)]
        else:
            mid = [("?",)] * nw
        return Arr(left + mid + right)

    def _dims_from(self, shape):
        if isinstance(shape, Seq):
            out = []
            for it in shape.items:
                out.append(dim_factors(it))
            return out
        if isinstance(shape, Const) and isinstance(shape.value, tuple):
            return [dim_factors(Const(x)) for x in shape.value]
        if isinstance(shape, (Sz, Const)):
            return [dim_factors(shape)]
        return None

    # ---------------------------------------------------------------- methods
    def method(self, recv, name, args, kwargs, node):
        if isinstance(recv, Arr):
            if name == "reshape":
                if len(args) == 1 and not isinstance(args[0], (Seq, Sz, Const)): return U("reshape to an unknown shape")
                shape = args[0] if len(args) == 1 and isinstance(args[0], (Seq,)) else Seq(args, "py")
                dims = self._dims_from(shape)
                if dims is None: return U("reshape")
                return self.reshape(recv, dims, node)
            if name in ("copy", "astype"): return recv
            if name == "sum": return self._reduce(recv, args, kwargs)
            return U("method " + name)
        if isinstance(recv, RotL):
            if name == "inv": return recv
            if name == "as_quat": return Arr((recv.f, LIT(4)))
            if name == "apply" and args:
                x = args[0]
                if isinstance(x, Arr):
                    self.log("pair", node)
                    a0 = x.axes[0] if len(x.axes) >= 2 else ()
                    if recv.f and a0 not in ((), ("#1",)) and not same_rows(a0, recv.f):
                        self.report("pair", node, f"a rotation stack enumerated as {recv} is applied to vectors enumerated as {x}: row r of one is paired with another row of the other")
                    f = recv.f if recv.f else a0
                    return Arr((tuple(f), LIT(3)) if len(x.axes) >= 2 or recv.f else x.axes)
                return U("apply")
            return U("rot." + name)
        if isinstance(recv, Const) and isinstance(recv.value, dict):
            if name == "items":
                if "*" in recv.value:
                    if set(recv.value) == {"*"}: return ListOf("GROUPS", Seq([U("key"), groupify(recv.value["*"])], "py"))
                    return U("items of a dict with computed keys")
                return Seq([Seq([Const(k), v], "py") for k, v in recv.value.items()], "py")
            if name == "values":
                if set(recv.value) == {"*"}: return ListOf("GROUPS", groupify(recv.value["*"]))
                return Seq(list(recv.value.values()), "py")
            if name == "setdefault" and len(args) == 2:
                k = args[0].value if isinstance(args[0], Const) else "*"
                return recv.value.setdefault(k, args[1])
            if name in ("pop", "get"): return U("dict." + name)
            if name == "update" and len(args) == 1 and isinstance(args[0], Const) and isinstance(args[0].value, dict) and not kwargs:
                for k, v in args[0].value.items():          # in-place: the dict object is shared with every alias of recv
                    if k == "*": recv.value.setdefault("*", v)
                    else: recv.value[k] = v
                return Const(None)
        if isinstance(recv, (ListOf,)) and name in ("append", "extend"): return Const(None)
        if isinstance(recv, Seq) and recv.kind == "py" and name in ("append", "extend") and args:
            if not (name == "extend" and not isinstance(args[0], Seq)):
                recv.items.extend(args[0].items if name == "extend" else [args[0]])
            return Const(None)
        return U("method " + name)

    def _reduce(self, a, args, kwargs):
        ax = kwargs.get("axis", args[0] if args else None)
        keep = kwargs.get("keepdims")
        if isinstance(ax, Const) and isinstance(ax.value, int) and -len(a.axes) <= ax.value < len(a.axes):
            axes = list(a.axes)
            k = ax.value % len(axes)
            if isinstance(keep, Const) and keep.value: axes[k] = ("#1",)
            else: axes.pop(k)
            return Arr(axes)
        return U("reduce")

    # ---------------------------------------------------------------- external calls
    def call_external(self, q, args, kwargs, node):
        base = q.split(".")[-1]
        a0 = args[0] if args else None
        if base in ("array", "asarray", "asanyarray"):
            return self._to_array(a0)
        if base == "len":
            if isinstance(a0, Arr) and a0.axes: return Sz(a0.axes[0])
            if isinstance(a0, (ObjList, ListOf)): return Sz((a0.atom,))
            if isinstance(a0, RotL): return Sz(a0.f)
            return Sz(("?len",))
        if base in ("int", "float"): return a0 if isinstance(a0, (Sz, Const)) else U(base)
        if base == "max" and isinstance(a0, ListOf) and isinstance(a0.elem, Sz): return a0.elem
        if base == "set": return a0 if isinstance(a0, (ObjList, ListOf)) else U("set")
        if base == "zip": return ZipV(list(args))
        if base == "enumerate": return EnumV(a0)
        if base == "range": return a0 if isinstance(a0, Sz) else U("range")
        if base in ("list", "tuple") and a0 is not None: return a0
        if base == "slice" and len(args) == 2:
            return SliceV("Ps") if any(isinstance(x, CumIdx) for x in args) else SliceV("?")
        if base == "prod":
            if isinstance(a0, PixShape): return Sz(("Ps",))
            return Sz(("?prod",))
        if base == "cumsum":
            if isinstance(a0, ListOf) and isinstance(a0.elem, Sz) and a0.elem.f == ("Ps",): return CumIdx()
            return U("cumsum")
        if base == "tile" and isinstance(a0, Arr) and len(args) >= 2:
            return self._tile(a0, args[1])
        if base == "repeat" and isinstance(a0, Arr) and len(args) >= 2:
            ax = kwargs.get("axis", args[2] if len(args) > 2 else None)
            n = args[1]
            f = tuple(n.f) if isinstance(n, Sz) else (LIT(n.value) if isinstance(n, Const) and isinstance(n.value, int) else ("?rep",))
            if isinstance(ax, Const) and isinstance(ax.value, int):
                axes = list(a0.axes)
                k = ax.value % len(axes)
                axes[k] = tuple(axes[k]) + tuple(f)
                return Arr(axes)
            return Arr((tuple(flat(a0.axes)) + tuple(f),))
        if base == "reshape" and isinstance(a0, Arr) and len(args) >= 2:
            dims = self._dims_from(args[1])
            return self.reshape(a0, dims, node) if dims is not None else U("reshape")
        if base == "concatenate":
            ax = kwargs.get("axis", args[1] if len(args) > 1 else Const(0))
            k = ax.value if isinstance(ax, Const) and isinstance(ax.value, int) else 0
            if isinstance(a0, ListOf) and isinstance(a0.elem, (Arr, ListOf)):
                el = self._to_array(a0.elem) if isinstance(a0.elem, ListOf) else a0.elem
                if isinstance(el, Arr) and el.axes:
                    axes = list(el.axes)
                    kk = k % len(axes)
                    axes[kk] = ("P",) if (a0.atom == "SENS" and axes[kk] == ("Ps",)) else (("??Σ",) if unknownish(axes[kk]) else ("Σ" + a0.atom + "." + "*".join(axes[kk]),))
                    return Arr(axes)
            if isinstance(a0, Seq) and a0.items and all(isinstance(x, Arr) for x in a0.items):
                axes = list(a0.items[0].axes)
                kk = k % len(axes)
                same = all(x.axes[kk] == axes[kk] for x in a0.items if len(x.axes) == len(axes))
                axes[kk] = axes[kk] if False and same else ("?cat",)
                return Arr(axes)
            return U("concatenate")
        if base in ("empty", "zeros", "ones") and a0 is not None:
            dims = self._dims_from(a0)
            return Arr([tuple(d) if d is not None else ("?",) for d in dims]) if dims is not None else U(base)
        if base in ("sum", "mean") and isinstance(a0, Arr):
            return self._reduce(a0, args[1:], kwargs)
        if base == "expand_dims" and isinstance(a0, Arr):
            ax = kwargs.get("axis", args[1] if len(args) > 1 else None)
            if isinstance(ax, Const) and isinstance(ax.value, int):
                axes = list(a0.axes)
                k = ax.value if ax.value >= 0 else len(axes) + 1 + ax.value
                axes.insert(k, ("#1",))
                return Arr(axes)
            return U("expand_dims")
        if base == "split" and isinstance(a0, Arr) and len(args) >= 2:
            ax = kwargs.get("axis", args[2] if len(args) > 2 else Const(0))
            self.log("split", node)
            if isinstance(ax, Const) and isinstance(ax.value, int) and isinstance(args[1], CumIdx):
                axes = list(a0.axes)
                k = ax.value % len(axes)
                if axes[k] != ("P",) and not unknownish(axes[k]):
                    self.report("split", node, f"the per-sensor pixel offsets split axis {k} of {a0}, which enumerates {'*'.join(axes[k])}, not the pixels")
                axes[k] = ("Ps",)
                return ListOf("SENS", Arr(axes))
            return U("split")
        if base == "reduceat" and isinstance(a0, Arr):
            ax = kwargs.get("axis", args[2] if len(args) > 2 else Const(0))
            axes = list(a0.axes)
            if isinstance(ax, Const) and isinstance(ax.value, int) and axes:
                axes[ax.value % len(axes)] = ("?red",)
                return Arr(axes)
            return U("reduceat")
        if base == "delete" and isinstance(a0, Arr):
            axes = list(a0.axes)
            if axes: axes[0] = ("?del",)
            return Arr(axes)
        if base == "from_quat" and isinstance(a0, Arr):
            if len(a0.axes) >= 2: return RotL(a0.axes[0])
            return RotL(())
        if base == "getattr" and isinstance(a0, Obj):
            n = args[1] if len(args) > 1 else None
            if isinstance(n, Const) and isinstance(n.value, str): return self.attr(a0, n.value, node)
            return Arr((("??attr",),))
        if base == "product":
            fs = []
            for x in args:
                if isinstance(x, (ListOf, ObjList)): fs.append(x.atom)
                elif isinstance(x, Sz): fs += list(x.f)
                else: fs.append("?")
            self.log("product", node)
            return ListOf("*".join(fs), U("row"))
        if base == "DataFrame":
            data = kwargs.get("data", a0)
            if isinstance(data, ListOf): return DF(data.atom.split("*"))
            return U("DataFrame")
        if base == "FIELD_FUNC" or q == "FIELD_FUNC":
            return self.contract("field function", kwargs, node)
        if base in ("squeeze",): return U("squeeze")
        if base in ("isscalar", "isinstance", "hasattr", "any", "all", "callable"): return U(base)
        return U("ext " + base)

    def _to_array(self, v):
        if isinstance(v, Arr): return v
        if isinstance(v, ListOf):
            inner = self._to_array(v.elem)
            if isinstance(inner, Arr): return Arr(((v.atom,),) + inner.axes)
            if isinstance(v.elem, (Sz, Const, IndexOf)): return Arr(((v.atom,),))
            return Arr(((v.atom,), ("?",)))
        if isinstance(v, Seq) and v.kind == "py":
            if all(isinstance(i, Const) for i in v.items): return Arr((LIT(len(v.items)),))
            inner = [self._to_array(i) for i in v.items]
            if inner and all(isinstance(i, Arr) for i in inner): return Arr((LIT(len(v.items)),) + inner[0].axes)
        if isinstance(v, Const) and isinstance(v.value, (tuple, list)):
            return Arr((LIT(len(v.value)),))
        return U("array")

    def _tile(self, a, reps):
        def fac(r):
            if isinstance(r, Sz): return tuple(r.f)
            if isinstance(r, Const) and isinstance(r.value, int): return () if r.value == 1 else LIT(r.value)
            return ("?rep",)
        axes = list(a.axes)
        if isinstance(reps, Seq):
            rs = [fac(r) for r in reps.items]
            while len(axes) < len(rs): axes.insert(0, ())
            rs = [()] * (len(axes) - len(rs)) + rs
            return Arr([tuple(r) + tuple(x) for r, x in zip(rs, axes)])
        f = fac(reps)
        axes[-1] = tuple(f) + tuple(axes[-1])
        return Arr(axes)

    def contract(self, what, kwargs, node):
        """all array / rotation keyword values handed to one vectorised computation share axis 0"""
        self.log("contract", node)
        rows = {}
        for k, v in kwargs.items():
            if isinstance(v, Arr) and v.axes: rows[k] = tuple(v.axes[0])
            elif isinstance(v, RotL) and v.f: rows[k] = tuple(v.f)
        known = {k: f for k, f in rows.items() if not unknownish(f)}
        ref = None
        for k in ("observers", "position"):
            if k in known: ref = known[k]; break
        if ref is None and known: ref = sorted(known.values(), key=lambda f: -len(f))[0]
        for k, f in known.items():
            if f != ref:
                self.report("contract", node, f"{what}: `{k}` is enumerated as {'*'.join(f)} but the observers as {'*'.join(ref)}: row r of `{k}` belongs to another "
                            "source / path index / pixel than row r of the observers")
        self.last_contract = dict(rows)
        return Arr((ref or ("?",), LIT(3)))
