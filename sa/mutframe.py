import subprocess, sys
W="magpylib/_src/fields/field_wrap_BH.py"; T="magpylib/_src/obj_classes/class_BaseTransform.py"
MUTS=[
 ("M1 forward instead of inverse", W, "orientation.apply(observers - position, inverse=True)", "orientation.apply(observers - position)"),
 ("M2 rotate before translate", W, "orientation.apply(observers - position, inverse=True)", "orientation.apply(observers, inverse=True) - position"),
 ("M3 sensor forward rotation", W, "sens_orient.inv().apply(Bpart_flat)", "sens_orient.apply(Bpart_flat)"),
 ("M4 pixel inverse rotation", W, "else r.apply(sens.pixel.reshape(-1, 3))", "else r.inv().apply(sens.pixel.reshape(-1, 3))"),
 ("M5 compose on the right", T, "(rotation * oldrot).as_quat()", "(oldrot * rotation).as_quat()"),
 ("M6 no anchor subtraction", T, "        ppath[newstart:end] -= anchor\n", ""),
 ("M7 field back with inverse", W, "BH = orientation.apply(BH)", "BH = orientation.apply(BH, inverse=True)"),
 ("T1 twin inv().apply", W, "orientation.apply(observers - position, inverse=True)", "orientation.inv().apply(observers - position)"),
 ("T2 twin temp variable", W, "pos_rel_rot = orientation.apply(observers - position, inverse=True)", "rel = observers - position\n    pos_rel_rot = orientation.apply(rel, inverse=True)"),
]
for name, path, old, new in MUTS:
    full="/root/scratch/mut/"+path; src=open(full).read()
    assert src.count(old)>=1,(name)
    open(full,"w").write(src.replace(old,new,1))
    out=subprocess.run([sys.executable,"run_frame.py"],capture_output=True,text=True,env={"DIMROOT":"/root/scratch/mut"}).stdout
    f=[l.strip() for l in out.splitlines() if l.strip().startswith("[")]
    ret=[l for l in out.splitlines() if l.startswith("declared return")]
    bad_ret = ret and "Vec[G]" not in ret[0].split(":",1)[1]
    print(f"--- {name}: {'FIRES' if f or bad_ret else 'silent'}")
    for l in f[:2]: print("      ",l[:170])
    if bad_ret: print("      ",ret[0])
    open(full,"w").write(src)
