"""REC-FWD: a self-recursive call passes on every defaulted parameter that the function body uses.

A parameter that is silently dropped in the recursion falls back to its default for all nested levels (e.g. show() style keywords
that reach top-level objects but not the children of a collection)."""
import ast

from common import Finding, norm

TRIAGED = {("MagicProperties.as_dict", "flatten"): "flattening is applied once, at the top level, on the nested dictionary",
           ("MagicProperties.as_dict", "separator"): "only used together with flatten at the top level",
           ("BaseCollection.set_children_styles", "recursive"): "the recursive call sits under `if ... and recursive:`; the default True equals the caller's value there"}


def recursive_forwarding(repo, res, rule, module_filter):
    n = 0
    for m, qn, fn, cl in repo.all_functions():
        if not module_filter(m.name):
            continue
        pos = [a.arg for a in fn.args.args]
        nd = len(fn.args.defaults)
        defaulted = set(pos[len(pos) - nd:]) | {a.arg for a, d in zip(fn.args.kwonlyargs, fn.args.kw_defaults) if d is not None}
        if not defaulted:
            continue
        used = {x.id for x in ast.walk(fn) if isinstance(x, ast.Name) and isinstance(x.ctx, ast.Load)}
        for c in ast.walk(fn):
            if not isinstance(c, ast.Call):
                continue
            f = c.func
            is_self_call = (isinstance(f, ast.Name) and f.id == fn.name and cl is None) or \
                (isinstance(f, ast.Attribute) and f.attr == fn.name and cl is not None and not fn.name.startswith("__")
                 and not (isinstance(f.value, ast.Call) and getattr(f.value.func, "id", "") == "super")
                 and not (isinstance(f.value, ast.Name) and f.value.id[:1].isupper()))
            if not is_self_call:
                continue
            if any(k.arg is None for k in c.keywords):
                continue      # **kwargs forwarded wholesale
            offset = 1 if (cl is not None and pos and pos[0] in ("self", "cls")) else 0
            # `Class.method(obj, ...)` style: the first positional argument is the receiver
            if isinstance(f, ast.Attribute) and isinstance(f.value, ast.Attribute) and f.value.attr == "__class__":
                offset = 0
            passed = {k.arg for k in c.keywords if k.arg} | set(pos[offset:][: len(c.args)])
            n += 1
            miss = sorted(p for p in defaulted if p not in passed and p in used and (qn.replace(" (setter)", ""), p) not in TRIAGED)
            res.ob(f"{rule}:{qn}:{norm(c)[:50]}", not miss, {"rule": rule, "function": qn, "recursive_call": norm(c)[:120], "dropped_parameters": miss})
            for p in miss:
                res.add(Finding(rule, m.rel, qn, c, f"the recursive call drops `{p}`: nested levels silently fall back to the default", c.lineno))
    return n
