"""E0b - whole-package call graph (name based class-hierarchy analysis), pure ast.

Nodes are function ids  "<module>:<func>"  /  "<module>:<Class>.<meth>"  /  "...<Class>.<prop>[get]" / "[set]".
Edges over-approximate:
  Name(...)            import map -> repo function / class constructor (__init__ through the MRO)
  self.m / cls.m       method found through the MRO of the enclosing class + overrides in its subclasses
  super().m            next definition in the MRO
  X.m(...)             every repo class that defines method m (receiver type unknown)
  X.a (load)           every property getter named a;   X.a = v  every property setter named a
  f(...) where f is a parameter/local bound from a registry attribute (`_field_func`, `get_trace`)
                       every function registered under that class attribute
Unresolved calls (callee not a repo function, not external) are listed.
"""
from __future__ import annotations

import ast

from repo import Repo, Cls, Mod

REGISTRY_ATTRS = ("_field_func", "get_trace", "_style_class")

# method names that also exist on builtin containers / ndarray / scipy Rotation: a call `X.m()` with such a name is
# linked to repo classes only when X looks like a repo object (see _objectish)
NDARRAY_NAMES = {"copy", "reshape", "sum", "any", "all", "astype", "tolist", "flatten", "ravel", "squeeze", "dot", "max",
                 "min", "mean", "fill", "take", "repeat", "round", "sort", "nonzero", "transpose", "swapaxes", "cumsum",
                 "prod", "argmax", "argmin", "argsort", "clip", "conj", "item", "view", "std", "var", "apply", "inv",
                 "as_quat", "as_matrix", "as_rotvec", "as_euler", "magnitude", "reset", "show"}
AMBIG = set(dir(list)) | set(dir(dict)) | set(dir(set)) | set(dir(str)) | set(dir(tuple)) | NDARRAY_NAMES
AMBIG -= {"reset", "show"}

# numerical layer: functions here only ever see arrays (checked: these modules import no class-defining module)
def is_array_layer(modname):
    leaf = modname.rpartition(".")[2]
    return modname.startswith("magpylib._src.fields.") and (leaf.startswith("field_BH_") or leaf.startswith("special_"))


class FnNode:
    def __init__(self, fid, mod: Mod, node: ast.FunctionDef, cls: Cls | None, kind):
        self.fid, self.mod, self.node, self.cls, self.kind = fid, mod, node, cls, kind

    def __repr__(self):
        return self.fid


class CallGraph:
    def __init__(self, repo: Repo):
        self.repo = repo
        self.nodes: dict[str, FnNode] = {}
        self.by_method: dict[str, list[FnNode]] = {}
        self.by_getter: dict[str, list[FnNode]] = {}
        self.by_setter: dict[str, list[FnNode]] = {}
        self.fresh_store_edges: dict[str, set] = {}
        self.plain_store_edges: dict[str, set] = {}
        self.edges: dict[str, set[str]] = {}
        self.unresolved: dict[str, set[str]] = {}
        self.registry: dict[str, list[FnNode]] = {a: [] for a in REGISTRY_ATTRS}
        self._index()
        self.repo_attr_names = set(self.by_method) | set(self.by_getter) | set(self.by_setter)
        for c in repo.cls_by_key.values():
            for f in list(c.methods.values()) + list(c.setters.values()) + list(c.getters.values()):
                for x in ast.walk(f):
                    if isinstance(x, ast.Attribute) and isinstance(x.value, ast.Name) and x.value.id == "self" and x.attr.startswith("_"):
                        self.repo_attr_names.add(x.attr)
        self.repo_attr_names -= AMBIG
        self.array_layer_violations = []
        for m in repo.mods.values():
            if is_array_layer(m.name):
                for loc, (im, a) in m.imports.items():
                    if im in repo.mods and (repo.mods[im].classes and not is_array_layer(im)) and a is not None and a in repo.mods[im].classes:
                        self.array_layer_violations.append(f"{m.name} imports class {im}.{a}")
        self.ctor_sites: dict[str, list] = {}
        for n in list(self.nodes.values()):
            self._scan(n)

    # ------------------------------------------------------------------
    def fid_of(self, mod: Mod, node, cls=None, kind="func"):
        base = f"{mod.name}:{cls.name + '.' if cls else ''}{node.name}"
        if kind == "getter":
            base += "[get]"
        elif kind == "setter":
            base += "[set]"
        return base

    def _index(self):
        for m in self.repo.mods.values():
            for f in m.funcs.values():
                self._add(m, f, None, "func")
            for cn in m.classes.values():
                c = self.repo.cls_by_key[(m.name, cn.name)]
                for f in c.methods.values():
                    n = self._add(m, f, c, "method")
                    self.by_method.setdefault(f.name, []).append(n)
                for f in c.getters.values():
                    n = self._add(m, f, c, "getter")
                    self.by_getter.setdefault(f.name, []).append(n)
                for f in c.setters.values():
                    n = self._add(m, f, c, "setter")
                    self.by_setter.setdefault(f.name, []).append(n)
        # registries: class attributes such as `_field_func = staticmethod(BHJM_x)` / `get_trace = make_X`
        for c in self.repo.cls_by_key.values():
            for a in REGISTRY_ATTRS:
                if a in c.attrs:
                    v = c.attrs[a]
                    if isinstance(v, ast.Call) and isinstance(v.func, ast.Name) and v.func.id == "staticmethod" and v.args:
                        v = v.args[0]
                    if isinstance(v, ast.Name):
                        r = self.repo.resolve_name(c.mod, v.id)
                        if r and r[0] == "func":
                            self.registry[a].append(self.nodes[self.fid_of(r[1], r[2])])
                        elif r and r[0] == "class":
                            ci, init = self.repo.find_method(r[1].name, "__init__")
                            if init is not None:
                                self.registry[a].append(self.nodes[self.fid_of(ci.mod, init, ci, "method")])

    def _add(self, m, f, c, kind):
        fid = self.fid_of(m, f, c, kind)
        n = FnNode(fid, m, f, c, kind)
        self.nodes[fid] = n
        self.edges[fid] = set()
        self.unresolved[fid] = set()
        return n

    def _method_targets(self, clsname, meth, include_sub=True):
        out = []
        c, f = self.repo.find_method(clsname, meth)
        if f is not None:
            out.append(self.fid_of(c.mod, f, c, "method"))
        if include_sub:
            for sc in self.repo.subclasses(clsname):
                if meth in sc.methods:
                    out.append(self.fid_of(sc.mod, sc.methods[meth], sc, "method"))
        return out

    def _scan(self, n: FnNode):
        repo, E, U = self.repo, self.edges[n.fid], self.unresolved[n.fid]
        fn = n.node
        # local bindings that hold registry callables
        local_imports = {}
        for s in ast.walk(fn):
            if isinstance(s, ast.ImportFrom):
                for a in s.names:
                    local_imports[a.asname or a.name] = (s.module, a.name)
        params = {a.arg for a in fn.args.posonlyargs + fn.args.args + fn.args.kwonlyargs}
        nested = {s.name: s for s in ast.walk(fn) if isinstance(s, ast.FunctionDef) and s is not fn}
        try:
            from rules_writes import fresh_locals
            fresh_names = fresh_locals(fn, set(repo.classes))
        except Exception:  # noqa
            fresh_names = set()

        def resolve_name(name):
            if name in local_imports:
                m, a = local_imports[name]
                if m in repo.mods:
                    return repo.resolve_name(repo.mods[m], a)
                return ("ext", f"{m}.{a}")
            return repo.resolve_name(n.mod, name)

        arr = is_array_layer(n.mod.name)
        objectish = set()
        for x in ast.walk(fn):
            if isinstance(x, ast.Attribute) and x.attr in self.repo_attr_names:
                objectish.add(ast.unparse(x.value))
        objectish.add("self")

        def _objectish(recv):
            t = ast.unparse(recv)
            if t in objectish:
                return True
            # receiver is itself an attribute/call chain ending in a repo attribute: obj.style.update(..)
            if isinstance(recv, ast.Attribute) and recv.attr in self.repo_attr_names:
                return True
            return False

        for node in ast.walk(fn):
            if isinstance(node, ast.Call):
                f = node.func
                if isinstance(f, ast.Name):
                    if f.id in nested:
                        continue  # body walked as part of this function
                    if f.id in ("field_func", "make_func", "get_trace") or (f.id in params and f.id.endswith("func")):
                        key = "_field_func" if f.id == "field_func" else "get_trace"
                        for t in self.registry[key]:
                            E.add(t.fid)
                        continue
                    r = resolve_name(f.id)
                    if r is None:
                        if f.id not in params and f.id not in __builtins_names__:
                            U.add(f.id)
                        continue
                    if r[0] == "func":
                        E.add(self.fid_of(r[1], r[2]))
                    elif r[0] == "class":
                        self.ctor_sites.setdefault(n.fid, []).append((r[1].name, node))
                        for t in self._method_targets(r[1].name, "__init__", include_sub=False):
                            E.add(t)
                elif isinstance(f, ast.Attribute):
                    meth = f.attr
                    recv = f.value
                    if isinstance(recv, ast.Name) and recv.id in ("self", "cls") and n.cls is not None:
                        ts = self._method_targets(n.cls.name, meth)
                        if ts:
                            E.update(ts)
                            continue
                    if isinstance(recv, ast.Call) and isinstance(recv.func, ast.Name) and recv.func.id == "super" and n.cls is not None:
                        for c in self.repo.mro(n.cls)[1:]:
                            if meth in c.methods:
                                E.add(self.fid_of(c.mod, c.methods[meth], c, "method"))
                                break
                        continue
                    if isinstance(recv, ast.Name):
                        r = resolve_name(recv.id)
                        if r and r[0] == "module":
                            if r[1] in repo.mods and meth in repo.mods[r[1]].funcs:
                                E.add(self.fid_of(repo.mods[r[1]], repo.mods[r[1]].funcs[meth]))
                            continue
                        if r and r[0] == "ext":
                            continue
                        if r and r[0] == "class":
                            ts = self._method_targets(r[1].name, meth, include_sub=False)
                            E.update(ts)
                            continue
                        if r and r[0] == "const" and isinstance(r[2], ast.Call) and isinstance(r[2].func, ast.Name):
                            # module-level instance `X = Class(...)`: the receiver type is known exactly
                            rc = repo.resolve_name(r[1], r[2].func.id)
                            if rc and rc[0] == "class":
                                ts = self._method_targets(rc[1].name, meth, include_sub=True)
                                if ts:
                                    E.update(ts)
                                    continue
                    if meth in repo.classes and meth[:1].isupper():
                        # dotted constructor call: pkg.mod.Class(...)
                        self.ctor_sites.setdefault(n.fid, []).append((meth, node))
                        E.update(self._method_targets(meth, "__init__", include_sub=False))
                        continue
                    if arr:
                        continue
                    if meth in AMBIG and not _objectish(recv):
                        continue
                    for t in self.by_method.get(meth, []):
                        E.add(t.fid)
            elif isinstance(node, ast.Attribute) and not arr:
                if isinstance(node.ctx, ast.Load):
                    for t in self.by_getter.get(node.attr, []):
                        E.add(t.fid)
                elif isinstance(node.ctx, ast.Store):
                    # a property assignment on an object created in this very function (`obj_copy = deepcopy(self); obj_copy.parent = ..`)
                    # runs the setter with a *new* receiver: recorded separately so that who-may-write analyses of pre-existing
                    # objects need not follow it (the edge stays in `edges` for everything else)
                    fresh_recv = isinstance(node.value, ast.Name) and node.value.id in fresh_names
                    for t in self.by_setter.get(node.attr, []):
                        E.add(t.fid)
                        (self.fresh_store_edges if fresh_recv else self.plain_store_edges).setdefault(n.fid, set()).add(t.fid)
            elif isinstance(node, ast.AugAssign) and isinstance(node.target, ast.Attribute):
                for t in self.by_getter.get(node.target.attr, []) + self.by_setter.get(node.target.attr, []):
                    E.add(t.fid)
            elif isinstance(node, ast.BinOp) or isinstance(node, ast.Compare):
                pass
        # operator dunders: a + b etc. on repo objects
        for node in ast.walk(fn):
            if arr:
                break
            if isinstance(node, ast.BinOp) and isinstance(node.op, (ast.Add, ast.Sub)) and (
                    _objectish(node.left) or _objectish(node.right)):
                for dn in ("__add__", "__radd__", "__sub__"):
                    for t in self.by_method.get(dn, []):
                        E.add(t.fid)
        E.discard(n.fid) if False else None

    # ------------------------------------------------------------------
    def edges_for_preexisting(self):
        """edge map in which a setter reached *only* through assignments on objects created in the calling function is dropped"""
        out = {}
        for fid, ts in self.edges.items():
            drop = self.fresh_store_edges.get(fid, set()) - self.plain_store_edges.get(fid, set())
            # keep the edge if the same callee is also reached by a call in this function
            out[fid] = set(ts) - {t for t in drop if t.endswith("[set]")}
        return out

    def reachable(self, roots, stop=()):
        seen, todo = set(), list(roots)
        parent = {}
        while todo:
            x = todo.pop()
            if x in seen or x in stop:
                continue
            seen.add(x)
            for y in self.edges.get(x, ()):
                if y not in seen:
                    parent.setdefault(y, x)
                    todo.append(y)
        return seen, parent

    def path_to(self, parent, x):
        p = [x]
        while x in parent:
            x = parent[x]
            p.append(x)
        return list(reversed(p))


__builtins_names__ = set(dir(__builtins__)) if not isinstance(__builtins__, dict) else set(__builtins__)
