import subprocess, shutil, sys, re
MUTS = [
 ("cuboid", "magpylib/_src/fields/field_BH_cuboid.py", "xma2, xpa2 = xma**2, xpa**2", "xma2, xpa2 = xma**3, xpa**2"),
 ("cuboid", "magpylib/_src/fields/field_BH_cuboid.py", "        BHJM[~mask_inside] = 0\n        return BHJM / MU0", "        BHJM[~mask_inside] = 0\n        return BHJM"),
 ("cylinder", "magpylib/_src/fields/field_BH_cylinder.py", "    z = z / r0\n", "    z = z\n"),
 ("sphere", "magpylib/_src/fields/field_BH_sphere.py", "/ r[out] ** 5", "/ r[out] ** 4"),
 ("circle", "magpylib/_src/fields/field_BH_circle.py", "abs(r - r0) < 1e-15 * r0", "abs(r - r0) < 1e-15"),
 ("dipole", "magpylib/_src/fields/field_BH_dipole.py", "        return BHJM * MU0", "        return BHJM"),
 ("polyline", "magpylib/_src/fields/field_BH_polyline.py", "mask1 = norm_o4 < 1e-15", "mask1 = norm(po - p4, axis=1) * norm_12 < 1e-15"),
 ("cylseg", "magpylib/_src/fields/field_BH_cylinder_segment.py", "    F_coef = -np.cos(theta_M) * (r**2 + r_i**2) / (r * np.abs(r_bar_i))\n    return E_coef * E + F_coef * F", "    F_coef = -np.cos(theta_M) * (r**2 + r_i**2) / (r * np.abs(r_bar_i))\n    return E_coef * E + F_coef * F * r", ),
 # refactor twins (must stay silent)
 ("cuboid", "magpylib/_src/fields/field_BH_cuboid.py", "mask_surf_x = abs(x_dist := abs(x) - a) < RTOL_SURFACE * a", "tolx = a * RTOL_SURFACE\n    mask_surf_x = abs(x_dist := abs(x) - a) < tolx"),
 ("cylinder", "magpylib/_src/fields/field_BH_cylinder.py", "    r = r / r0\n    z = z / r0\n", "    inv = 1 / r0\n    r = r * inv\n    z = z * inv\n"),
]
for name, path, old, new in MUTS:
    full = "/root/scratch/mut/" + path
    src = open(full).read()
    assert src.count(old) >= 1, (path, old)
    open(full, "w").write(src.replace(old, new, 1))
    out = subprocess.run([sys.executable, "run_dim.py", name], capture_output=True, text=True, env={"DIMROOT": "/root/scratch/mut"}).stdout
    bad = [l for l in out.splitlines() if "MISMATCH" in l or l.strip().startswith("[") or "UNSUPPORTED" in l or "CRASH" in l]
    base_known = ("ind > 1e-12", "1e-14", "atol=1e-12", "eps")
    new_f = [l for l in bad if not any(k in l for k in base_known)]
    print(f"--- {name}: {old[:40]!r} -> {new[:40]!r}: {'FIRES' if new_f else 'silent'}")
    for l in new_f[:3]: print("     ", l.strip()[:160])
    open(full, "w").write(src)
