"""Rule SUPERPOSE-SIBLING - results of the same field function that are added/subtracted into one array are built the same way.

Instance discovery: in a function of the numerical layer, `X[..] = f(kw..)` together with `X[..] += f(kw..)` / `X[..] -= f(kw..)`
for the same callee f (a repo function) and the same array X: a body described as a superposition of two bodies of the same kind
(hollow cylinder = outer cylinder - inner cylinder).  Obligation: the two calls pass every keyword in the same rename-invariant
shape (`np.c_[2 * _[_], _[_]]` for both): a radius handed over as a diameter in one of them, a forgotten mask or a different
field/polarization argument makes the difference wrong for that part only.
"""
from __future__ import annotations

import ast

from common import Finding, norm, shape_of


def run(repo, res, rule, modprefix="magpylib._src.fields"):
    n = 0
    for m in repo.mods.values():
        if not m.name.startswith(modprefix):
            continue
        for fn in m.funcs.values():
            base, aug = {}, []
            for s in ast.walk(fn):
                if isinstance(s, (ast.Assign, ast.AugAssign)) and isinstance(s.value, ast.Call) and isinstance(s.value.func, ast.Name):
                    r = repo.resolve_name(m, s.value.func.id)
                    if not (r and r[0] == "func"):
                        continue
                    t = s.targets[0] if isinstance(s, ast.Assign) else s.target
                    while isinstance(t, ast.Subscript):
                        t = t.value
                    if not isinstance(t, ast.Name):
                        continue
                    key = (t.id, s.value.func.id)
                    if isinstance(s, ast.Assign):
                        base.setdefault(key, s)
                    elif isinstance(s.op, (ast.Add, ast.Sub)):
                        aug.append((key, s))
            for key, s in aug:
                if key not in base:
                    continue
                n += 1
                a, b = base[key].value, s.value
                ka = {k.arg: shape_of(k.value) for k in a.keywords if k.arg}
                kb = {k.arg: shape_of(k.value) for k in b.keywords if k.arg}
                pa, pb = [shape_of(x) for x in a.args], [shape_of(x) for x in b.args]
                diff = sorted(k for k in set(ka) | set(kb) if ka.get(k) != kb.get(k))
                ok = not diff and pa == pb
                res.ob(f"{rule}:{fn.name}:{key[1]}", ok, {"rule": rule, "function": fn.name, "callee": key[1], "array": key[0],
                                                          "first": norm(base[key]), "combined": norm(s), "differing_keywords": diff})
                if not ok:
                    res.add(Finding(rule, m.rel, fn.name, s, f"this {key[1]}(..) result is combined into `{key[0]}` with the one assigned before, but the calls differ in "
                                    f"{diff or 'their positional arguments'}: {', '.join(f'{k}: {ka.get(k)} vs {kb.get(k)}' for k in diff)}", s.lineno))
    if n == 0:
        # the hollow-cylinder fallback may legitimately be written as one call over stacked rows: nothing to compare then
        res.undecided.append(f"{rule}: no pair of superposed sibling calls in the numerical layer (the hollow full-turn CylinderSegment fallback is written differently); nothing decided")
    return n
