"""Prototype DIM domain: dimension vectors (L, X, M) + log-affine flag.  Scratch."""
from __future__ import annotations
import ast, math
from fractions import Fraction as Fr
from absint import *


class KDTreeV(V):
    """scipy.spatial.KDTree built over points whose coordinates have dimension d"""
    def __init__(self, d):
        self.d = d

    def __repr__(self):
        return f"KDTree[{self.d!r}]"


class D(V):
    """numeric array/scalar with physical dimension L^l X^x M^m.
    poly: dimension-polymorphic zero/uninitialised (np.zeros, literal 0, np.empty, nan)
    la:   value is dimensionless up to an additive  c*log(scale)  defect;  lak = c if numerically known
    """
    __slots__ = ("l", "x", "m", "poly", "la", "lak", "isint", "lin")
    def __init__(self, l=0, x=0, m=0, poly=False, la=False, lak=None, isint=False):
        self.l, self.x, self.m = Fr(l), Fr(x), Fr(m)
        self.poly, self.la, self.lak, self.isint = poly, la, lak, isint
    @property
    def dim(self):
        return (self.l, self.x, self.m)
    def dimless(self):
        return self.dim == (0, 0, 0)
    def __repr__(self):
        if self.poly:
            return "D(poly0)"
        s = "".join(f"{n}^{e}" if e != 1 else n for n, e in zip("LXM", self.dim) if e != 0) or "1"
        if self.la:
            s += f"+log[{self.lak}]"
        return f"D({s})"


class Conflict(V):
    """variable holds values of different dimension on different paths; reported only if used"""
    def __init__(self, a, b, node):
        self.a, self.b, self.node = a, b, node
    def __repr__(self):
        return f"Conflict({self.a},{self.b})"


class B(V):
    """boolean (mask or scalar) of unknown value"""
    def __repr__(self):
        return "B"


POLY = D(poly=True)


def as_d(v):
    """view python numeric constants as D"""
    if isinstance(v, D):
        return v
    if isinstance(v, Conflict):
        DimDomain.current.report("path-dependent-dimension", v.node, f"value is {v.a} on one path and {v.b} on another, and is used")
        return v.a
    if isinstance(v, Const) and isinstance(v.value, bool):
        return None
    if isinstance(v, Const) and isinstance(v.value, (int, float)):
        if v.value == 0:
            return D(poly=True)
        if isinstance(v.value, float) and math.isnan(v.value):
            return D(poly=True)
        return D(isint=isinstance(v.value, int))
    return None


def is_num_const(v):
    return isinstance(v, Const) and isinstance(v.value, (int, float)) and not isinstance(v.value, bool)


class Finding:
    def __init__(self, kind, node, module, func, msg):
        self.kind, self.node, self.module, self.func, self.msg = kind, node, module, func, msg
    def key(self):
        return (self.kind, self.module, self.func, ast.unparse(self.node))
    def __repr__(self):
        return (f"[{self.kind}] {self.module}:{self.func}:{getattr(self.node,'lineno','?')}: "
                f"{ast.unparse(self.node)[:90]}  -- {self.msg}")


UNARY_SAME = {"abs", "fabs", "copy", "negative", "squeeze", "ravel", "asarray", "nan_to_num", "sort",
              "expand_dims", "swapaxes", "transpose", "reshape", "tile", "repeat", "sum", "mean", "min",
              "max", "amax", "amin", "cumsum", "flatten", "atleast_1d", "atleast_2d", "real", "round",
              "ptp", "median", "float", "unique", "delete", "split"}
DIMLESS_FUNCS = {"sin", "cos", "tan", "arctan", "arctanh", "arcsinh", "arccos", "arcsin", "exp", "tanh",
                 "sinh", "cosh", "deg2rad", "rad2deg"}
SPECIAL_DIMLESS = {"scipy.special.ellipe", "scipy.special.ellipk", "scipy.special.ellipeinc",
                   "scipy.special.ellipkinc"}
BOOL_FUNCS = {"logical_and", "logical_or", "logical_not", "any", "all", "isnan", "isin", "isfinite",
              "isscalar"}


class DimDomain:
    def __init__(self, summaries=None, lit_annot=None):
        self.findings = []
        self.nexpr = 0
        self.maxexp = Fr(0)
        self.summaries = summaries or {}
        self.lit_annot = lit_annot or {}
        self.interp = None
        DimDomain.current = self

    # -------------------------------------------------- helpers
    def where(self):
        cs = self.interp.callstack
        return cs[-1] if cs else "<top>"

    def modname(self):
        return getattr(self, "_curmod", "?")

    def report(self, kind, node, msg):
        self.findings.append(Finding(kind, node, self.modname(), self.where(), msg))

    def note(self, d):
        self.nexpr += 1
        if isinstance(d, D) and not d.poly:
            self.maxexp = max(self.maxexp, abs(d.l))
        return d

    def enter_function(self, f, bound, node):
        self._modstack = getattr(self, "_modstack", [])
        self._modstack.append(getattr(self, "_curmod", "?"))
        self._curmod = f.module.name.split(".")[-1]

    def exit_function(self, f, out, node):
        self._curmod = self._modstack.pop()
        return out

    def builtin(self, name, node):
        if name in ("len", "abs", "any", "all", "zip", "range", "enumerate", "int", "float", "list",
                    "tuple", "set", "sum", "min", "max", "round", "isinstance", "print", "bool", "str"):
            return ExtName(f"builtins.{name}")
        if name in ("True", "False", "None"):
            return Const({"True": True, "False": False, "None": None}[name])
        if name in ("ValueError", "RuntimeError", "TypeError"):
            return Opaque(name)
        return None

    def external_name(self, q, node):
        if q == "scipy.constants.mu_0":
            return D(m=1)
        return ExtName(q)

    def lit(self, value, node):
        key = (self.modname(), self.where(), repr(value))
        if key in self.lit_annot:
            return self.lit_annot[key]
        return Const(value)

    def make_seq(self, items, node):
        return Seq(items, "py")

    def abstract_seq(self, elem, node):
        # list comprehension over abstract iterable: a homogeneous python list
        return Seq([elem], "pyabs")

    # -------------------------------------------------- joins
    def same_dim(self, a: D, b: D):
        return a.poly or b.poly or a.dim == b.dim

    def join(self, a, b, node, silent=False):
        if isinstance(a, Conflict) or isinstance(b, Conflict):
            return a if isinstance(a, Conflict) else b
        if isinstance(a, Seq) and isinstance(b, Seq) and len(a.items) == len(b.items):
            return Seq([self.join(x, y, node, silent) for x, y in zip(a.items, b.items)], a.kind)
        da, db = as_d(a), as_d(b)
        if da is not None and db is not None:
            if not self.same_dim(da, db):
                if silent:
                    return Conflict(da, db, node)
                self.report("join-mismatch", node, f"{da} vs {db}")
                return da
            if da.poly:
                return db
            if db.poly:
                return da
            return D(*da.dim, la=da.la or db.la,
                     lak=da.lak if (da.la and db.la and da.lak == db.lak) else None)
        if isinstance(a, Const) and isinstance(b, Const) and a.value == b.value:
            return a
        if isinstance(a, (B,)) or isinstance(b, (B,)):
            return B()
        if isinstance(a, Const) and isinstance(b, Const):
            if isinstance(a.value, bool) or isinstance(b.value, bool):
                return B()
            return Opaque("join-const")
        if type(a) is type(b):
            return a
        if isinstance(a, Const) and a.value is None:
            return b
        if isinstance(b, Const) and b.value is None:
            return a
        return Opaque(f"join {a!r} {b!r}")

    def collapse(self, seq: Seq, node):
        """collapse Seq of equal-dim D into a single D if possible"""
        ds = [self.collapse(i, node) if isinstance(i, Seq) else i for i in seq.items]
        dd = [as_d(i) for i in ds]
        if dd and all(x is not None for x in dd):
            nonpoly = [x for x in dd if not x.poly]
            if not nonpoly:
                return POLY
            if all(x.dim == nonpoly[0].dim and x.la == nonpoly[0].la for x in nonpoly):
                return D(*nonpoly[0].dim, la=nonpoly[0].la, lak=None if nonpoly[0].la else None)
        return None

    # -------------------------------------------------- operators
    def binop(self, op, a, b, node):
        if is_num_const(a) and is_num_const(b):
            import operator as _o
            fn = {ast.Add: _o.add, ast.Sub: _o.sub, ast.Mult: _o.mul, ast.Div: _o.truediv, ast.Pow: _o.pow,
                  ast.FloorDiv: _o.floordiv, ast.Mod: _o.mod}.get(type(op))
            if fn is not None:
                try:
                    return Const(fn(a.value, b.value))
                except Exception:
                    pass
        if isinstance(a, Seq) and isinstance(op, ast.Add) and isinstance(b, Seq):
            return Seq(a.items + b.items, "py")
        if isinstance(a, Seq) and a.kind == "py" and isinstance(op, ast.Mult) and isinstance(b, Const) \
                and isinstance(b.value, int):
            return Seq(a.items * b.value, "py")
        if isinstance(a, Seq):
            c = self.collapse(a, node)
            if c is None:
                # elementwise on hetero columns
                if isinstance(b, Seq) and len(b.items) == len(a.items):
                    return Seq([self.binop(op, x, y, node) for x, y in zip(a.items, b.items)], a.kind)
                return Seq([self.binop(op, x, b, node) for x in a.items], a.kind)
            a = c
        if isinstance(b, Seq):
            c = self.collapse(b, node)
            if c is None:
                return Seq([self.binop(op, a, y, node) for y in b.items], b.kind)
            b = c
        if isinstance(a, B) or isinstance(b, B) or (isinstance(a, Const) and isinstance(a.value, bool)) \
                or (isinstance(b, Const) and isinstance(b.value, bool)):
            if isinstance(op, (ast.BitAnd, ast.BitOr, ast.BitXor, ast.Mult, ast.Add)):
                return B()
        da, db = as_d(a), as_d(b)
        if da is None or db is None:
            raise Unsupported(node, f"binop {type(op).__name__} on {a!r}, {b!r}")
        if isinstance(op, (ast.Add, ast.Sub)):
            if not self.same_dim(da, db):
                lit = is_num_const(a) or is_num_const(b)
                self.report("abs-offset" if lit else "add-mismatch", node, f"{da} {'+' if isinstance(op, ast.Add) else '-'} {db}")
                return self.note(da if not is_num_const(a) else db)
            if da.poly:
                return self.note(db)
            if db.poly:
                return self.note(da)
            la = da.la or db.la
            lak = None
            if da.la and db.la and da.lak is not None and db.lak is not None:
                lak = da.lak + db.lak if isinstance(op, ast.Add) else da.lak - db.lak
                if lak == 0:
                    la, lak = False, None
            elif da.la and not db.la:
                lak = da.lak
            elif db.la and not da.la:
                lak = db.lak if isinstance(op, ast.Add) else (None if db.lak is None else -db.lak)
            return self.note(D(*da.dim, la=la, lak=lak))
        if isinstance(op, (ast.Mult, ast.MatMult)):
            if da.poly or db.poly:
                return POLY
            return self.note(self.mul(da, db, node, +1))
        if isinstance(op, (ast.Div, ast.FloorDiv)):
            if da.poly:
                return POLY
            if db.poly:
                # division by literal zero (dipole r=0 branch): treat as poly
                return POLY
            return self.note(self.mul(da, db, node, -1))
        if isinstance(op, ast.Mod):
            if not self.same_dim(da, db):
                self.report("mod-mismatch", node, f"{da} % {db}")
            return self.note(da)
        if isinstance(op, ast.Pow):
            if is_num_const(b):
                e = Fr(b.value).limit_denominator(64)
            elif db.dimless() and da.dimless():
                return self.note(D())
            else:
                raise Unsupported(node, f"pow with abstract exponent {b!r}")
            if da.poly:
                return POLY
            if da.la:
                self.report("log-misuse", node, "power of log-affine value")
            return self.note(D(da.l * e, da.x * e, da.m * e))
        if isinstance(op, (ast.BitAnd, ast.BitOr, ast.BitXor)):
            return B()
        raise Unsupported(node, f"binop {type(op).__name__}")

    def mul(self, da, db, node, sgn):
        la = da.la or db.la
        if da.la and db.la:
            self.report("log-misuse", node, "product of two log-affine values")
        if sgn < 0 and db.la:
            self.report("log-misuse", node, "division by log-affine value")
        return D(da.l + sgn * db.l, da.x + sgn * db.x, da.m + sgn * db.m, la=la, lak=None)

    def unop(self, op, a, node):
        if isinstance(a, Const):
            if isinstance(op, ast.USub) and is_num_const(a):
                return Const(-a.value)
            if isinstance(op, ast.Not):
                return Const(not a.value)
            if isinstance(op, ast.UAdd):
                return a
        if isinstance(op, (ast.Invert, ast.Not)):
            return B()
        if isinstance(a, Seq):
            return Seq([self.unop(op, x, node) for x in a.items], a.kind)
        da = as_d(a)
        if da is None:
            raise Unsupported(node, f"unop on {a!r}")
        if da.la and da.lak is not None:
            return D(*da.dim, la=True, lak=-da.lak)
        return da

    def compare(self, ops, vals, node):
        res = None
        for op, a, b in zip(ops, vals, vals[1:]):
            if isinstance(a, Const) and isinstance(b, Const):
                try:
                    r = {ast.Eq: a.value == b.value, ast.NotEq: a.value != b.value,
                         ast.Is: a.value is b.value, ast.IsNot: a.value is not b.value,
                         ast.In: None, ast.NotIn: None, ast.Lt: None, ast.Gt: None, ast.LtE: None,
                         ast.GtE: None}[type(op)]
                    if r is None:
                        if isinstance(op, ast.In):
                            r = a.value in b.value
                        elif isinstance(op, ast.NotIn):
                            r = a.value not in b.value
                        elif isinstance(op, ast.Lt):
                            r = a.value < b.value
                        elif isinstance(op, ast.Gt):
                            r = a.value > b.value
                        elif isinstance(op, ast.LtE):
                            r = a.value <= b.value
                        else:
                            r = a.value >= b.value
                    cur = Const(bool(r))
                except TypeError:
                    cur = B()
            elif isinstance(op, (ast.Is, ast.IsNot)):
                # x is None  with x abstract non-None
                if isinstance(b, Const) and b.value is None and not isinstance(a, (Const, Opaque)):
                    cur = Const(isinstance(op, ast.IsNot))
                else:
                    cur = B()
            elif isinstance(op, (ast.In, ast.NotIn)):
                # `field in ("J", "M")`: a literal against a tuple / list of literals is decided
                if isinstance(a, Const) and isinstance(b, Seq) and b.kind == "py" and all(isinstance(x, Const) for x in b.items):
                    cur = Const((a.value in [x.value for x in b.items]) == isinstance(op, ast.In))
                else:
                    cur = B()
            else:
                da = self.collapse(a, node) if isinstance(a, Seq) else as_d(a)
                db = self.collapse(b, node) if isinstance(b, Seq) else as_d(b)
                if da is None or db is None:
                    cur = B()
                else:
                    self.nexpr += 1
                    if not self.same_dim(da, db):
                        lit = is_num_const(a) or is_num_const(b)
                        self.report("abs-tol" if lit else "cmp-mismatch", node, f"compares {da} with {db}")
                    elif (da.la or db.la):
                        self.report("log-misuse", node, "comparison of log-affine value")
                    cur = B()
            res = cur if res is None else (B() if not (isinstance(res, Const) and isinstance(cur, Const))
                                           else Const(res.value and cur.value))
        return res

    def boolop(self, op, vals, node):
        if all(isinstance(v, Const) for v in vals):
            r = vals[0].value
            for v in vals[1:]:
                r = (r and v.value) if isinstance(op, ast.And) else (r or v.value)
            return Const(r)
        # short circuit with known constants
        for v in vals:
            if isinstance(v, Const):
                if isinstance(op, ast.And) and not v.value:
                    return Const(False)
                if isinstance(op, ast.Or) and v.value:
                    return Const(True)
        return B()

    def truth(self, v):
        if isinstance(v, Const):
            try:
                return bool(v.value)
            except Exception:
                return None
        return None

    # -------------------------------------------------- structure
    def unpack(self, v, n, node):
        if isinstance(v, Seq):
            if v.kind == "pyabs":
                return [v.items[0]] * n
            if len(v.items) == n:
                return list(v.items)
            if v.kind == "cols":
                raise Unsupported(node, "unpacking cols-hetero array along first axis")
            raise Unsupported(node, f"unpack {len(v.items)} into {n}")
        if isinstance(v, D):
            return [v] * n
        if isinstance(v, Opaque):
            return [D(isint=True)] * n if v.why == "shape" else [v] * n
        if isinstance(v, Const) and isinstance(v.value, (tuple, list)):
            return [Const(x) for x in v.value]
        raise Unsupported(node, f"unpack {v!r}")

    def iter_elems(self, v, node):
        if isinstance(v, Seq):
            if v.kind == "pyabs":
                return v.items[0]
            if v.kind in ("py", "rows"):
                return list(v.items)
            return v  # iterating rows of a cols-hetero array yields hetero rows
        if isinstance(v, Const) and isinstance(v.value, (tuple, list, str, range)):
            return [Const(x) for x in v.value]
        if isinstance(v, D):
            return v
        if isinstance(v, B):
            return B()
        if isinstance(v, Opaque):
            return Opaque("iter")
        raise Unsupported(node, f"iterate {v!r}")

    def attr(self, recv, name, node):
        if isinstance(recv, ModRef):
            q = f"{recv.name}.{name}"
            if q in ("numpy.pi", "math.pi"):
                return Const(math.pi)
            if q in ("numpy.nan", "numpy.inf", "numpy.Inf"):
                return POLY if "nan" in q else D()
            if q == "numpy.newaxis":
                return Const(None)
            if q in ("numpy.linalg", "numpy.c_", "scipy.spatial"):
                return ExtName(q)
            return ExtName(q)
        if isinstance(recv, ExtName):
            return ExtName(f"{recv.q}.{name}")
        if name == "T":
            if isinstance(recv, Seq):
                if recv.kind == "cols":
                    return Seq(recv.items, "rows")
                if recv.kind in ("rows", "py"):
                    return Seq(recv.items, "cols")
            return recv
        if name == "shape":
            return Opaque("shape")
        if name in ("ndim", "size"):
            return D(isint=True)
        raise Unsupported(node, f"attr .{name} on {recv!r}")

    def _pick(self, items, idx, node):
        """index python-level list `items` by abstract index"""
        if isinstance(idx, Const) and isinstance(idx.value, int):
            return items[idx.value]
        if isinstance(idx, tuple) and idx[0] == "slice":
            lo = idx[1].value if isinstance(idx[1], Const) else None
            hi = idx[2].value if isinstance(idx[2], Const) else None
            st = idx[3].value if isinstance(idx[3], Const) else None
            if (idx[1] is not None and lo is None) or (idx[2] is not None and hi is None):
                raise Unsupported(node, "abstract slice bounds on hetero sequence")
            return items[slice(lo, hi, st)]
        if isinstance(idx, (Const,)) and isinstance(idx.value, (tuple, list)):
            return [items[i] for i in idx.value]
        if isinstance(idx, Seq) and all(isinstance(i, Const) for i in idx.items):
            return [items[i.value] for i in idx.items]
        return None

    def subscript(self, recv, idx_node, idx, node):
        if isinstance(recv, ExtName) and recv.q == "numpy.c_":
            items = idx[0].items if isinstance(idx[0], Seq) else idx
            s = Seq(items, "cols")
            c = self.collapse(s, node)
            return c if c is not None else s
        if isinstance(recv, Seq):
            if recv.kind in ("py", "rows", "pyabs"):
                if recv.kind == "pyabs":
                    return recv.items[0]
                r = self._pick(recv.items, idx[0], node)
                if r is None:
                    # abstract index: join of all items
                    out = recv.items[0]
                    for it in recv.items[1:]:
                        out = self.join(out, it, node)
                    r = out
                if isinstance(r, list):
                    r = Seq(r, recv.kind)
                if len(idx) > 1 and isinstance(r, (D, Seq)):
                    return self.subscript(r, idx_node, idx[1:], node) if isinstance(r, Seq) else r
                return r
            if recv.kind == "cols":
                ncol = len(recv.items)
                if len(idx) == 1:
                    return recv      # row selection keeps column structure
                last = idx[-1]
                r = self._pick(recv.items, last, node)
                if r is None:
                    raise Unsupported(node, "abstract column index on hetero array")
                if isinstance(r, list):
                    s = Seq(r, "cols")
                    c = self.collapse(s, node)
                    return c if c is not None else s
                return r
        if isinstance(recv, D):
            return recv
        if isinstance(recv, B):
            return B()
        if isinstance(recv, Const) and isinstance(recv.value, (tuple, list, dict, str)):
            i = idx[0]
            if isinstance(i, Const):
                return Const(recv.value[i.value])
        if isinstance(recv, Opaque):
            return recv if recv.why != "shape" else D(isint=True)
        raise Unsupported(node, f"subscript on {recv!r}")

    def store_sub(self, recv, idx_node, idx, val, node, aug=None):
        if isinstance(recv, Seq) and recv.kind in ("py",) and isinstance(idx[0], Const):
            items = list(recv.items)
            items[idx[0].value] = val if aug is None else self.binop(aug, items[idx[0].value], val, node)
            return Seq(items, "py")
        if isinstance(recv, Seq) and recv.kind == "cols" and len(idx) == 1:
            if isinstance(val, Seq) and val.kind == "cols" and len(val.items) == len(recv.items):
                return Seq([self.join(a, b, node) for a, b in zip(recv.items, val.items)], "cols")
        if isinstance(recv, B):
            return recv
        dr = self.collapse(recv, node) if isinstance(recv, Seq) else as_d(recv)
        dv = self.collapse(val, node) if isinstance(val, Seq) else as_d(val)
        if isinstance(val, B) and dr is not None:
            return recv
        if dr is None or dv is None:
            raise Unsupported(node, f"subscript store {recv!r} <- {val!r}")
        if aug is not None:
            new = self.binop(aug, dr, dv if not is_num_const(val) else val, node)
            if isinstance(aug, (ast.Mult,)) and (isinstance(val, Const) and val.value == 0):
                return recv      # zeroing part of an array keeps the rest
            return self.join(dr, as_d(new), node) if not (dr.poly) else as_d(new)
        if not self.same_dim(dr, dv):
            self.report("store-mismatch", node, f"stores {dv} into array of {dr}")
            return dr
        return dv if dr.poly else (dr if dv.poly else self.join(dr, dv, node))

    # -------------------------------------------------- calls
    def method(self, recv, name, args, kwargs, node):
        if isinstance(recv, KDTreeV):
            # SciPy k-d tree over points of dimension recv.d: a query radius / distance bound is a length of the same unit
            if name in ("query_ball_point", "query_ball_tree", "query_pairs", "count_neighbors"):
                r = kwargs.get("r", args[1] if len(args) > 1 else (args[0] if name == "query_pairs" and args else None))
                if isinstance(r, D) and not r.poly and not getattr(r, "isint", False) and isinstance(recv.d, D) and tuple(r.dim) != tuple(recv.d.dim):
                    self.report("cmp-mismatch", node, f"k-d tree over {recv.d!r} queried with a radius of {r!r}")
                raise Unsupported(node, "k-d tree query result (index lists) is outside the typed fragment")
            raise Unsupported(node, f"KDTree.{name}")
        if name in ("astype", "copy", "reshape", "flatten", "swapaxes", "squeeze", "ravel", "sum", "max",
                    "min", "mean", "transpose", "cumsum"):
            if isinstance(recv, Seq):
                if name in ("astype", "copy"):
                    return recv
                c = self.collapse(recv, node)
                if c is None:
                    raise Unsupported(node, f".{name} on hetero array")
                return c
            if isinstance(recv, (D,)):
                return recv
            if isinstance(recv, B):
                return D(isint=True) if name in ("sum",) else B()
        if name in ("all", "any"):
            return B()
        if name == "append" and isinstance(recv, Seq) and recv.kind == "py":
            recv.items.append(args[0])
            return Const(None)
        if name in ("warn",):
            return Const(None)
        raise Unsupported(node, f"method .{name} on {recv!r}")

    def _flatten_args(self, v, node):
        """python sequence (possibly nested 1-tuples) -> flat list of abstract values"""
        if isinstance(v, Seq) and v.kind in ("py", "pyabs"):
            out = []
            for i in v.items:
                out += self._flatten_args(i, node)
            return out
        return [v]

    def call_external(self, q, args, kwargs, node):
        if q.split(".")[-1] in ("KDTree", "cKDTree") and args:
            d0 = args[0] if isinstance(args[0], D) else (self.collapse(args[0], node) if isinstance(args[0], Seq) else None)
            return KDTreeV(d0)
        base = q.split(".")[-1]
        mod = q.rsplit(".", 1)[0]
        if q in self.summaries:
            return self.summaries[q](self, args, kwargs, node)
        # ---- builtins
        if mod == "builtins":
            if base == "len":
                return D(isint=True)
            if base in ("any", "all", "isinstance", "bool"):
                if base in ("any", "all") and isinstance(args[0], Seq) and args[0].kind == "py" \
                        and all(isinstance(i, Const) for i in args[0].items):
                    f = any if base == "any" else all
                    return Const(f(i.value for i in args[0].items))
                return B()
            if base == "abs":
                return self.elementwise_same(args[0], node)
            if base == "zip":
                lists = [self.iter_elems(a, node) for a in args]
                if all(isinstance(l, list) for l in lists):
                    return Seq([Seq(list(t), "py") for t in zip(*lists)], "py")
                elems = [l if not isinstance(l, list) else self._joinlist(l, node) for l in lists]
                return Seq([Seq(elems, "py")], "pyabs")
            if base == "enumerate":
                l = self.iter_elems(args[0], node)
                if isinstance(l, list):
                    return Seq([Seq([Const(i), x], "py") for i, x in enumerate(l)], "py")
                return Seq([Seq([D(isint=True), l], "py")], "pyabs")
            if base == "range":
                if all(isinstance(a, Const) for a in args):
                    return Const(list(range(*[a.value for a in args])))
                return Seq([D(isint=True)], "pyabs")
            if base in ("int", "float", "round"):
                return args[0] if not isinstance(args[0], Const) else Const(__builtins__[base](args[0].value)) \
                    if isinstance(__builtins__, dict) else args[0]
            if base in ("list", "tuple"):
                if not args:
                    return Seq([], "py")
                l = self.iter_elems(args[0], node)
                return Seq(l, "py") if isinstance(l, list) else Seq([l], "pyabs")
            if base in ("sum", "min", "max"):
                l = self.iter_elems(args[0], node) if len(args) == 1 else list(args)
                if isinstance(l, list):
                    return self._joinlist(l, node)
                return l
            if base == "set":
                return Opaque("set")
            if base == "print":
                return Const(None)
        # ---- math module
        if mod == "math":
            if base in ("fabs",):
                return args[0]
            if base == "sqrt":
                return self.sqrt(args[0], node)
        # ---- numpy & friends
        if base in ("errstate", "seterr"):
            return Opaque("errstate")
        if base == "sqrt":
            return self.sqrt(args[0], node)
        if base in DIMLESS_FUNCS or q in SPECIAL_DIMLESS:
            for a in args:
                self.require_dimless(a, node, base)
            return self.note(D())
        if base == "log" or base == "log10":
            return self.log(args[0], node)
        if base == "sign":
            self.elementwise_same(args[0], node)
            return D()
        if base in ("hypot", "maximum", "minimum", "fmax", "fmin", "add", "subtract"):
            a, b = self.scalarize(args[0], node), self.scalarize(args[1], node)
            self.nexpr += 1
            if not self.same_dim(a, b):
                lit = is_num_const(args[0]) or is_num_const(args[1])
                self.report("abs-tol" if lit and base in ("maximum", "minimum", "fmax", "fmin") else ("abs-offset" if lit else "add-mismatch"),
                            node, f"{base}({a}, {b})")
            if a.la or b.la:
                if base not in ("add", "subtract"):
                    self.report("log-misuse", node, f"{base} of log-affine value")
            return self.note(b if a.poly else a)
        if base in ("mod", "fmod", "remainder"):
            return self.binop(ast.Mod(), args[0], args[1], node)
        if base in ("multiply", "divide", "true_divide"):
            return self.binop(ast.Mult() if base == "multiply" else ast.Div(), args[0], args[1], node)
        if base in ("square", "cbrt", "reciprocal", "power", "float_power"):
            e = {"square": Const(2), "cbrt": Const(1 / 3), "reciprocal": Const(-1)}.get(base) or args[1]
            return self.binop(ast.Pow(), args[0], e, node)
        if base == "clip":
            a = self.scalarize(args[0], node)
            for lim in list(args[1:3]) + [kwargs.get("a_min"), kwargs.get("a_max")]:
                if lim is None or (isinstance(lim, Const) and lim.value is None):
                    continue
                d = self.scalarize(lim, node)
                self.nexpr += 1
                if not self.same_dim(a, d):
                    self.report("abs-tol" if is_num_const(lim) else "cmp-mismatch", node, f"clip bound {d} on quantity of {a}")
            return a
        if base in ("floor", "ceil", "rint", "trunc", "fix"):
            a = self.scalarize(args[0], node)
            self.nexpr += 1
            if not a.poly and not a.dimless():
                self.report("transcendental-arg", node, f"{base}() of quantity with {a}")
            return a
        if base in ("degrees", "radians"):
            self.require_dimless(args[0], node, base)
            return self.note(D())
        if base in ("argmax", "argmin", "argsort", "nonzero", "count_nonzero", "searchsorted", "argwhere", "flatnonzero"):
            return D(isint=True)
        if base in ("allclose",):
            return self.call_external(q.rsplit(".", 1)[0] + ".isclose", args, kwargs, node)
        if base in ("take", "broadcast_to", "full_like", "compress", "roll", "flip", "moveaxis", "diff", "trapz", "average", "nansum",
                    "nanmax", "nanmin", "nanmean", "cumprod", "ascontiguousarray", "array_split", "pad", "append", "insert", "take_along_axis"):
            if base in ("full_like",):
                return self.elementwise_same(args[1], node)
            if base in ("append", "insert") and len(args) >= 2:
                a, b = self.elementwise_same(args[0], node), self.elementwise_same(args[-1], node)
                return self.join(a, b, node)
            return self.elementwise_same(args[0], node)
        if base == "arctan2":
            a, b = self.scalarize(args[0], node), self.scalarize(args[1], node)
            self.nexpr += 1
            if not self.same_dim(a, b):
                self.report("arctan2-mismatch", node, f"arctan2({a}, {b})")
            if a.la or b.la:
                self.report("log-misuse", node, "arctan2 of log-affine")
            return D()
        if base in ("zeros", "zeros_like", "empty", "empty_like"):
            return POLY
        if base in ("ones", "ones_like", "arange", "eye"):
            return D()
        if base == "full":
            return self.elementwise_same(args[1], node)
        if base in BOOL_FUNCS:
            return B()
        if base == "isclose":
            a, b = self.scalarize(args[0], node), self.scalarize(args[1], node)
            self.nexpr += 1
            if not self.same_dim(a, b):
                self.report("abs-tol" if (is_num_const(args[0]) or is_num_const(args[1])) else "cmp-mismatch",
                            node, f"isclose({a}, {b})")
            atol = kwargs.get("atol", Const(1e-8))
            ref = a if not a.poly else b
            if is_num_const(atol) and atol.value != 0 and not ref.poly and not ref.dimless():
                self.report("abs-tol", node, f"isclose atol={atol.value} on quantity of {ref}")
            if is_num_const(atol) and atol.value != 0 and ref.poly and not (a.poly and b.poly):
                pass
            # compared against literal zero with nonzero atol: absolute test on the other operand
            if is_num_const(atol) and atol.value != 0 and (a.poly != b.poly):
                other = b if a.poly else a
                if not other.dimless():
                    self.report("abs-tol", node, f"isclose(x, 0, atol={atol.value}) on quantity of {other}")
            return B()
        if base == "where":
            if len(args) == 1:
                return D(isint=True)
            return self.join(self.elementwise_same(args[1], node), self.elementwise_same(args[2], node), node)
        if base in ("array", "asarray", "concatenate", "stack", "vstack", "hstack", "column_stack"):
            v = args[0]
            if isinstance(v, Seq):
                flat = self._flatten_args(v, node)
                flat = [self.collapse(i, node) if isinstance(i, Seq) and self.collapse(i, node) is not None else i for i in flat]
                if all(isinstance(i, Const) for i in flat):
                    return Seq(flat, "py")      # array of python constants: keep concrete
                s = Seq(flat, "rows")
                c = self.collapse(s, node)
                if c is not None:
                    return c
                if any(isinstance(i, Seq) for i in flat):
                    raise Unsupported(node, f"{base} of nested hetero {flat}")
                axis = kwargs.get("axis", Const(0))
                return s
            return self.elementwise_same(v, node)
        if base in UNARY_SAME:
            r = self.elementwise_same(args[0], node)
            if isinstance(r, B) and base in ("sum", "cumsum", "mean", "float"):
                return D(isint=True)
            return r
        if base == "norm":
            return self.scalarize(args[0], node)
        if base in ("cross", "dot", "matmul", "outer"):
            a, b = self.scalarize(args[0], node), self.scalarize(args[1], node)
            if a.poly or b.poly:
                return POLY
            return self.note(self.mul(a, b, node, +1))
        if base == "einsum":
            ops = [self.scalarize(a, node) for a in args[1:]]
            out = ops[0]
            for o in ops[1:]:
                out = POLY if (out.poly or o.poly) else self.mul(out, o, node, +1)
            return self.note(out)
        if base == "det":
            a = self.scalarize(args[0], node)
            return POLY if a.poly else D(a.l * 3, a.x * 3, a.m * 3)
        if base == "inv":
            a = self.scalarize(args[0], node)
            return POLY if a.poly else D(-a.l, -a.x, -a.m)
        if base == "prod":
            a = self.scalarize(args[0], node)
            if a.dimless():
                return a
            raise Unsupported(node, "prod of dimensional array")
        if base in ("KDTree", "query_ball_point"):
            return Opaque(base)
        raise Unsupported(node, f"external call {q}")

    def _joinlist(self, l, node):
        out = l[0]
        for x in l[1:]:
            out = self.join(out, x, node)
        return out

    def scalarize(self, v, node):
        if isinstance(v, Seq):
            c = self.collapse(v, node)
            if c is None:
                raise Unsupported(node, f"hetero array where uniform expected: {v!r}")
            return c
        d = as_d(v)
        if d is None:
            if isinstance(v, B):
                return D()
            raise Unsupported(node, f"numeric expected, got {v!r}")
        return d

    def elementwise_same(self, v, node):
        if isinstance(v, Seq):
            c = self.collapse(v, node)
            return c if c is not None else v
        d = as_d(v)
        if d is None:
            if isinstance(v, B):
                return v
            if isinstance(v, Opaque):
                return v
            raise Unsupported(node, f"numeric expected, got {v!r}")
        return d

    def require_dimless(self, v, node, fname):
        d = self.scalarize(v, node)
        self.nexpr += 1
        if not d.poly and not d.dimless():
            self.report("transcendental-arg", node, f"{fname}() of quantity with {d}")
        if d.la:
            self.report("log-misuse", node, f"{fname}() of log-affine value")

    def sqrt(self, v, node):
        d = self.scalarize(v, node)
        if d.poly:
            return POLY
        if d.la:
            self.report("log-misuse", node, "sqrt of log-affine value")
        return self.note(D(d.l / 2, d.x / 2, d.m / 2))

    def log(self, v, node):
        d = self.scalarize(v, node)
        self.nexpr += 1
        if d.poly or d.dimless():
            return D()
        if d.x != 0 or d.m != 0:
            self.report("transcendental-arg", node, f"log() of quantity with {d}")
            return D()
        return D(la=True, lak=d.l)
