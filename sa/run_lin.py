import sys, ast, traceback
sys.path.insert(0, '/root/scratch/proto')
from absint import *
from dimdom import *
from lindom import *

import os
ROOT = os.environ.get('DIMROOT', '/repo')
L = D(l=1); X = D(x=1); X.lin='L'; ONE = D()
def dimless_summary(d, args, kwargs, node):
    for a in list(args) + list(kwargs.values()):
        d.require_dimless(a, node, 'special')
    r = D(); r.lin = 'C' if all(lin_of(a) in ('C','0') for a in args) else 'N'
    return r
def none_summary(d, args, kwargs, node):
    return Const(None)

SPECS = {
 # module, function, params (besides field), expected length degree for B/H, kind
 'cuboid':   ('magpylib._src.fields.field_BH_cuboid', 'BHJM_magnet_cuboid', dict(observers=L, dimension=L, polarization=X), 0, 'magnet'),
 'cylinder': ('magpylib._src.fields.field_BH_cylinder', 'BHJM_magnet_cylinder', dict(observers=L, dimension=L, polarization=X), 0, 'magnet'),
 'sphere':   ('magpylib._src.fields.field_BH_sphere', 'BHJM_magnet_sphere', dict(observers=L, diameter=L, polarization=X), 0, 'magnet'),
 'dipole':   ('magpylib._src.fields.field_BH_dipole', 'BHJM_dipole', dict(observers=L, moment=X), -3, 'current'),
 'circle':   ('magpylib._src.fields.field_BH_circle', 'BHJM_circle', dict(observers=L, diameter=L, current=X), -1, 'current'),
 'polyline': ('magpylib._src.fields.field_BH_polyline', 'current_vertices_field', dict(observers=L, current=X, vertices=L), -1, 'current'),
 'polyline_seg': ('magpylib._src.fields.field_BH_polyline', 'current_vertices_field', dict(observers=L, current=X, segment_start=L, segment_end=L), -1, 'current'),
 'triangle': ('magpylib._src.fields.field_BH_triangle', 'BHJM_triangle', dict(observers=L, vertices=L, polarization=X), 0, 'sheet'),
 'tetra':    ('magpylib._src.fields.field_BH_tetrahedron', 'BHJM_magnet_tetrahedron', dict(observers=L, vertices=L, polarization=X, in_out=Const('auto')), 0, 'magnet'),
 'trimesh':  ('magpylib._src.fields.field_BH_triangularmesh', 'BHJM_magnet_trimesh', dict(observers=L, mesh=L, polarization=X, in_out=Const('auto')), 0, 'magnet'),
 'cylseg':   ('magpylib._src.fields.field_BH_cylinder_segment', 'BHJM_cylinder_segment_internal', dict(observers=L, polarization=X, dimension=Seq([L, L, L, ONE, ONE], 'cols')), 0, 'magnet'),
}
def expected(kind, field, ldeg):
    if kind in ('magnet', 'sheet'):
        return {'B': (0,1,0), 'H': (0,1,-1), 'J': (0,1,0), 'M': (0,1,-1)}[field]
    return {'B': (ldeg,1,1), 'H': (ldeg,1,0), 'J': None, 'M': None}[field]

which = sys.argv[1:] or list(SPECS)
for name in which:
    modname, fn, params, ldeg, kind = SPECS[name]
    for field in 'BHJM':
        repo = Repo(ROOT)
        dom = LinDimDomain(lit_annot={('field_BH_cylinder_segment','magnet_cylinder_segment_Hfield','1e-07'): D(m=1)})
        dom.repo_summaries = {'check_field_input': none_summary, 'cel': dimless_summary, 'cel_iter': dimless_summary,
                              'el3_angle': dimless_summary}
        it = Interp(repo, dom)
        mod = repo.module(modname)
        f = FuncRef(mod, mod.funcs[fn])
        try:
            out = it.call_func(f, [], dict(field=Const(field), **params), mod.funcs[fn])
        except Unsupported as e:
            print(f"{name}/{field}: UNSUPPORTED {e}  [stack {it.callstack}]")
            continue
        except Exception as e:
            print(f"{name}/{field}: CRASH"); traceback.print_exc(); continue
        exp = expected(kind, field, ldeg)
        if isinstance(out, Seq):
            c = dom.collapse(out, None); out = c if c is not None else out
        ok = (isinstance(out, D) and ((exp is None and out.poly) or (exp is not None and (out.poly or out.dim == tuple(map(Fr,exp))))))
        print(f"{name}/{field}: return {out} expected {exp} {'OK' if ok else 'MISMATCH'}  exprs={dom.nexpr} lin={lin_of(out)} maxLexp={dom.maxexp} findings={len(dom.findings)}")
        seen=set()
        for fd in dom.findings:
            if fd.key() in seen: continue
            seen.add(fd.key()); print("    ", fd)
