import sys

from absint import *
from framedom import *
import os
ROOT = os.environ.get('DIMROOT', '/repo')
def run(modname, fn, params, post=None):
    repo = ARepo(ROOT); dom = FrameDomain(); it = Interp(repo, dom); it.tolerant = True
    mod = repo.module(modname)
    node = mod.funcs.get(fn)
    if node is None:   # method: search classes
        for c in ast.walk(mod.tree):
            if isinstance(c, ast.ClassDef):
                for m in c.body:
                    if isinstance(m, ast.FunctionDef) and m.name == fn.split(':')[0] and (':setter' in fn) == any(isinstance(d, ast.Attribute) and d.attr == 'setter' for d in m.decorator_list):
                        node = m
    f = FuncRef(mod, node, name=fn)
    out = it.call_func(f, [], params, node)
    print(f"== {fn}: returns {out}; rotation/point sites checked={dom.sites}; skipped stmts={len(getattr(it,'skipped',[]))}")
    for x in dom.findings: print("    ", x)
    return out, dom, it

class FF(V):
    pass
# getBH_level1: declared boundary types
class FieldFunc(FuncRef):
    pass
repo = ARepo(ROOT)
# emulate field_func contract through a tiny synthetic function
import tempfile, textwrap
out, dom, it = run('magpylib._src.fields.field_wrap_BH', 'getBH_level1',
    dict(field_func=ExtName('FIELD_FUNC'), field=Const('B'), position=Pt('G','G'), orientation=Rot('src','G'), observers=Pt('G','G')))

print("declared return must be Vec[G]:", out)
import framedom
out, dom, it = run('magpylib._src.fields.field_wrap_BH', 'getBH_level2',
    dict(sources=Unknown(), observers=Unknown(), field=Const('B'), sumup=Const(False), squeeze=Const(True), pixel_agg=Const(None), output=Const('ndarray'), in_out=Const('auto')))
for l in getattr(it,'skipped',[]): print("   skipped", l)

# pose operations
G=Pt('G','G')
out, dom, it = run('magpylib._src.obj_classes.class_BaseTransform', 'apply_rotation',
    dict(target_object=Unknown(), rotation=Rot('G','G'), anchor=Pt('G','G'), start=Const('auto'), parent_path=Const(None)))
for l in getattr(it,'skipped',[]): print("   skipped", l)
out, dom, it = run('magpylib._src.obj_classes.class_BaseTransform', 'apply_rotation',
    dict(target_object=Unknown(), rotation=Rot('G','G'), anchor=Const(None), start=Const('auto'), parent_path=Pt('G','G')))
for l in getattr(it,'skipped',[]): print("   skipped", l)
out, dom, it = run('magpylib._src.obj_classes.class_BaseTransform', 'apply_move',
    dict(target_object=Unknown(), displacement=Vec('G'), start=Const('auto')))
for l in getattr(it,'skipped',[]): print("   skipped", l)
