"""E1 - structured flow analysis with exceptional exits, on which pairing / typestate rules run.

flow.block(stmts, S) -> (S_normal | None, exits)
  S      frozenset of pending flags (may-analysis: union at joins)
  exits  list of (kind, S, node), kind in {'return', 'raise', 'exc', 'break', 'continue'}
         'exc' = a call inside `node` may raise, state is the one *before* the statement's effect

The client supplies
  transfer(stmt, S) -> S'            effect of a simple statement (also of `return expr`)
  call_may_raise(call_node) -> bool  (total builtins are filtered here already)
  enter_loop(s) / leave_loop(s) / exit_loop(s, S_before, S_body_end, S_fix) -> S_out
  transfer_with_enter(s, S) / transfer_with_exit(s, S)
"""
import ast

TOTAL_BUILTINS = {"len", "isinstance", "zip", "range", "enumerate", "getattr", "hasattr", "id", "type",
                  "list", "tuple", "set", "dict", "str", "repr", "bool", "print", "sorted", "any", "all",
                  "min", "max", "abs", "int", "float", "iter", "next", "super", "callable", "format",
                  "issubclass", "slice", "frozenset", "reversed"}


def calls_in(node):
    for n in ast.walk(node):
        if isinstance(n, ast.Call):
            yield n


def join(a, b):
    if a is None:
        return b
    if b is None:
        return a
    return a | b


class BaseClient:
    def transfer(self, s, S):
        return S

    def call_may_raise(self, call):
        return True

    def enter_loop(self, s):
        pass

    def leave_loop(self, s):
        pass

    def exit_loop(self, s, S_before, S_body, S_fix):
        return join(S_before, S_fix)

    def transfer_with_enter(self, s, S):
        return S

    def transfer_with_exit(self, s, S):
        return S

    def assume(self, test, branch, S):
        """refine the state with the outcome of a branch condition (default: no refinement)"""
        return S

    def observe(self, expr, S, stmt):
        """an expression evaluated outside a simple statement (if/while test, for iterable): clients that judge *uses* look at it here"""


class Flow:
    def __init__(self, client):
        self.c = client
        self.n_stmts = 0

    def _assume(self, test, branch, S):
        """`a and b` holds -> a holds and b holds; `a or b` fails -> both fail; `not a` exchanges the outcome; everything else is the client's"""
        while isinstance(test, ast.UnaryOp) and isinstance(test.op, ast.Not):
            test, branch = test.operand, not branch
        if isinstance(test, ast.BoolOp) and ((isinstance(test.op, ast.And) and branch) or (isinstance(test.op, ast.Or) and not branch)):
            for v in test.values:
                S = self._assume(v, branch, S)
            return S
        return self.c.assume(test, branch, S)

    def may_raise(self, node):
        for c in calls_in(node):
            f = c.func
            if isinstance(f, ast.Name) and f.id in TOTAL_BUILTINS:
                continue
            if isinstance(f, ast.Attribute) and f.attr in ("items", "keys", "values") and not c.args and not c.keywords and isinstance(f.value, ast.Name):
                continue          # the views of a local dictionary: total like zip / enumerate
            if self.c.call_may_raise(c):
                return True
        return False

    def block(self, stmts, S):
        exits = []
        for s in stmts:
            if S is None:
                break
            S, ex = self.stmt(s, S)
            exits += ex
        return S, exits

    def stmt(self, s, S):
        c = self.c
        self.n_stmts += 1
        if isinstance(s, ast.Return):
            ex = []
            if s.value is not None and self.may_raise(s.value):
                ex.append(("exc", S, s))
            return None, ex + [("return", c.transfer(s, S), s)]
        if isinstance(s, ast.Raise):
            return None, [("raise", S, s)]
        if isinstance(s, ast.Break):
            return None, [("break", S, s)]
        if isinstance(s, ast.Continue):
            return None, [("continue", S, s)]
        if isinstance(s, ast.If):
            c.observe(s.test, S, s)
            ex = [("exc", S, s)] if self.may_raise(s.test) else []
            t_, pos = s.test, True
            while isinstance(t_, ast.UnaryOp) and isinstance(t_.op, ast.Not):
                t_, pos = t_.operand, not pos            # `if not c:` refines like `if c:` with the branches exchanged
            S1, e1 = self.block(s.body, self._assume(t_, pos, S))
            S2, e2 = self.block(s.orelse, self._assume(t_, not pos, S))
            return join(S1, S2), ex + e1 + e2
        if isinstance(s, (ast.For, ast.While)):
            head = s.iter if isinstance(s, ast.For) else s.test
            c.observe(head, S, s)
            ex = [("exc", S, s)] if self.may_raise(head) else []
            c.enter_loop(s)
            Sin, Sb, body_ex, brk = S, None, [], None
            for _ in range(6):
                Sb, eb = self.block(s.body, Sin)
                brk, body_ex = None, []
                for k, St, n in eb:
                    if k == "continue":
                        Sb = join(Sb, St)
                    elif k == "break":
                        brk = join(brk, St)
                    else:
                        body_ex.append((k, St, n))
                Snew = join(Sin, Sb)
                if Snew == Sin:
                    break
                Sin = Snew
            Sout = c.exit_loop(s, S, Sb if Sb is not None else Sin, Sin)
            c.leave_loop(s)
            So, eo = self.block(s.orelse, Sout) if s.orelse else (Sout, [])
            So = join(So, brk)
            return So, ex + body_ex + eo
        if isinstance(s, ast.Try):
            Sb, eb = self.block(s.body, S)
            # Python semantics: only a bare `except:` / `except BaseException` sees every exception; `except Exception` lets
            # KeyboardInterrupt / SystemExit / GeneratorExit (raised e.g. inside a user's field function) pass through
            catch_all = any(h.type is None or (isinstance(h.type, ast.Name) and h.type.id == "BaseException")
                            for h in s.handlers)
            caught, passed = [], []
            for kind, St, node in eb:
                if kind in ("raise", "exc") and s.handlers:
                    caught.append(St)
                    if not catch_all:
                        passed.append((kind, St, node))
                else:
                    passed.append((kind, St, node))
            outs, hex_ = [Sb], []
            if s.handlers:
                Sh_in = None
                for St in caught:
                    Sh_in = join(Sh_in, St)
                if Sh_in is not None:
                    for h in s.handlers:
                        Sh, eh = self.block(h.body, Sh_in)
                        outs.append(Sh)
                        hex_ += eh
            if s.orelse:
                Se, ee = self.block(s.orelse, Sb) if Sb is not None else (None, [])
                outs[0] = Se
                hex_ += ee
            Sn = None
            for o in outs:
                Sn = join(Sn, o)
            allex = passed + hex_
            if s.finalbody:
                newex = []
                for kind, St, node in allex:
                    Sf, ef = self.block(s.finalbody, St)
                    newex += ef
                    if Sf is not None:
                        newex.append((kind, Sf, node))
                allex = newex
                if Sn is not None:
                    Sn, ef = self.block(s.finalbody, Sn)
                    allex += ef
            return Sn, allex
        if isinstance(s, ast.With):
            ex = []
            for it in s.items:
                if self.may_raise(it.context_expr):
                    ex.append(("exc", S, s))
            S = c.transfer_with_enter(s, S)
            Sb, eb = self.block(s.body, S)
            eb2 = [(k, c.transfer_with_exit(s, St), n) for k, St, n in eb]
            return (c.transfer_with_exit(s, Sb) if Sb is not None else None), ex + eb2
        if isinstance(s, (ast.FunctionDef, ast.ClassDef, ast.Import, ast.ImportFrom, ast.Pass, ast.Global, ast.Nonlocal)):
            return S, []
        # simple statement: may raise before its effect takes place
        ex = [("exc", S, s)] if self.may_raise(s) else []
        for n in ast.walk(s):
            if isinstance(n, (ast.Yield, ast.YieldFrom)):
                # generator-based context manager: the body of the caller's `with` may raise here
                ex.append(("exc", S, s))
        return c.transfer(s, S), ex


def function_exits(fn, client, S0=frozenset()):
    """run the flow over a function body; loop-control exits cannot escape a function"""
    fl = Flow(client)
    S, exits = fl.block(fn.body, S0)
    exits = [(k, St, n) for k, St, n in exits if k not in ("break", "continue")]
    if S is not None:
        exits.append(("fallthrough", S, fn))
    return exits, fl.n_stmts
