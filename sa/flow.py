"""Prototype E1: structured flow analysis with exceptional exits + typestate.  Scratch.

flow(stmts, S) -> (S_normal | None, exits)   S = frozenset of pending flags (may-pending)
exits: list of (kind, S, node) with kind in {'return','raise','exc'}
A client supplies transfer(stmt, S) -> S' for simple statements and call_may_raise(callnode) -> bool.
"""
import ast

TOTAL_BUILTINS = {"len", "isinstance", "zip", "range", "enumerate", "getattr", "hasattr", "id", "type",
                  "list", "tuple", "set", "dict", "str", "repr", "bool", "print", "sorted", "any", "all",
                  "min", "max", "abs", "int", "float", "iter", "next", "super", "callable", "format"}


def calls_in(node):
    for n in ast.walk(node):
        if isinstance(n, ast.Call):
            yield n


class Flow:
    def __init__(self, client):
        self.c = client

    def may_raise(self, stmt_or_expr):
        for c in calls_in(stmt_or_expr):
            f = c.func
            if isinstance(f, ast.Name) and f.id in TOTAL_BUILTINS:
                continue
            if self.c.call_may_raise(c):
                return True
        return False

    def block(self, stmts, S):
        exits = []
        for s in stmts:
            if S is None:
                break
            S, ex = self.stmt(s, S)
            exits += ex
        return S, exits

    def stmt(self, s, S):
        c = self.c
        if isinstance(s, (ast.Return,)):
            ex = []
            if s.value is not None and self.may_raise(s.value):
                ex.append(("exc", S, s))
            S2 = c.transfer(s, S)
            return None, ex + [("return", S2, s)]
        if isinstance(s, ast.Raise):
            return None, [("raise", S, s)]
        if isinstance(s, ast.If):
            ex = [("exc", S, s)] if self.may_raise(s.test) else []
            S1, e1 = self.block(s.body, S)
            S2, e2 = self.block(s.orelse, S)
            return join(S1, S2), ex + e1 + e2
        if isinstance(s, (ast.For, ast.While)):
            head = s.iter if isinstance(s, ast.For) else s.test
            ex = [("exc", S, s)] if self.may_raise(head) else []
            c.enter_loop(s)
            # iterate to fixpoint (flags only grow/shrink within a small lattice)
            Sin = S
            allex = []
            for _ in range(4):
                Sb, eb = self.block(s.body, Sin)
                allex = eb
                Snew = join(Sin, Sb)
                if Snew == Sin:
                    break
                Sin = Snew
            Sout = c.exit_loop(s, S, Sb if Sb is not None else Sin, Sin)
            c.leave_loop(s)
            # dedupe exits
            So, eo = self.block(s.orelse, Sout) if s.orelse else (Sout, [])
            return So, ex + allex + eo
        if isinstance(s, ast.Try):
            Sb, eb = self.block(s.body, S)
            caught, passed = [], []
            for kind, St, node in eb:
                if kind in ("raise", "exc") and s.handlers:
                    caught.append(St)
                    # specific handlers may not catch everything -> also propagate unless bare/Exception
                    if not any(h.type is None or (isinstance(h.type, ast.Name) and h.type.id in ("Exception", "BaseException")) for h in s.handlers):
                        passed.append((kind, St, node))
                else:
                    passed.append((kind, St, node))
            outs = [Sb]
            hex_ = []
            if s.handlers and (caught or True):
                Sh_in = None
                for St in caught:
                    Sh_in = join(Sh_in, St)
                if Sh_in is not None:
                    for h in s.handlers:
                        Sh, eh = self.block(h.body, Sh_in)
                        outs.append(Sh)
                        hex_ += eh
            if s.orelse:
                Se, ee = self.block(s.orelse, Sb) if Sb is not None else (None, [])
                outs[0] = Se
                hex_ += ee
            Sn = None
            for o in outs:
                Sn = join(Sn, o)
            allex = passed + hex_
            if s.finalbody:
                # every exit and the normal continuation pass through finally
                newex = []
                for kind, St, node in allex:
                    Sf, ef = self.block(s.finalbody, St)
                    newex += ef
                    if Sf is not None:
                        newex.append((kind, Sf, node))
                allex = newex
                if Sn is not None:
                    Sn, ef = self.block(s.finalbody, Sn)
                    allex += ef
            return Sn, allex
        if isinstance(s, ast.With):
            ex = []
            for it in s.items:
                if self.may_raise(it.context_expr):
                    ex.append(("exc", S, s))
            S = c.transfer_with_enter(s, S)
            Sb, eb = self.block(s.body, S)
            # __exit__ runs on all exits
            eb2 = [(k, c.transfer_with_exit(s, St), n) for k, St, n in eb]
            return (c.transfer_with_exit(s, Sb) if Sb is not None else None), ex + eb2
        if isinstance(s, (ast.FunctionDef, ast.ClassDef, ast.Import, ast.ImportFrom, ast.Pass, ast.Global)):
            return S, []
        if isinstance(s, (ast.Break, ast.Continue)):
            return S, []      # approximated
        # simple statement: may raise before its effect
        ex = [("exc", S, s)] if self.may_raise(s) else []
        # yield inside a generator-based context manager: body of the with-statement may raise here
        for n in ast.walk(s):
            if isinstance(n, (ast.Yield, ast.YieldFrom)):
                ex.append(("exc", S, s))
        # callee summaries may change state even when raising is impossible
        return c.transfer(s, S), ex


def join(a, b):
    if a is None:
        return b
    if b is None:
        return a
    return a | b
