"""E7 - helper inlining (second view of the tree, used only when the plain view raises an alarm or loses an anchor).

Most rules of this checker are intraprocedural: they look for a construct *inside* the function the property is anchored in.
The commonest behaviour-preserving edit - "extract this block into a helper" - moves the construct out of that function and
would turn into a false alarm (a new writer of `_position`, a vanished anchor).  Inlining the helper back is a semantics-preserving
program transformation, so a verdict reached on the inlined tree is a verdict about the same behaviour.

What is inlined: calls to functions / methods that are NOT in the inventory of the reference tree (baseline_functions.json: every
function the rules were written against and confirmed on), are defined in the caller's module (methods: in the caller's class),
and have a shape the transformation handles exactly:
  * plain `def` without decorators, *args/**kwargs, nested def/class, yield, global/nonlocal, and not recursive;
  * `return f(..)` call sites take the body verbatim (the helper's returns become the caller's);
  * other call sites need "structured" returns - every return in tail position, possibly after guard clauses
    (`if c: return x` + rest  ->  `if c: R = x  else: rest`), inside try/with only when nothing follows; no return inside a loop;
  * the call is hoisted out of its statement only when everything evaluated before it is a name / constant / attribute chain.
Parameters are bound by assignment (`p = arg`); a parameter that the helper never rebinds and whose argument is a plain name or a
constant is substituted.  Locals of the helper that collide with names of the caller are renamed.  A helper whose call sites were
all inlined and that is referenced nowhere else is removed, so that who-may-write rules see the stores where they now execute.
Anything outside this envelope is left as a call: the plain verdict then stands.
"""
from __future__ import annotations

import ast
import copy
import glob
import json
import os

HERE = os.path.dirname(os.path.abspath(__file__))
INVENTORY = os.path.join(HERE, "baseline_functions.json")


def module_functions(tree):
    """-> {qualname: (FunctionDef, owner ClassDef|None)} for module-level functions and methods of module-level classes"""
    out = {}
    for n in tree.body:
        if isinstance(n, ast.FunctionDef):
            out[n.name] = (n, None)
        elif isinstance(n, ast.ClassDef):
            for m in n.body:
                if isinstance(m, ast.FunctionDef):
                    q = f"{n.name}.{m.name}"
                    if q in out:        # property getter / setter pairs share a name: never inlined anyway
                        q = f"{q}#{len([k for k in out if k.startswith(q)])}"
                    out[q] = (m, n)
    return out


def inventory_of(root):
    inv = []
    for path in sorted(glob.glob(os.path.join(root, "magpylib", "**", "*.py"), recursive=True)):
        rel = os.path.relpath(path, root)
        tree = ast.parse(open(path, encoding="utf-8").read())
        for q, (fn_, _o) in module_functions(tree).items():
            inv.append(f"{rel}:{q.split('#')[0]}")
            for n_, _h in Inliner._direct_nested(fn_):
                inv.append(f"{rel}:{q.split('#')[0]}.<locals>.{n_.name}")
        for n in tree.body:
            if isinstance(n, ast.ClassDef):
                inv.append(f"{rel}:class {n.name}")
            elif isinstance(n, (ast.Assign, ast.AnnAssign)):
                for t in (n.targets if isinstance(n, ast.Assign) else [n.target]):
                    if isinstance(t, ast.Name):
                        inv.append(f"{rel}:const {t.id}")
    return sorted(set(inv))


def load_inventory():
    return set(json.load(open(INVENTORY)))


# ------------------------------------------------------------------ shape tests
def _contains(nodes, types):
    for s in nodes:
        for x in ast.walk(s):
            if isinstance(x, types):
                return True
    return False


def _has_return(stmts):
    return _contains(stmts, ast.Return)


def _always_exits(stmts):
    """every path through stmts ends in return / raise"""
    for s in stmts:
        if isinstance(s, (ast.Return, ast.Raise)):
            return True
        if isinstance(s, ast.If) and s.orelse and _always_exits(s.body) and _always_exits(s.orelse):
            return True
        if isinstance(s, ast.Try) and not s.handlers and _always_exits(s.body):
            return True
        if isinstance(s, ast.Try) and s.handlers and _always_exits(s.body) and all(_always_exits(h.body) for h in s.handlers):
            return True
        if isinstance(s, ast.With) and _always_exits(s.body):
            return True
    return False


class NotInlinable(Exception):
    pass


def _structure(stmts, res_name):
    """rewrite a statement list in tail position so that `return e` becomes `res_name = e` and nothing runs after it"""
    out = []
    for i, s in enumerate(stmts):
        rest = stmts[i + 1:]
        if isinstance(s, ast.Return):
            if res_name is not None:
                out.append(ast.Assign(targets=[ast.Name(id=res_name, ctx=ast.Store())], value=s.value or ast.Constant(value=None), lineno=s.lineno))
            elif s.value is not None and not isinstance(s.value, (ast.Name, ast.Constant)):
                out.append(ast.Expr(value=s.value, lineno=s.lineno))
            if not out:
                out.append(ast.Pass())
            return out
        if not _has_return([s]):
            out.append(s)
            continue
        if isinstance(s, ast.If):
            new = ast.If(test=s.test, lineno=s.lineno, body=[], orelse=[])
            b_exit, o_exit = _always_exits(s.body), _always_exits(s.orelse)
            new.body = _structure(list(s.body) + ([] if b_exit else copy.deepcopy(rest)), res_name)
            new.orelse = _structure(list(s.orelse) + ([] if o_exit else copy.deepcopy(rest)), res_name)
            if new.orelse and len(new.orelse) == 1 and isinstance(new.orelse[0], ast.Pass):
                new.orelse = []
            out.append(new)
            return out
        if isinstance(s, ast.Try):
            if _has_return(s.finalbody):
                raise NotInlinable("return in finally")
            covered = _always_exits(s.body) and all(_always_exits(h.body) for h in s.handlers) and not s.orelse
            if rest and not covered:
                raise NotInlinable("code after a try that returns")
            new = ast.Try(body=_structure(s.body, res_name), handlers=[], orelse=_structure(s.orelse, res_name) if s.orelse else [],
                          finalbody=s.finalbody, lineno=s.lineno)
            for h in s.handlers:
                new.handlers.append(ast.ExceptHandler(type=h.type, name=h.name, body=_structure(h.body, res_name), lineno=h.lineno))
            out.append(new)
            return out
        if isinstance(s, ast.With):
            if rest and not _always_exits(s.body):
                raise NotInlinable("code after a with that returns")
            out.append(ast.With(items=s.items, body=_structure(s.body, res_name), lineno=s.lineno))
            return out
        raise NotInlinable(f"return inside {type(s).__name__}")
    if res_name is not None:
        out.append(ast.Assign(targets=[ast.Name(id=res_name, ctx=ast.Store())], value=ast.Constant(value=None), lineno=getattr(stmts[-1], "lineno", 0) if stmts else 0))
    if not out:
        out.append(ast.Pass())
    return out


def _kwarg_only_forwarded(fn):
    """the **kwargs parameter is used only as `**kwargs` in calls (forwarded as a whole, never read or changed)"""
    kw = fn.args.kwarg.arg
    uses = [x for x in ast.walk(fn) if isinstance(x, ast.Name) and x.id == kw]
    fwd = [k.value for c in ast.walk(fn) if isinstance(c, ast.Call) for k in c.keywords if k.arg is None and isinstance(k.value, ast.Name) and k.value.id == kw]
    return len(uses) == len(fwd) and all(isinstance(u.ctx, ast.Load) for u in uses)


def _vararg_only_forwarded(fn):
    """the *args parameter is used only as `*args` in calls (forwarded as a whole, never read or changed)"""
    va = fn.args.vararg.arg
    uses = [x for x in ast.walk(fn) if isinstance(x, ast.Name) and x.id == va]
    fwd = [a for c in ast.walk(fn) if isinstance(c, ast.Call) for a in c.args if isinstance(a, ast.Starred) and isinstance(a.value, ast.Name) and a.value.id == va]
    return len(uses) == len(fwd) and all(isinstance(u.ctx, ast.Load) for u in uses)


def _basic_ok(fn: ast.FunctionDef):
    if fn.decorator_list:
        return False
    if fn.args.vararg and not _vararg_only_forwarded(fn) and any(
            isinstance(x, ast.Name) and x.id == fn.args.vararg.arg and isinstance(x.ctx, (ast.Store, ast.Del)) for x in ast.walk(fn)):
        return False        # (a *args that is read as a value is bound to the tuple of the extra arguments at the call site)
    if fn.args.kwarg and not _kwarg_only_forwarded(fn):
        return False
    for x in ast.walk(fn):
        if x is not fn and isinstance(x, (ast.FunctionDef, ast.AsyncFunctionDef, ast.ClassDef)):
            return False
        if isinstance(x, (ast.Yield, ast.YieldFrom, ast.Await, ast.Global, ast.Nonlocal)):
            return False
    for d in list(fn.args.defaults) + [d for d in fn.args.kw_defaults if d is not None]:
        if not (isinstance(d, ast.Constant) or (isinstance(d, ast.UnaryOp) and isinstance(d.operand, ast.Constant))
                or (isinstance(d, (ast.Tuple, ast.List)) and not d.elts)):
            return False
    return True


def _locals_of(fn):
    params = [a.arg for a in fn.args.posonlyargs + fn.args.args + fn.args.kwonlyargs]
    stored, imported = set(), set()
    for x in ast.walk(fn):
        if isinstance(x, ast.Name) and isinstance(x.ctx, (ast.Store, ast.Del)):
            stored.add(x.id)
        elif isinstance(x, ast.ExceptHandler) and x.name:
            stored.add(x.name)
        elif isinstance(x, (ast.Import, ast.ImportFrom)):
            for a in x.names:
                imported.add((a.asname or a.name).split(".")[0])
    return params, stored, imported


def _names_in(fn):
    out = set()
    for x in ast.walk(fn):
        if isinstance(x, ast.Name):
            out.add(x.id)
        elif isinstance(x, ast.arg):
            out.add(x.arg)
        elif isinstance(x, ast.ExceptHandler) and x.name:
            out.add(x.name)
        elif isinstance(x, (ast.Import, ast.ImportFrom)):
            for a in x.names:
                out.add((a.asname or a.name).split(".")[0])
    return out


class _Fold(ast.NodeTransformer):
    """constant folding after literal arguments were substituted: f"_{'x'}" -> "_x", "a" + "b" -> "ab", getattr(o, "name") -> o.name,
    `setattr(o, "name", v)` as a statement -> `o.name = v`"""
    def visit_JoinedStr(self, n):
        self.generic_visit(n)
        parts = []
        for v in n.values:
            if isinstance(v, ast.Constant) and isinstance(v.value, str):
                parts.append(v.value)
            elif isinstance(v, ast.FormattedValue) and v.conversion == -1 and v.format_spec is None and isinstance(v.value, ast.Constant) and isinstance(v.value.value, str):
                parts.append(v.value.value)
            else:
                return n
        return ast.Constant(value="".join(parts))

    def visit_BinOp(self, n):
        self.generic_visit(n)
        if isinstance(n.op, ast.Add) and isinstance(n.left, ast.Constant) and isinstance(n.right, ast.Constant) and isinstance(n.left.value, str) and isinstance(n.right.value, str):
            return ast.Constant(value=n.left.value + n.right.value)
        return n

    def visit_Call(self, n):
        self.generic_visit(n)
        if isinstance(n.func, ast.Lambda) and not n.keywords and len(n.args) == len(n.func.args.args) and not n.func.args.posonlyargs \
                and all(isinstance(a, (ast.Name, ast.Constant)) for a in n.args) and not n.func.args.defaults and not n.func.args.vararg \
                and not n.func.args.kwarg and not n.func.args.kwonlyargs \
                and not any(isinstance(x, (ast.Lambda, ast.NamedExpr, ast.ListComp, ast.GeneratorExp, ast.SetComp, ast.DictComp)) for x in ast.walk(n.func.body)):
            # (lambda a: E)(x)  ->  E[a := x]      (x a name or constant: nothing is evaluated earlier or twice)
            m = ast.Module(body=[ast.Expr(value=copy.deepcopy(n.func.body))], type_ignores=[])
            _Subst({}, {p_.arg: a for p_, a in zip(n.func.args.args, n.args)}).visit(m)
            return self.visit(m.body[0].value)
        if isinstance(n.func, ast.Name) and n.func.id == "getattr" and len(n.args) == 2 and not n.keywords and isinstance(n.args[1], ast.Constant) \
                and isinstance(n.args[1].value, str) and n.args[1].value.isidentifier():
            return ast.Attribute(value=n.args[0], attr=n.args[1].value, ctx=ast.Load())
        return n

    def visit_Compare(self, n):
        self.generic_visit(n)
        if len(n.ops) == 1 and isinstance(n.ops[0], (ast.Is, ast.IsNot)) and isinstance(n.left, ast.Constant) and isinstance(n.comparators[0], ast.Constant) \
                and n.left.value is None and n.comparators[0].value is None:
            return ast.Constant(value=isinstance(n.ops[0], ast.Is))       # a literal None written into an inlined helper's `x is None` test
        return n

    def visit_Expr(self, n):
        self.generic_visit(n)
        c = n.value
        if isinstance(c, ast.Call) and isinstance(c.func, ast.Name) and c.func.id == "setattr" and len(c.args) == 3 and not c.keywords \
                and isinstance(c.args[1], ast.Constant) and isinstance(c.args[1].value, str) and c.args[1].value.isidentifier():
            return ast.Assign(targets=[ast.Attribute(value=c.args[0], attr=c.args[1].value, ctx=ast.Store())], value=c.args[2], lineno=getattr(n, "lineno", 0))
        return n


class _Subst(ast.NodeTransformer):
    def __init__(self, ren, sub):
        self.ren, self.sub = ren, sub

    def visit_Name(self, n):
        if n.id in self.sub and isinstance(n.ctx, ast.Load):
            return copy.deepcopy(self.sub[n.id])
        if n.id in self.ren:
            return ast.Name(id=self.ren[n.id], ctx=n.ctx)
        return n

    def visit_ExceptHandler(self, n):
        self.generic_visit(n)
        if n.name in self.ren:
            n.name = self.ren[n.name]
        return n


def _simple(e):
    while isinstance(e, ast.Attribute):
        e = e.value
    return isinstance(e, (ast.Name, ast.Constant))


def module_bindings(tree, rel):
    """top-level name -> origin: 'import:<module>' / 'from:<level>:<module>:<name>' / 'local:<rel>:<name>' (several bindings: 'ambiguous')"""
    out = {}

    def put(name, origin):
        out[name] = origin if out.get(name, origin) == origin else "ambiguous"
    for n in tree.body:
        if isinstance(n, ast.Import):
            for a in n.names:
                put((a.asname or a.name).split(".")[0], f"import:{a.name if a.asname else a.name.split('.')[0]}")
        elif isinstance(n, ast.ImportFrom):
            for a in n.names:
                put(a.asname or a.name, f"from:{'.' * n.level}{n.module or ''}:{a.name}")
        elif isinstance(n, (ast.FunctionDef, ast.ClassDef)):
            put(n.name, f"local:{rel}:{n.name}")
        elif isinstance(n, (ast.Assign, ast.AnnAssign)):
            for t in (n.targets if isinstance(n, ast.Assign) else [n.target]):
                for x in ast.walk(t):
                    if isinstance(x, ast.Name):
                        put(x.id, f"local:{rel}:{x.id}")
        else:
            for x in ast.walk(n):
                if isinstance(x, ast.Name) and isinstance(x.ctx, ast.Store):
                    out[x.id] = "ambiguous"
                elif isinstance(x, (ast.Import, ast.ImportFrom)):
                    for a in x.names:
                        out[(a.asname or a.name).split(".")[0]] = "ambiguous"
    return out


def free_globals(fn):
    """names a function reads that are neither its parameters nor its locals nor builtins"""
    import builtins
    params, stored, imported = _locals_of(fn)
    bound = set(params) | stored | imported | {a.arg for a in (fn.args.vararg, fn.args.kwarg) if a}
    for x in ast.walk(fn):
        if isinstance(x, (ast.comprehension,)):
            bound |= {y.id for y in ast.walk(x.target) if isinstance(y, ast.Name)}
        if isinstance(x, ast.Lambda):
            bound |= {a.arg for a in x.args.args}
    return {x.id for x in ast.walk(fn) if isinstance(x, ast.Name) and isinstance(x.ctx, ast.Load) and x.id not in bound and not hasattr(builtins, x.id)}


class Inliner:
    def __init__(self, rel, tree, inventory, other_class_methods, foreign=None, bindings=None):
        self.rel, self.tree, self.inv = rel, tree, inventory
        # helpers defined elsewhere in the package (not part of the reference tree, name unique in the whole tree):
        #   name -> (FunctionDef, owner ClassDef | None, home rel, home bindings);  bindings: rel -> module_bindings
        self.foreign = foreign or {}
        self.bindings = bindings or {}
        self._foreign_ok = {}
        self.funcs = module_functions(tree)
        self.other_class_methods = other_class_methods      # method names defined by classes elsewhere (dispatch could differ)
        self.counter = 0
        self.inlined = {}       # helper qualname -> number of call sites inlined
        self.helpers = {}
        self.static = set()
        self.classmethods = set()
        for q, (fn, owner) in self.funcs.items():
            if "#" in q or f"{rel}:{q}" in self.inv:
                continue
            if owner is not None and f"{rel}:class {owner.name}" not in self.inv:
                # method of a new class: receiver type unknown at the call site - except a classmethod called on the class by name
                if len(fn.decorator_list) == 1 and isinstance(fn.decorator_list[0], ast.Name) and fn.decorator_list[0].id == "classmethod" \
                        and fn.args.args and not any(isinstance(x, ast.Name) and x.id == fn.args.args[0].arg and isinstance(x.ctx, ast.Store) for x in ast.walk(fn)):
                    saved_ = fn.decorator_list
                    fn.decorator_list = []
                    ok_ = _basic_ok(fn)
                    fn.decorator_list = saved_
                    if ok_:
                        self.helpers[q] = (fn, owner)
                        self.classmethods.add(q)
                continue
            if owner is not None and len(fn.decorator_list) == 1 and isinstance(fn.decorator_list[0], ast.Name) and fn.decorator_list[0].id == "staticmethod":
                # `self.helper(..)` on a static method: a plain function that happens to live in the class
                saved_ = fn.decorator_list
                fn.decorator_list = []
                ok_ = _basic_ok(fn)
                fn.decorator_list = saved_
                if ok_:
                    self.helpers[q] = (fn, owner)
                    self.static.add(q)
                continue
            if _basic_ok(fn):
                self.helpers[q] = (fn, owner)
        # generator helpers consumed by a `for` statement (generator fusion): module-level, yields only as statements, no return,
        # no try / with around a yield (close() semantics)
        self.gen_helpers = {}
        for q, (fn, owner) in self.funcs.items():
            if "#" in q or f"{rel}:{q}" in self.inv or fn.decorator_list or fn.args.vararg or fn.args.kwarg:
                continue
            if owner is not None and (f"{rel}:class {owner.name}" not in self.inv or fn.name in self.other_class_methods.get(owner.name, set())
                                      or not fn.args.args or fn.args.args[0].arg != "self"):
                continue            # a generator method is fused only for `self.m(..)` inside its own (reference) class
            ys = [x for x in ast.walk(fn) if isinstance(x, (ast.Yield, ast.YieldFrom))]
            if not ys or any(isinstance(x, ast.YieldFrom) for x in ys):
                continue
            stmts_y = [x for x in ast.walk(fn) if isinstance(x, ast.Expr) and isinstance(x.value, ast.Yield)]
            bad = any(isinstance(x, (ast.Return, ast.Try, ast.With, ast.FunctionDef, ast.ClassDef, ast.Lambda, ast.Global, ast.Nonlocal, ast.Await)) and x is not fn
                      for x in ast.walk(fn))
            if len(stmts_y) == len(ys) and not bad:
                self.gen_helpers[q] = (fn, owner)
        # @contextmanager generators consumed by a `with` statement: one yield, at function level or directly inside a try/finally without handlers
        self.cm_helpers = {}
        for q, (fn, owner) in self.funcs.items():
            if "#" in q or f"{rel}:{q}" in self.inv or owner is not None or fn.args.vararg or fn.args.kwarg or len(fn.decorator_list) != 1 \
                    or not ast.unparse(fn.decorator_list[0]).endswith("contextmanager"):
                continue
            ys = [x for x in ast.walk(fn) if isinstance(x, (ast.Yield, ast.YieldFrom))]
            if len(ys) != 1 or isinstance(ys[0], ast.YieldFrom) or any(isinstance(x, (ast.Return, ast.FunctionDef, ast.ClassDef, ast.Lambda, ast.Global, ast.Nonlocal)) and x is not fn for x in ast.walk(fn)):
                continue
            spots = [b for b in [fn.body] + [t.body for t in fn.body if isinstance(t, ast.Try) and not t.handlers and not t.orelse]
                     if any(isinstance(st, ast.Expr) and st.value is ys[0] for st in b)]
            if spots:
                self.cm_helpers[q] = (fn, None)
        # class-based context managers that are not part of the reference tree: __init__ stores call-free expressions of its parameters,
        # __exit__ never suppresses (returns only False / None) and ignores the exception it is handed
        self.cm_classes = {}
        for n in tree.body:
            if not isinstance(n, ast.ClassDef) or f"{rel}:class {n.name}" in self.inv or n.bases or n.keywords or n.decorator_list:
                continue
            ms = {m.name: m for m in n.body if isinstance(m, ast.FunctionDef)}
            if set(ms) != {"__init__", "__enter__", "__exit__"} or any(m.decorator_list or m.args.vararg or m.args.kwarg for m in ms.values()):
                continue
            ex = ms["__exit__"]
            exc_params = {a.arg for a in ex.args.args[1:]}
            ok = all(r.value is None or (isinstance(r.value, ast.Constant) and r.value.value in (False, None)) for r in ast.walk(ex) if isinstance(r, ast.Return)) \
                and not any(isinstance(x, ast.Name) and x.id in exc_params for x in ast.walk(ex)) and len(ex.args.args) == 4 and len(ms["__enter__"].args.args) == 1
            fields = {}
            for st in ms["__init__"].body:
                if isinstance(st, ast.Expr) and isinstance(st.value, ast.Constant):
                    continue
                if isinstance(st, ast.Assign) and len(st.targets) == 1 and isinstance(st.targets[0], ast.Attribute) and isinstance(st.targets[0].value, ast.Name) \
                        and st.targets[0].value.id == "self" and _pure(st.value) and not any(isinstance(x, ast.Name) and x.id == "self" for x in ast.walk(st.value)):
                    fields[st.targets[0].attr] = st.value
                else:
                    ok = False
            if ok and fields and all(_basic_ok(m) for m in ms.values()):
                self.cm_classes[n.name] = (n, ms, fields)
        # no recursion among helpers
        for q in list(self.helpers):
            if self._reaches(q, q, set()):
                del self.helpers[q]

    def _callees(self, q):
        fn, owner = self.helpers[q]
        out = set()
        for c in ast.walk(fn):
            if isinstance(c, ast.Call):
                t = self._target(c, owner)
                if t:
                    out.add(t)
        return out

    def _reaches(self, a, b, seen):
        for c in self._callees(a):
            if c == b:
                return True
            if c not in seen:
                seen.add(c)
                if self._reaches(c, b, seen):
                    return True
        return False

    def _target(self, call, owner):
        f = call.func
        if isinstance(f, ast.Name) and f.id in self.helpers and self.helpers[f.id][1] is None:
            return f.id
        if isinstance(f, ast.Attribute) and isinstance(f.value, ast.Name) and f.value.id == "self" and owner is not None:
            q = f"{owner.name}.{f.attr}"
            if q in self.helpers and q not in self.classmethods and f.attr not in self.other_class_methods.get(owner.name, set()):
                return q
        if isinstance(f, ast.Attribute) and isinstance(f.value, ast.Name) and f"{f.value.id}.{f.attr}" in self.classmethods:
            return f"{f.value.id}.{f.attr}"          # `NewClass.make(..)`: the class is named, the classmethod is that one
        return self._foreign_target(call)

    def _import_pos(self):
        i = 0
        while i < len(self.tree.body) and (isinstance(self.tree.body[i], (ast.Import, ast.ImportFrom)) or (
                isinstance(self.tree.body[i], ast.Expr) and isinstance(self.tree.body[i].value, ast.Constant))):
            i += 1
        return i

    def _foreign_target(self, call):
        """a helper defined in another module / a method called on something other than `self`: its name is unique in the whole tree and it is
        not part of the reference tree, so the call can only mean that definition; every global name its body reads must mean the same
        thing in this module (same import), else the body cannot be written out here"""
        f = call.func
        if isinstance(f, ast.Name) and f.id in self.foreign and self.foreign[f.id][1] is None:
            name = f.id
            mine = self.bindings.get(self.rel, {}).get(name, "")
            if mine != f"from:{self.foreign[name][2][:-3].replace('/', '.')}:{name}":
                return None
        elif isinstance(f, ast.Attribute) and isinstance(f.value, ast.Name) and f.attr in self.foreign and self.foreign[f.attr][1] is not None:
            name = f.attr
        else:
            return None
        if name not in self._foreign_ok:
            fn, owner, home, hb = self.foreign[name]
            here = self.bindings.get(self.rel, {})
            ok = True
            home_mod = home[:-3].replace("/", ".")
            need = []
            for g in sorted(free_globals(fn)):
                a, b = hb.get(g), here.get(g)
                if a is None or a == "ambiguous":
                    ok = False
                    continue
                if a.startswith("local:"):
                    a = f"from:{home_mod}:{g}"       # what the home module defines is what this module gets by importing it from there
                    if home == self.rel:
                        a = hb.get(g)
                if b is None and a.startswith("from:") and not a.startswith("from:."):
                    need.append((a.split(":")[1], g))   # the name is not bound here: import it as the home module has it
                elif a != b:
                    ok = False
            if ok:
                for mod_, g in need:
                    self.tree.body.insert(self._import_pos(), ast.ImportFrom(module=mod_, names=[ast.alias(name=g, asname=None)], level=0, lineno=1))
                    self.bindings.setdefault(self.rel, {})[g] = f"from:{mod_}:{g}"
            if isinstance(f, ast.Attribute) and f.value.id == "self" and home == self.rel:
                ok = False           # the same-class path decides (dispatch safety is judged there)
            self._foreign_ok[name] = ok
            if ok:
                self.helpers["@" + name] = (fn, owner)
        return "@" + name if self._foreign_ok[name] else None

    @staticmethod
    def _only_called(fn, p):
        uses = [x for x in ast.walk(fn) if isinstance(x, ast.Name) and x.id == p]
        called = [c for c in ast.walk(fn) if isinstance(c, ast.Call) and isinstance(c.func, ast.Name) and c.func.id == p]
        return bool(uses) and len(uses) == len(called)

    @staticmethod
    def _only_starred(fn, p):
        uses = [x for x in ast.walk(fn) if isinstance(x, ast.Name) and x.id == p]
        starred = [a for c in ast.walk(fn) if isinstance(c, ast.Call) for a in c.args if isinstance(a, ast.Starred) and isinstance(a.value, ast.Name) and a.value.id == p]
        return bool(uses) and len(uses) == len(starred)

    # ------------------------------------------------------------- one call site
    def _expand(self, call, q, caller_fn, mode, res_name, self_name="self"):
        """-> statement list replacing the call; mode in {'return', 'value', 'effect'}"""
        fn, owner = self.helpers[q]
        if any(isinstance(a, ast.Starred) for a in call.args) or any(k.arg is None for k in call.keywords):
            raise NotInlinable("star arguments")
        pos = [a.arg for a in fn.args.posonlyargs + fn.args.args]
        kwonly = [a.arg for a in fn.args.kwonlyargs]
        binding, order = {}, []
        args = list(call.args)
        if q in self.static:
            owner = None
        cls_sub = None
        if q in self.classmethods:
            cls_sub = (pos[0], owner.name)         # the first parameter is the class itself
            pos = pos[1:]
            owner = None
        if owner is not None:
            if not pos or pos[0] != "self":
                raise NotInlinable("method without self")
            if isinstance(call.func, ast.Attribute) and isinstance(call.func.value, ast.Name) and call.func.value.id != "self":
                self_name = call.func.value.id          # `obj.helper(..)`: the body is written out with `obj` for `self`
                if any(isinstance(x, ast.Name) and x.id == self_name and isinstance(x.ctx, ast.Store) for x in ast.walk(fn)):
                    raise NotInlinable("receiver name is a local of the method")
            binding["self"] = ast.Name(id="self", ctx=ast.Load())
            pos_rest = pos[1:]
        else:
            pos_rest = pos
        extra_pos = None
        if fn.args.vararg is not None:
            extra_pos = args[len(pos_rest):]     # goes into *args, which the helper only forwards: written out at the forwarding call
            if not all(isinstance(a, (ast.Name, ast.Constant)) for a in extra_pos):
                raise NotInlinable("computed star argument")
            args = args[:len(pos_rest)]
        if len(args) > len(pos_rest):
            raise NotInlinable("too many arguments")
        for p, a in zip(pos_rest, args):
            binding[p] = a
            order.append(p)
        extra_kw = []
        for k in call.keywords:
            if k.arg in binding:
                raise NotInlinable("bad keyword")
            if k.arg not in pos_rest + kwonly:
                if fn.args.kwarg is None or not isinstance(k.value, (ast.Name, ast.Constant)):
                    raise NotInlinable("bad keyword")
                extra_kw.append(k)          # goes into **kwargs, which the helper only forwards: it is written out at the forwarding call
                continue
            binding[k.arg] = k.value
            order.append(k.arg)
        defaults = dict(zip(pos[len(pos) - len(fn.args.defaults):], fn.args.defaults))
        defaults.update({a: d for a, d in zip(kwonly, fn.args.kw_defaults) if d is not None})
        for p in pos_rest + kwonly:
            if p not in binding:
                if p not in defaults:
                    raise NotInlinable("missing argument")
                binding[p] = copy.deepcopy(defaults[p])
                order.append(p)
        params, stored, imported = _locals_of(fn)
        caller_names = _names_in(caller_fn)
        ren, sub, pre = {}, {}, []
        self.counter += 1
        for name in sorted((set(params) | stored) - imported):
            if name == "self" and owner is not None:
                continue
            if name in caller_names:
                ren[name] = f"{name}_i{self.counter}"
        if owner is not None and self_name != "self":
            if "self" in stored:
                raise NotInlinable("method rebinds self")
            ren["self"] = self_name
        if cls_sub is not None:
            sub[cls_sub[0]] = ast.Name(id=cls_sub[1], ctx=ast.Load())
            ren.pop(cls_sub[0], None)
        star_sub = {}
        if extra_pos is not None:
            va = fn.args.vararg.arg
            if _vararg_only_forwarded(fn):
                star_sub[va] = extra_pos
            else:
                # read as a value (returned, iterated, indexed): the tuple Python would build, under a name of its own
                if va in caller_names:
                    ren[va] = f"{va}_i{self.counter}"
                pre.append(ast.Assign(targets=[ast.Name(id=ren.get(va, va), ctx=ast.Store())],
                                      value=ast.Tuple(elts=[copy.deepcopy(a) for a in extra_pos], ctx=ast.Load()), lineno=call.lineno))
        for p in order:
            a = binding[p]
            if p not in stored and (isinstance(a, (ast.Constant, ast.Name)) or _immutable_literal(a) or _immutable_literal(a, 1)):
                sub[p] = a          # (a tuple display of constants such as `(-1, 3)` is as good as a constant)
                ren.pop(p, None)
            elif p not in stored and isinstance(a, ast.Lambda) and self._only_called(fn, p) and not a.args.defaults and not a.args.kw_defaults \
                    and not a.args.vararg and not a.args.kwarg and not a.args.kwonlyargs:
                # a callable that the helper only calls: the lambda is written at the call (its free names mean the same here: it was written
                # in this function), where an immediately invoked lambda over simple arguments is reduced by _Fold
                sub[p] = a
                ren.pop(p, None)
            elif p not in stored and isinstance(a, ast.Tuple) and all(isinstance(e, (ast.Name, ast.Constant)) for e in a.elts) and self._only_starred(fn, p):
                star_sub[p] = a.elts        # `args=(x, y)` used only as `f(*args)`: the call becomes `f(x, y)`
                ren.pop(p, None)
            else:
                pre.append(ast.Assign(targets=[ast.Name(id=ren.get(p, p), ctx=ast.Store())], value=a, lineno=call.lineno))
        body = [copy.deepcopy(s) for s in fn.body]
        if body and isinstance(body[0], ast.Expr) and isinstance(body[0].value, ast.Constant) and isinstance(body[0].value.value, str):
            body = body[1:]
        if mode == "return":
            new = body
            if not _always_exits(new):
                new = new + [ast.Return(value=ast.Constant(value=None))]
        else:
            new = _structure(body, "__inl_result__" if mode == "value" else None)
        mod_ = ast.Module(body=new, type_ignores=[])
        _Subst(ren, sub).visit(mod_)        # before the caller's own names are written into the forwarding calls below
        if fn.args.kwarg is not None or star_sub:
            kwname = fn.args.kwarg.arg if fn.args.kwarg is not None else None
            for c in ast.walk(mod_):
                if isinstance(c, ast.Call):
                    if kwname is not None:
                        kws = []
                        for k in c.keywords:
                            if k.arg is None and isinstance(k.value, ast.Name) and k.value.id == kwname:
                                kws += [ast.keyword(arg=e.arg, value=copy.deepcopy(e.value)) for e in extra_kw]
                            else:
                                kws.append(k)
                        c.keywords = kws
                    if star_sub:
                        args_ = []
                        for a_ in c.args:
                            if isinstance(a_, ast.Starred) and isinstance(a_.value, ast.Name) and a_.value.id in star_sub:
                                args_ += [copy.deepcopy(e) for e in star_sub[a_.value.id]]
                            else:
                                args_.append(a_)
                        c.args = args_
        _Fold().visit(mod_)
        if mode == "value":
            # the caller's target is not a local of the helper: it is put in after the helper's locals were renamed
            for x in ast.walk(mod_):
                if isinstance(x, ast.Name) and x.id == "__inl_result__":
                    x.id = res_name
        self.inlined[q] = self.inlined.get(q, 0) + 1
        return pre + mod_.body

    def _gen_key(self, call, owner):
        """key of the generator helper a call denotes: `gen(..)` at module level, `self.gen(..)` inside the generator's own class"""
        if not isinstance(call, ast.Call):
            return None
        f = call.func
        if isinstance(f, ast.Name) and f.id in self.gen_helpers and self.gen_helpers[f.id][1] is None:
            return f.id
        if isinstance(f, ast.Attribute) and isinstance(f.value, ast.Name) and f.value.id == "self" and owner is not None:
            q = f"{owner.name}.{f.attr}"
            if q in self.gen_helpers:
                return q
        return None

    def _fuse(self, loop, caller_fn, owner=None):
        """`for T in gen(args): body`  ->  the generator's body with every `yield v` replaced by `T = v; body` (generator fusion).
        Exact when the consumer body cannot leave the loop early (no break / continue / return of its own)."""
        def escapes(stmts, in_loop=False):
            for st in stmts:
                if isinstance(st, (ast.Return, ast.Yield, ast.YieldFrom)):
                    return True
                if isinstance(st, (ast.Break, ast.Continue)) and not in_loop:
                    return True
                for f in ("body", "orelse", "finalbody"):
                    blk = getattr(st, f, None)
                    if isinstance(blk, list) and blk and isinstance(blk[0], ast.stmt):
                        if escapes(blk, in_loop or isinstance(st, (ast.For, ast.While))):
                            return True
                for h in getattr(st, "handlers", []) or []:
                    if escapes(h.body, in_loop):
                        return True
                if any(isinstance(x, (ast.Yield, ast.YieldFrom, ast.Return)) for x in ast.walk(st)):
                    return True
            return False
        if escapes(loop.body):
            return None
        q = self._gen_key(loop.iter, owner)
        if q is None:
            return None
        saved = self.helpers
        self.helpers = dict(saved)
        self.helpers[q] = self.gen_helpers[q]
        try:
            # bind parameters / rename locals exactly as for a plain helper; the "return" mode keeps the body verbatim
            marker = ast.Return(value=None)
            fn = self.gen_helpers[q][0]
            tnames = {x.id for x in ast.walk(loop.target) if isinstance(x, ast.Name)}
            fake_caller = ast.Module(body=[caller_fn, ast.Expr(value=ast.Tuple(elts=[ast.Name(id=t, ctx=ast.Load()) for t in tnames], ctx=ast.Load()))], type_ignores=[])
            new = self._expand(loop.iter, q, fake_caller, "return", None)
        except NotInlinable:
            return None
        finally:
            self.helpers = saved
        if new and isinstance(new[-1], ast.Return) and new[-1].value is not None and isinstance(new[-1].value, ast.Constant) and new[-1].value.value is None:
            new = new[:-1]          # the implicit end of the generator
        stored_in_body = {x.id for st in loop.body for x in ast.walk(st) if isinstance(x, ast.Name) and isinstance(x.ctx, (ast.Store, ast.Del))}

        class Y(ast.NodeTransformer):
            def visit_Expr(self_, n):
                if not isinstance(n.value, ast.Yield):
                    return n
                v = n.value.value or ast.Constant(value=None)
                body = copy.deepcopy(loop.body)
                tg = copy.deepcopy(loop.target)
                out = [ast.Assign(targets=[tg], value=v, lineno=n.lineno)]
                if isinstance(tg, ast.Tuple) and isinstance(v, ast.Tuple) and len(tg.elts) == len(v.elts) and all(isinstance(a, ast.Name) for a in tg.elts + v.elts) \
                        and not ({a.id for a in tg.elts} & stored_in_body):
                    ren = {a.id: b.id for a, b in zip(tg.elts, v.elts)}
                    m = ast.Module(body=body, type_ignores=[])
                    _Subst(ren, {}).visit(m)
                    body = m.body
                return out + body
        m = ast.Module(body=new, type_ignores=[])
        Y().visit(m)
        self.inlined[q] = self.inlined.get(q, 0) + 0        # counted by _expand already
        return m.body

    def _fuse_cm_class(self, w, caller_fn):
        """`with CM(args) as v: body`, CM a small non-suppressing context-manager class  ->
              <fields of CM as locals> ; <body of __enter__> [; v = its result] ; try: body  finally: <body of __exit__>"""
        call = w.items[0].context_expr
        cname = call.func.id
        node, ms, fields = self.cm_classes[cname]
        init = ms["__init__"]
        params = [a.arg for a in init.args.args][1:]
        if call.keywords or len(call.args) != len(params) or not all(_pure(a) for a in call.args):
            return None
        self.counter += 1
        prefix = f"_cm{self.counter}"
        bind = dict(zip(params, call.args))
        out = []
        for f, e in fields.items():
            m = ast.Module(body=[ast.Expr(value=copy.deepcopy(e))], type_ignores=[])
            _Subst({}, bind).visit(m)
            out.append(ast.Assign(targets=[ast.Name(id=f"{prefix}__{f}", ctx=ast.Store())], value=m.body[0].value, lineno=w.lineno))
        marker = f"{prefix}__self"

        def method(name, mode, res):
            saved = self.helpers
            self.helpers = dict(saved)
            q = f"{cname}.{name}"
            self.helpers[q] = (ms[name], node)
            fake = ast.Call(func=ast.Attribute(value=ast.Name(id="self", ctx=ast.Load()), attr=name, ctx=ast.Load()),
                            args=[ast.Constant(value=None)] * (len(ms[name].args.args) - 1), keywords=[])
            try:
                return self._expand(fake, q, caller_fn, mode, res, self_name=marker)
            finally:
                self.helpers = saved
        try:
            tg = w.items[0].optional_vars
            enter = method("__enter__", "value" if tg is not None else "effect", tg.id if tg is not None else None)
            exit_ = method("__exit__", "effect", None)
        except NotInlinable:
            return None

        class F(ast.NodeTransformer):
            bad = False

            def visit_Attribute(self_, n):
                if isinstance(n.value, ast.Name) and n.value.id == marker:
                    if n.attr not in fields:
                        F.bad = True
                        return n
                    return ast.Name(id=f"{prefix}__{n.attr}", ctx=n.ctx)
                return self_.generic_visit(n)

            def visit_Name(self_, n):
                if n.id == marker:
                    F.bad = True        # the manager object itself escapes
                return n
        m = ast.Module(body=enter + [ast.Try(body=list(w.body), handlers=[], orelse=[], finalbody=exit_ or [ast.Pass()], lineno=w.lineno)], type_ignores=[])
        # only the method bodies are rewritten, not the with-body (it cannot name the manager: there is no `as` binding to it)
        e2 = ast.Module(body=enter, type_ignores=[]); F().visit(e2)
        x2 = ast.Module(body=exit_, type_ignores=[]); F().visit(x2)
        if F.bad:
            return None
        self.inlined[cname] = self.inlined.get(cname, 0) + 1
        return out + e2.body + [ast.Try(body=list(w.body), handlers=[], orelse=[], finalbody=x2.body or [ast.Pass()], lineno=w.lineno)]

    def _fuse_with(self, w, caller_fn):
        """`with cm(args) as v: body` with cm a @contextmanager generator  ->  the generator's body with `yield x` replaced by `v = x; body`
        (an exception raised in the body is raised at the yield, so a try/finally around the yield keeps its meaning)"""
        call = w.items[0].context_expr
        q = call.func.id
        saved = self.helpers
        self.helpers = dict(saved)
        self.helpers[q] = self.cm_helpers[q]
        try:
            tg = w.items[0].optional_vars
            tnames = {x.id for x in ast.walk(tg) if isinstance(x, ast.Name)} if tg is not None else set()
            body_names = {x.id for st in w.body for x in ast.walk(st) if isinstance(x, ast.Name)}
            fake_caller = ast.Module(body=[caller_fn, ast.Expr(value=ast.Tuple(elts=[ast.Name(id=t, ctx=ast.Load()) for t in tnames | body_names], ctx=ast.Load()))], type_ignores=[])
            new = self._expand(call, q, fake_caller, "return", None)
        except NotInlinable:
            return None
        finally:
            self.helpers = saved
        if new and isinstance(new[-1], ast.Return) and isinstance(new[-1].value, ast.Constant) and new[-1].value.value is None:
            new = new[:-1]

        class Y(ast.NodeTransformer):
            def visit_Expr(self_, n):
                if not isinstance(n.value, ast.Yield):
                    return n
                out = []
                if tg is not None:
                    out.append(ast.Assign(targets=[copy.deepcopy(tg)], value=n.value.value or ast.Constant(value=None), lineno=n.lineno))
                elif n.value.value is not None and not isinstance(n.value.value, (ast.Name, ast.Constant)):
                    out.append(ast.Expr(value=n.value.value, lineno=n.lineno))
                return out + list(w.body)
        m = ast.Module(body=new, type_ignores=[])
        Y().visit(m)
        return m.body

    # ------------------------------------------------------------- statements
    def _first_call(self, exprs, owner):
        """first inlinable call in evaluation order such that everything evaluated before it is simple; -> Call or None"""
        found = []

        def walk(e):
            """returns True when evaluation may continue past e (e is simple), appends a found call and stops otherwise"""
            if found:
                return False
            if e is None or _simple(e):
                return True
            if isinstance(e, ast.Call):
                parts = ([e.func.value] if isinstance(e.func, ast.Attribute) else []) + list(e.args) + [k.value for k in e.keywords]
                if isinstance(e.func, ast.Attribute) or isinstance(e.func, ast.Name):
                    ok = True
                    is_target = bool(self._target(e, owner))
                    for p in parts:
                        if isinstance(p, ast.Starred):
                            p = p.value
                        if not walk(p):
                            if is_target and not found and p is not parts[0] or (is_target and not found and not isinstance(e.func, ast.Attribute)):
                                # an argument of the helper call that is neither simple nor contains a helper call: _expand binds the arguments
                                # to temporaries in evaluation order, and an expression cannot rebind a local name (no walrus / await / yield)
                                if not any(isinstance(x, (ast.NamedExpr, ast.Await, ast.Yield, ast.YieldFrom, ast.Lambda)) for x in ast.walk(p)):
                                    continue
                            ok = False
                            break
                    if found:
                        return False
                    if ok and self._target(e, owner):
                        found.append(e)
                        return False
                return False
            if isinstance(e, (ast.Tuple, ast.List)):
                for x in e.elts:
                    if not walk(x):
                        return False
                return True
            if isinstance(e, ast.BinOp):
                return walk(e.left) and walk(e.right)
            if isinstance(e, ast.UnaryOp):
                return walk(e.operand)
            if isinstance(e, ast.Compare):
                return walk(e.left) and walk(e.comparators[0]) if len(e.comparators) == 1 else False
            if isinstance(e, ast.Subscript):
                return walk(e.value) and walk(e.slice)
            if isinstance(e, ast.Starred):
                return walk(e.value)
            if isinstance(e, ast.Slice):
                return walk(e.lower) and walk(e.upper) and walk(e.step)
            return False

        for e in exprs:
            if not walk(e):
                break
        return found[0] if found else None

    def _replace(self, root, old, new):
        class R(ast.NodeTransformer):
            def visit_Call(s, n):
                if n is old:
                    return new
                return s.generic_visit(n)
        return R().visit(root)

    def _stmt(self, s, caller_fn, owner, depth=0):
        """-> list of statements replacing s"""
        if depth > 6 or isinstance(s, (ast.FunctionDef, ast.ClassDef, ast.AsyncFunctionDef)):
            return [s]
        # recurse into blocks first
        for f in ("body", "orelse", "finalbody"):
            blk = getattr(s, f, None)
            if isinstance(blk, list) and blk and isinstance(blk[0], ast.stmt):
                setattr(s, f, self._block(blk, caller_fn, owner))
        for h in getattr(s, "handlers", []) or []:
            h.body = self._block(h.body, caller_fn, owner)
        if isinstance(s, ast.Return) and isinstance(s.value, ast.Call) and self._target(s.value, owner):
            c = s.value
            try:
                new = self._expand(c, self._target(c, owner), caller_fn, "return", None)
                return self._block(new, caller_fn, owner, depth + 1)
            except NotInlinable:
                return [s]
        if isinstance(s, ast.Expr) and isinstance(s.value, ast.Call) and self._target(s.value, owner):
            try:
                new = self._expand(s.value, self._target(s.value, owner), caller_fn, "effect", None)
                return self._block(new, caller_fn, owner, depth + 1)
            except NotInlinable:
                return [s]
        if isinstance(s, (ast.Assign, ast.AnnAssign, ast.AugAssign)) and isinstance(s.value, ast.Call) and self._target(s.value, owner):
            tgts = s.targets if isinstance(s, ast.Assign) else [s.target]
            if isinstance(s, ast.Assign) and len(tgts) == 1 and isinstance(tgts[0], ast.Name):
                try:
                    new = self._expand(s.value, self._target(s.value, owner), caller_fn, "value", tgts[0].id)
                    # the helper's own locals must not read the target before it is assigned: names were renamed on collision
                    return self._block(new, caller_fn, owner, depth + 1)
                except NotInlinable:
                    return [s]
        if isinstance(s, ast.Assign) and len(s.targets) == 1 and _simple(s.targets[0]) and isinstance(s.value, ast.Call) and isinstance(s.value.func, ast.Name) \
                and s.value.func.id == "list" and len(s.value.args) == 1 and not s.value.keywords and self._gen_key(s.value.args[0], owner) \
                and self._gen_key(s.value.args[0], owner).split(".")[-1] != getattr(caller_fn, "name", None):
            # `T = list(gen(..))`  ->  `acc = []; for v in gen(..): acc.append(v); T = acc`, then the loop is fused like any other
            self.counter += 1
            acc, v = f"_acc{self.counter}", f"_item{self.counter}"
            loop = ast.For(target=ast.Name(id=v, ctx=ast.Store()), iter=s.value.args[0],
                           body=[ast.Expr(value=ast.Call(func=ast.Attribute(value=ast.Name(id=acc, ctx=ast.Load()), attr="append", ctx=ast.Load()),
                                                         args=[ast.Name(id=v, ctx=ast.Load())], keywords=[]))], orelse=[], lineno=s.lineno)
            fused = self._fuse(loop, caller_fn, owner)
            if fused is not None:
                new = [ast.Assign(targets=[ast.Name(id=acc, ctx=ast.Store())], value=ast.List(elts=[], ctx=ast.Load()), lineno=s.lineno)] + fused + \
                      [ast.Assign(targets=s.targets, value=ast.Name(id=acc, ctx=ast.Load()), lineno=s.lineno)]
                return self._block(new, caller_fn, owner, depth + 1)
        if isinstance(s, ast.For) and not s.orelse and self._gen_key(s.iter, owner) and self._gen_key(s.iter, owner).split(".")[-1] != getattr(caller_fn, "name", None):
            fused = self._fuse(s, caller_fn, owner)
            if fused is not None:
                return self._block(fused, caller_fn, owner, depth + 1)
        if isinstance(s, ast.With) and len(s.items) == 1 and isinstance(s.items[0].context_expr, ast.Call) and isinstance(s.items[0].context_expr.func, ast.Name) \
                and s.items[0].context_expr.func.id in self.cm_helpers and (s.items[0].optional_vars is None or isinstance(s.items[0].optional_vars, (ast.Name, ast.Tuple))):
            fused = self._fuse_with(s, caller_fn)
            if fused is not None:
                return self._block(fused, caller_fn, owner, depth + 1)
        if isinstance(s, ast.With) and len(s.items) == 1 and isinstance(s.items[0].context_expr, ast.Call) and isinstance(s.items[0].context_expr.func, ast.Name) \
                and s.items[0].context_expr.func.id in self.cm_classes and (s.items[0].optional_vars is None or isinstance(s.items[0].optional_vars, ast.Name)):
            fused = self._fuse_cm_class(s, caller_fn)
            if fused is not None:
                return self._block(fused, caller_fn, owner, depth + 1)
        heads = []
        if isinstance(s, ast.Assign):
            heads = [s.value] if all(_simple(t) or isinstance(t, (ast.Tuple, ast.Subscript)) for t in s.targets) else []
            if any(isinstance(t, ast.Subscript) and not (_simple(t.value) and _simple(t.slice)) for t in s.targets):
                heads = []
        elif isinstance(s, ast.AnnAssign) and s.value is not None:
            heads = [s.value]
        elif isinstance(s, ast.AugAssign):
            heads = [s.value] if _simple(s.target) else []
        elif isinstance(s, (ast.Expr, ast.Return)) and s.value is not None:
            heads = [s.value]
        elif isinstance(s, ast.If):
            heads = [s.test]
        elif isinstance(s, ast.For):
            heads = [s.iter]
        c = self._first_call(heads, owner) if heads else None
        if c is None and isinstance(s, ast.If) and isinstance(s.test, ast.BoolOp) and isinstance(s.test.op, ast.And):
            # `if A and helper(x): B else: C`  ->  `if A: (if helper(x): B else: C) else: C`   (same short-circuit order)
            ops = s.test.values
            k = next((i for i, o in enumerate(ops) if i and any(isinstance(x, ast.Call) and self._target(x, owner) for x in ast.walk(o))), None)
            if k is not None:
                head = ops[0] if k == 1 else ast.BoolOp(op=ast.And(), values=ops[:k])
                tail = ops[k] if k == len(ops) - 1 else ast.BoolOp(op=ast.And(), values=ops[k:])
                inner = ast.If(test=tail, body=s.body, orelse=s.orelse, lineno=s.lineno)
                outer = ast.If(test=head, body=[inner], orelse=copy.deepcopy(s.orelse), lineno=s.lineno)
                outer.body = self._stmt(inner, caller_fn, owner, depth + 1)
                return [outer]
        if c is None:
            return [s]
        self.counter += 1
        tmp = f"_inl{self.counter}"
        try:
            new = self._expand(c, self._target(c, owner), caller_fn, "value", tmp)
        except NotInlinable:
            return [s]
        if new and isinstance(new[-1], ast.Assign) and isinstance(new[-1].targets[0], ast.Name) and new[-1].targets[0].id == tmp:
            # the helper ends in one `return <expr>`: the expression takes the place of the call (nothing runs in between)
            self._replace(s, c, new[-1].value)
            return self._block(new[:-1], caller_fn, owner, depth + 1) + self._stmt(s, caller_fn, owner, depth + 1)
        self._replace(s, c, ast.Name(id=tmp, ctx=ast.Load()))
        return self._block(new, caller_fn, owner, depth + 1) + self._stmt(s, caller_fn, owner, depth + 1)

    def _block(self, stmts, caller_fn, owner, depth=0):
        out = []
        for s in stmts:
            out += self._stmt(s, caller_fn, owner, depth)
        return out

    @staticmethod
    def _direct_nested(fn):
        """(def node, containing statement list) of the functions defined directly inside fn (not inside another nested def / class / lambda)"""
        out = []

        def walk(stmts):
            for st in stmts:
                if isinstance(st, ast.FunctionDef):
                    out.append((st, stmts))
                    continue
                if isinstance(st, (ast.ClassDef, ast.AsyncFunctionDef)):
                    continue
                for f in ("body", "orelse", "finalbody"):
                    blk = getattr(st, f, None)
                    if isinstance(blk, list) and blk and isinstance(blk[0], ast.stmt):
                        walk(blk)
                for h in getattr(st, "handlers", []) or []:
                    walk(h.body)
        walk(fn.body)
        return out

    def _process(self, q, fn, owner):
        """inline into fn; closures defined in fn (and not part of the reference tree) are helpers for the duration"""
        shadowed, mine = {}, []
        nested_all = self._direct_nested(fn)
        params_f = {a.arg for a in fn.args.posonlyargs + fn.args.args + fn.args.kwonlyargs} | {a.arg for a in (fn.args.vararg, fn.args.kwarg) if a}
        for n, holder in nested_all:
            if f"{self.rel}:{q.split('#')[0]}.<locals>.{n.name}" in self.inv or not _basic_ok(n):
                continue
            if n.name in params_f or sum(1 for m, _h in nested_all if m.name == n.name) > 1:
                continue        # the name may also denote something else
            if any(isinstance(x, ast.Call) and isinstance(x.func, ast.Name) and x.func.id == n.name for x in ast.walk(n)):
                continue        # recursive closure
            if any(isinstance(x, ast.Name) and x.id == n.name and isinstance(x.ctx, ast.Store) for x in ast.walk(fn)):
                continue        # the name is rebound
            shadowed[n.name] = self.helpers.get(n.name)
            self.helpers[n.name] = (n, None)
            mine.append((n, holder))
        try:
            fn.body = self._block(fn.body, fn, owner)
        finally:
            for name, old in shadowed.items():
                if old is None:
                    self.helpers.pop(name, None)
                else:
                    self.helpers[name] = old
        for n, holder in mine:
            still = any(isinstance(x, ast.Name) and x.id == n.name for x in ast.walk(fn))
            if not still:
                for blk_owner in ast.walk(fn):
                    for f in ("body", "orelse", "finalbody"):
                        blk = getattr(blk_owner, f, None)
                        if isinstance(blk, list) and n in blk:
                            blk.remove(n)
                            if not blk:
                                blk.append(ast.Pass())
                    for h in getattr(blk_owner, "handlers", []) or []:
                        if n in h.body:
                            h.body.remove(n)

    def run(self):
        # helpers first (inner helper calls), bounded
        for _ in range(3):
            for q, (fn, owner) in list(self.helpers.items()):
                fn.body = self._block(fn.body, fn, owner)
        for q, (fn, owner) in self.funcs.items():
            if q in self.helpers:
                continue
            self._process(q, fn, owner)
        return self.inlined


# ------------------------------------------------------------------ property factories
def expand_property_factories(tree, rel, inv):
    """`name = factory("name", "doc")` in a class body, with `factory` a new module-level function of the shape
           [local = <call-free expression of the parameters>]* ; def fget(self): .. ; [def fset(self, v): ..] ; return property(fget[, fset][, doc=..])
    -> the explicit `@property def name(self): ..` / `@name.setter def name(self, v): ..` pair with the literal arguments substituted and folded
    (f"_{name}" -> "_name", getattr(self, "_name") -> self._name).  Only literal arguments; the accessor bodies may use the parameters and
    those locals freely."""
    facts = {}
    for fn in tree.body:
        if not isinstance(fn, ast.FunctionDef) or f"{rel}:{fn.name}" in inv or fn.decorator_list or fn.args.vararg or fn.args.kwarg or fn.args.kwonlyargs:
            continue
        body = list(fn.body)
        if body and isinstance(body[0], ast.Expr) and isinstance(body[0].value, ast.Constant):
            body = body[1:]
        locs, defs, ret = [], {}, None
        ok = True
        for st in body:
            if isinstance(st, ast.Assign) and len(st.targets) == 1 and isinstance(st.targets[0], ast.Name) and _pure(st.value) and not defs:
                locs.append((st.targets[0].id, st.value))
            elif isinstance(st, ast.FunctionDef) and not st.decorator_list and st.args.args and st.args.args[0].arg == "self" and _basic_ok(st):
                defs[st.name] = st
            elif isinstance(st, ast.Return) and st is body[-1] and isinstance(st.value, ast.Call) and isinstance(st.value.func, ast.Name) and st.value.func.id == "property":
                ret = st.value
            else:
                ok = False
        if ok and ret is not None and defs:
            facts[fn.name] = (fn, locs, defs, ret)
    if not facts:
        return 0
    n = 0
    for cls in [c for c in tree.body if isinstance(c, ast.ClassDef)]:
        out = []
        for st in cls.body:
            c = st.value if isinstance(st, ast.Assign) and len(st.targets) == 1 and isinstance(st.targets[0], ast.Name) else None
            if not (isinstance(c, ast.Call) and isinstance(c.func, ast.Name) and c.func.id in facts and all(isinstance(a, ast.Constant) for a in c.args)
                    and all(k.arg and isinstance(k.value, ast.Constant) for k in c.keywords)):
                out.append(st)
                continue
            fn, locs, defs, ret = facts[c.func.id]
            params = [a.arg for a in fn.args.args]
            bind = dict(zip(params, c.args))
            bind.update({k.arg: k.value for k in c.keywords})
            dflt = dict(zip(params[len(params) - len(fn.args.defaults):], fn.args.defaults))
            for p_ in params:
                if p_ not in bind and p_ in dflt and isinstance(dflt[p_], ast.Constant):
                    bind[p_] = dflt[p_]
            if set(params) - set(bind):
                out.append(st)
                continue

            def inst(node):
                m = ast.Module(body=[copy.deepcopy(node)], type_ignores=[])
                _Subst({}, bind).visit(m)
                _Fold().visit(m)
                return m.body[0]
            sub = dict(bind)
            for nm, e in locs:
                m = ast.Module(body=[ast.Expr(value=copy.deepcopy(e))], type_ignores=[])
                _Subst({}, sub).visit(m)
                _Fold().visit(m)
                sub[nm] = m.body[0].value
            bind = sub
            pa = list(ret.args)
            kw = {k.arg: k.value for k in ret.keywords}
            fget = pa[0] if pa else kw.get("fget")
            fset = pa[1] if len(pa) > 1 else kw.get("fset")
            doc = pa[3] if len(pa) > 3 else kw.get("doc")
            if not (isinstance(fget, ast.Name) and fget.id in defs) or (fset is not None and not (isinstance(fset, ast.Name) and fset.id in defs)) or len(pa) > 2 and pa[2] is not None and not (isinstance(pa[2], ast.Constant) and pa[2].value is None):
                out.append(st)
                continue
            name = st.targets[0].id
            g = inst(defs[fget.id])
            g.name = name
            g.decorator_list = [ast.Name(id="property", ctx=ast.Load())]
            if doc is not None:
                m = ast.Module(body=[ast.Expr(value=copy.deepcopy(doc))], type_ignores=[])
                _Subst({}, bind).visit(m)
                if isinstance(m.body[0].value, ast.Constant) and not (g.body and isinstance(g.body[0], ast.Expr) and isinstance(g.body[0].value, ast.Constant)):
                    g.body.insert(0, m.body[0])
            out.append(g)
            if fset is not None:
                s_ = inst(defs[fset.id])
                s_.name = name
                s_.decorator_list = [ast.Attribute(value=ast.Name(id=name, ctx=ast.Load()), attr="setter", ctx=ast.Load())]
                out.append(s_)
            n += 1
        cls.body = out
    return n


# ------------------------------------------------------------------ record scalarisation
def _pure(e):
    return not any(isinstance(x, (ast.Call, ast.Await, ast.Yield, ast.YieldFrom, ast.NamedExpr, ast.Lambda, ast.ListComp, ast.DictComp, ast.SetComp, ast.GeneratorExp))
                   for x in ast.walk(e))


def record_classes(tree, rel, inv):
    """classes that are not part of the reference tree and are plain records: NamedTuple / dataclass without __init__, or a class whose
    __init__ only stores call-free expressions of its parameters in `self.<field>`.  -> {name: dict(params, defaults, exprs, fields, methods)}"""
    out = {}
    for n in tree.body:
        if not isinstance(n, ast.ClassDef) or f"{rel}:class {n.name}" in inv or n.keywords:
            continue
        bases = [ast.unparse(b) for b in n.bases]
        decs = [ast.unparse(d) for d in n.decorator_list]
        init = next((m for m in n.body if isinstance(m, ast.FunctionDef) and m.name == "__init__"), None)
        methods = {m.name: m for m in n.body if isinstance(m, ast.FunctionDef) and not (m.name.startswith("__") and m.name.endswith("__"))}
        if any(isinstance(m, ast.FunctionDef) and m.name.startswith("__") and m.name not in ("__init__", "__repr__") for m in n.body):
            continue
        ann = [(st.target.id, st.value) for st in n.body if isinstance(st, ast.AnnAssign) and isinstance(st.target, ast.Name)]
        rec = None
        if init is None and ((len(bases) == 1 and bases[0].endswith("NamedTuple")) or (not bases and any("dataclass" in d for d in decs))):
            defaults = {}
            for f, v in ann:
                if v is None:
                    continue
                if isinstance(v, ast.Constant):
                    defaults[f] = v
                elif isinstance(v, ast.Call) and ast.unparse(v.func).endswith("field") and len(v.keywords) == 1 and v.keywords[0].arg == "default_factory" \
                        and ast.unparse(v.keywords[0].value) in ("list", "dict"):
                    defaults[f] = ast.List(elts=[], ctx=ast.Load()) if ast.unparse(v.keywords[0].value) == "list" else ast.Dict(keys=[], values=[])
                else:
                    defaults = None
                    break
            if defaults is not None and ann:
                rec = {"params": [f for f, _ in ann], "defaults": defaults, "exprs": {f: ast.Name(id=f, ctx=ast.Load()) for f, _ in ann},
                       "fields": [f for f, _ in ann], "tuple": bool(bases)}
        elif init is not None and not bases and not decs and not init.decorator_list and not init.args.vararg and not init.args.kwarg and not init.args.kwonlyargs:
            params = [a.arg for a in init.args.args][1:]
            defaults = dict(zip(params[len(params) - len(init.args.defaults):], init.args.defaults)) if init.args.defaults else {}
            exprs, ok = {}, all(isinstance(d, ast.Constant) for d in defaults.values())
            for st in init.body:
                if isinstance(st, ast.Expr) and isinstance(st.value, ast.Constant):
                    continue
                if isinstance(st, (ast.Assign, ast.AnnAssign)):
                    tg = st.targets if isinstance(st, ast.Assign) else [st.target]
                    if len(tg) == 1 and isinstance(tg[0], ast.Attribute) and isinstance(tg[0].value, ast.Name) and tg[0].value.id == "self" \
                            and st.value is not None and _pure(st.value) and tg[0].attr not in exprs \
                            and not any(isinstance(x, ast.Name) and x.id == "self" for x in ast.walk(st.value)):
                        exprs[tg[0].attr] = st.value
                        continue
                ok = False
            if ok and exprs:
                rec = {"params": params, "defaults": defaults, "exprs": exprs, "fields": list(exprs), "tuple": False}
        if rec:
            rec["methods"], rec["node"] = methods, n
            out[n.name] = rec
    return out


def scalarize_single_records(fn, records):
    """`r = R(a, b)` (R a plain record class, the arguments names / constants, r bound once) whose every use is a field read `r.f`
    -> the reads become the arguments (the names are not rebound between the construction and the last read); -> number of records replaced"""
    n = 0
    stores = {}
    for x in ast.walk(fn):
        if isinstance(x, ast.Name) and isinstance(x.ctx, (ast.Store, ast.Del)):
            stores[x.id] = stores.get(x.id, 0) + 1
    for owner_ in ast.walk(fn):
        for f_ in ("body", "orelse", "finalbody"):
            blk = getattr(owner_, f_, None)
            if not (isinstance(blk, list) and blk and isinstance(blk[0], ast.stmt)):
                continue
            i = 0
            while i < len(blk):
                st = blk[i]
                if isinstance(st, ast.Assign) and len(st.targets) == 1 and isinstance(st.targets[0], ast.Name) and isinstance(st.value, ast.Call) \
                        and isinstance(st.value.func, ast.Name) and st.value.func.id in records and not records[st.value.func.id].get("anonymous") \
                        and stores.get(st.targets[0].id, 0) == 1 and all(isinstance(a, (ast.Name, ast.Constant)) for a in st.value.args) \
                        and all(k.arg and isinstance(k.value, (ast.Name, ast.Constant)) for k in st.value.keywords):
                    R, r = records[st.value.func.id], st.targets[0].id
                    bind = dict(zip(R["params"], st.value.args))
                    bind.update({k.arg: k.value for k in st.value.keywords})
                    bind = {**R["defaults"], **bind}
                    fields = {f: e for f, e in R["exprs"].items()}
                    if set(R["params"]) - set(bind) or not all(isinstance(e, ast.Name) and e.id in bind for e in fields.values()):
                        i += 1
                        continue
                    uses = [x for x in ast.walk(fn) if isinstance(x, ast.Name) and x.id == r and isinstance(x.ctx, ast.Load)]
                    reads = [x for x in ast.walk(fn) if isinstance(x, ast.Attribute) and isinstance(x.value, ast.Name) and x.value.id == r
                             and isinstance(x.ctx, ast.Load) and x.attr in fields]
                    rest = blk[i + 1:]
                    in_rest = sum(1 for s2 in rest for x in ast.walk(s2) if isinstance(x, ast.Name) and x.id == r)
                    argn = {a.id for a in bind.values() if isinstance(a, ast.Name)}
                    clobber = any(isinstance(x, ast.Name) and x.id in argn and isinstance(x.ctx, (ast.Store, ast.Del)) for s2 in rest for x in ast.walk(s2))
                    if uses and len(uses) == len(reads) == in_rest and not clobber:
                        class Sub(ast.NodeTransformer):
                            def visit_Attribute(self, x):
                                self.generic_visit(x)
                                if isinstance(x.value, ast.Name) and x.value.id == r and isinstance(x.ctx, ast.Load) and x.attr in fields:
                                    return copy.deepcopy(bind[fields[x.attr].id])
                                return x
                        m = ast.Module(body=rest, type_ignores=[])
                        Sub().visit(m)
                        blk[i:] = m.body
                        n += 1
                        continue
                i += 1
    return n


class Scalarizer:
    """lists of records -> parallel lists of their fields (scalar replacement of aggregates), per function:
         L = [R(a, b) for ..]           ->  L__x = [a for ..] ; L__y = [b for ..]
         L = [] ... L.append(R(a, b))   ->  L__x = [] ; L__y = [] ... L__x.append(a) ; L__y.append(b)
         for r in L: .. r.x .. r.m()    ->  for r__x, r__y in zip(L__x, L__y): .. r__x .. <body of m with self.x -> r__x>
         for p, q in L (NamedTuple)     ->  for p, q in zip(L__x, L__y)
       applied only when every use of L and of the loop variable is one of these forms and the field expressions are call-free"""

    def __init__(self, inliner, records):
        self.inl, self.records, self.count = inliner, records, 0

    def _ctor(self, e):
        if isinstance(e, ast.Call) and isinstance(e.func, ast.Name) and e.func.id in self.records and not any(isinstance(a, ast.Starred) for a in e.args) \
                and all(k.arg for k in e.keywords):
            return e.func.id
        if isinstance(e, ast.Tuple) and len(e.elts) >= 2 and not any(isinstance(a, ast.Starred) for a in e.elts):
            # a tuple literal is an anonymous record (fields _0, _1, ..), usable with unpacking loops only
            name = f"<tuple{len(e.elts)}>"
            if name not in self.records:
                fs = [f"_{i}" for i in range(len(e.elts))]
                self.records[name] = {"params": fs, "defaults": {}, "exprs": {f: ast.Name(id=f, ctx=ast.Load()) for f in fs}, "fields": fs, "tuple": True,
                                      "methods": {}, "node": None, "anonymous": True}
            return name
        return None

    def _field_exprs(self, call):
        if isinstance(call, ast.Tuple):
            R = self.records[f"<tuple{len(call.elts)}>"]
            if not all(_pure(v) for v in call.elts):
                return None
            return {f: v for f, v in zip(R["fields"], call.elts)}
        R = self.records[call.func.id]
        bind = dict(zip(R["params"], call.args))
        if len(call.args) > len(R["params"]):
            return None
        for k in call.keywords:
            if k.arg in bind or k.arg not in R["params"]:
                return None
            bind[k.arg] = k.value
        for p_ in R["params"]:
            if p_ not in bind:
                if p_ not in R["defaults"]:
                    return None
                bind[p_] = R["defaults"][p_]
        if not all(_pure(v) or isinstance(v, (ast.List, ast.Dict)) for v in bind.values()):
            return None
        out = {}
        for f in R["fields"]:
            m = ast.Module(body=[ast.Expr(value=copy.deepcopy(R["exprs"][f]))], type_ignores=[])
            _Subst({}, bind).visit(m)
            out[f] = m.body[0].value
        return out

    def run_fn(self, fn, owner):
        parents = {}
        for x in ast.walk(fn):
            for ch in ast.iter_child_nodes(x):
                parents[id(ch)] = x
        cands = {}
        for st in ast.walk(fn):
            if isinstance(st, ast.Assign) and len(st.targets) == 1 and isinstance(st.targets[0], ast.Name):
                v, L = st.value, st.targets[0].id
                if isinstance(v, ast.ListComp) and self._ctor(v.elt):
                    cands.setdefault(L, {"cls": self._ctor(v.elt), "defs": []})["defs"].append(st)
                elif isinstance(v, ast.List) and not v.elts:
                    cands.setdefault(L, {"cls": None, "defs": []})["defs"].append(st)
        for L, c in list(cands.items()):
            ok, loops, appends, lens, tests = True, [], [], [], []
            for x in ast.walk(fn):
                if not (isinstance(x, ast.Name) and x.id == L):
                    continue
                p_ = parents.get(id(x))
                if isinstance(x.ctx, ast.Store):
                    ok = ok and any(p_ is d for d in c["defs"])
                elif isinstance(p_, ast.For) and p_.iter is x:
                    loops.append(p_)
                elif isinstance(p_, ast.Attribute) and p_.attr == "append" and isinstance(parents.get(id(p_)), ast.Call) and parents[id(p_)].func is p_ \
                        and isinstance(parents.get(id(parents[id(p_)])), ast.Expr) and len(parents[id(p_)].args) == 1 and self._ctor(parents[id(p_)].args[0]):
                    call = parents[id(p_)]
                    cls = self._ctor(call.args[0])
                    if c["cls"] not in (None, cls):
                        ok = False
                    c["cls"] = cls
                    appends.append(parents[id(call)])
                elif isinstance(p_, ast.Call) and isinstance(p_.func, ast.Name) and p_.func.id == "len" and p_.args == [x]:
                    lens.append(x)
                elif isinstance(p_, (ast.If, ast.While)) and p_.test is x:
                    tests.append(x)
                elif isinstance(p_, ast.UnaryOp) and isinstance(p_.op, ast.Not):
                    tests.append(x)
                else:
                    ok = False
            if not ok or c["cls"] is None or not loops:
                del cands[L]
                continue
            c.update(loops=loops, appends=appends, lens=lens, tests=tests)
        done = 0
        for L, c in cands.items():
            if self._apply(fn, owner, L, c, parents):
                done += 1
        self.count += done
        return done

    def _apply(self, fn, owner, L, c, parents):
        R = self.records[c["cls"]]
        fields = R["fields"]
        # ---- field expressions of every construction
        ctor_exprs = {}
        for d in c["defs"]:
            if isinstance(d.value, ast.ListComp):
                fe = self._field_exprs(d.value.elt)
                if fe is None:
                    return False
                ctor_exprs[id(d)] = fe
        for a in c["appends"]:
            fe = self._field_exprs(a.value.args[0])
            if fe is None:
                return False
            ctor_exprs[id(a)] = fe
        # ---- loops: method calls on the loop variable are inlined first, then every use must be a field read
        plans = []
        for lp in c["loops"]:
            tg = lp.target
            if isinstance(tg, ast.Tuple):
                if not R["tuple"] or len(tg.elts) != len(fields):
                    return False
                plans.append((lp, None))
                continue
            if not isinstance(tg, ast.Name) or R.get("anonymous"):
                return False
            rv = tg.id
            if any(isinstance(x, ast.Name) and x.id == rv and isinstance(x.ctx, ast.Store) for st in lp.body for x in ast.walk(st)):
                return False
            body = self._inline_methods(lp.body, rv, c["cls"], fn, owner)
            if body is None:
                return False
            # uses of rv after inlining
            pm = {}
            for st in body:
                for x in ast.walk(st):
                    for ch in ast.iter_child_nodes(x):
                        pm[id(ch)] = x
            for st in body:
                for x in ast.walk(st):
                    if isinstance(x, ast.Name) and x.id == rv:
                        p_ = pm.get(id(x))
                        if not (isinstance(p_, ast.Attribute) and p_.value is x and p_.attr in fields and isinstance(p_.ctx, ast.Load)):
                            return False
            # the loop variable must not be used after the loop
            used_outside = any(isinstance(x, ast.Name) and x.id == rv and not any(self._inside(x, l2, parents) for l2 in c["loops"]) for x in ast.walk(fn))
            if used_outside:
                return False
            plans.append((lp, body))
        # ---- rewrite
        names = _names_in(fn)
        fname = {f: f"{L}__{f}" for f in fields}
        if any(v in names for v in fname.values()):
            return False
        for lp, body in plans:
            zipc = ast.Call(func=ast.Name(id="zip", ctx=ast.Load()), args=[ast.Name(id=fname[f], ctx=ast.Load()) for f in fields], keywords=[])
            if body is None:
                lp.iter = zipc if len(fields) > 1 else ast.Name(id=fname[fields[0]], ctx=ast.Load())
                if len(fields) == 1:
                    lp.target = lp.target.elts[0]
                continue
            rv = lp.target.id
            rn = {f: f"{rv}__{f}" for f in fields}

            class FR(ast.NodeTransformer):
                def visit_Attribute(self_, n):
                    if isinstance(n.value, ast.Name) and n.value.id == rv and n.attr in rn:
                        return ast.Name(id=rn[n.attr], ctx=ast.Load())
                    return self_.generic_visit(n)
            m = ast.Module(body=body, type_ignores=[])
            FR().visit(m)
            lp.body = m.body
            lp.target = ast.Tuple(elts=[ast.Name(id=rn[f], ctx=ast.Store()) for f in fields], ctx=ast.Store()) if len(fields) > 1 else ast.Name(id=rn[fields[0]], ctx=ast.Store())
            lp.iter = zipc if len(fields) > 1 else ast.Name(id=fname[fields[0]], ctx=ast.Load())
        repl = {}
        for d in c["defs"]:
            new = []
            for f in fields:
                if isinstance(d.value, ast.ListComp):
                    v = ast.ListComp(elt=ctor_exprs[id(d)][f], generators=copy.deepcopy(d.value.generators))
                else:
                    v = ast.List(elts=[], ctx=ast.Load())
                new.append(ast.Assign(targets=[ast.Name(id=fname[f], ctx=ast.Store())], value=v, lineno=d.lineno))
            repl[id(d)] = new
        for a in c["appends"]:
            repl[id(a)] = [ast.Expr(value=ast.Call(func=ast.Attribute(value=ast.Name(id=fname[f], ctx=ast.Load()), attr="append", ctx=ast.Load()),
                                                   args=[ctor_exprs[id(a)][f]], keywords=[]), lineno=a.lineno) for f in fields]
        for x in c["lens"] + c["tests"]:
            x.id = fname[fields[0]]

        class RS(ast.NodeTransformer):
            def generic_visit(self_, node):
                super().generic_visit(node)
                for f_ in ("body", "orelse", "finalbody"):
                    blk = getattr(node, f_, None)
                    if isinstance(blk, list) and blk and isinstance(blk[0], ast.stmt):
                        out = []
                        for st in blk:
                            out += repl.get(id(st), [st])
                        setattr(node, f_, out)
                return node
        RS().visit(fn)
        return True

    @staticmethod
    def _inside(x, loop, parents):
        p_ = parents.get(id(x))
        while p_ is not None:
            if p_ is loop:
                return True
            p_ = parents.get(id(p_))
        return False

    def _inline_methods(self, body, rv, cls, fn, owner):
        """statement list with `rv.m(..)` statements / `t = rv.m(..)` replaced by the body of method m of the record class (self -> rv)"""
        R = self.records[cls]
        inl = self.inl
        out = []
        for st in body:
            for f_ in ("body", "orelse", "finalbody"):
                blk = getattr(st, f_, None)
                if isinstance(blk, list) and blk and isinstance(blk[0], ast.stmt):
                    nb = self._inline_methods(blk, rv, cls, fn, owner)
                    if nb is None:
                        return None
                    setattr(st, f_, nb)
            for h in getattr(st, "handlers", []) or []:
                nb = self._inline_methods(h.body, rv, cls, fn, owner)
                if nb is None:
                    return None
                h.body = nb
            call = st.value if isinstance(st, (ast.Expr, ast.Assign)) and isinstance(getattr(st, "value", None), ast.Call) else None
            if call is not None and isinstance(call.func, ast.Attribute) and isinstance(call.func.value, ast.Name) and call.func.value.id == rv \
                    and call.func.attr in R["methods"]:
                mnode = R["methods"][call.func.attr]
                if not _basic_ok(mnode):
                    return None
                q = f"{cls}.{call.func.attr}"
                saved = inl.helpers
                inl.helpers = dict(saved)
                inl.helpers[q] = (mnode, R["node"])
                try:
                    if isinstance(st, ast.Expr):
                        new = inl._expand(call, q, fn, "effect", None, self_name=rv)
                    elif len(st.targets) == 1 and isinstance(st.targets[0], ast.Name):
                        new = inl._expand(call, q, fn, "value", st.targets[0].id, self_name=rv)
                    else:
                        return None
                except NotInlinable:
                    return None
                finally:
                    inl.helpers = saved
                out += new
                continue
            out.append(st)
        return out


class Normalizer(ast.NodeTransformer):
    """control-flow normal form (behaviour-preserving):
      N1  loop body `if c: continue` + rest        ->  `if not c: rest`
      N2  `if not X: A else: B`                    ->  `if X: B else: A`
      N3  `not not X` -> `X` ; `not a == b` is left alone (operators may be overloaded)"""
    def __init__(self):
        self.count = 0

    @staticmethod
    def _neg(t):
        if isinstance(t, ast.UnaryOp) and isinstance(t.op, ast.Not):
            return t.operand
        return ast.UnaryOp(op=ast.Not(), operand=t)

    def _loop_body(self, stmts):
        out = []
        for i, s in enumerate(stmts):
            rest = stmts[i + 1:]
            if isinstance(s, ast.If) and not s.orelse and len(s.body) == 1 and isinstance(s.body[0], ast.Continue) and rest:
                self.count += 1
                out.append(ast.If(test=self._neg(s.test), body=self._loop_body(rest), orelse=[], lineno=s.lineno))
                return out
            if isinstance(s, ast.If) and not s.orelse and len(s.body) >= 2 and isinstance(s.body[-1], ast.Continue) and rest \
                    and not any(isinstance(x, (ast.Break, ast.Continue, ast.Return)) for b_ in s.body[:-1] for x in ast.walk(b_)):
                # `if c: A; continue` + rest  ->  `if c: A else: rest`
                self.count += 1
                out.append(ast.If(test=s.test, body=s.body[:-1], orelse=self._loop_body(rest), lineno=s.lineno))
                return out
            out.append(s)
        return out

    def _slice_alias(self, stmts):
        """N4  `r = slice(a, b)` + `X[r]` ... -> `X[a:b]` when r is used only as a whole index in this block and a, b keep their values"""
        out = list(stmts)
        i = 0
        while i < len(out):
            st = out[i]
            if isinstance(st, ast.Assign) and len(st.targets) == 1 and isinstance(st.targets[0], ast.Name) and isinstance(st.value, ast.Call) \
                    and isinstance(st.value.func, ast.Name) and st.value.func.id == "slice" and 1 <= len(st.value.args) <= 3 and not st.value.keywords \
                    and all(isinstance(a, (ast.Name, ast.Constant)) or (isinstance(a, ast.Subscript) and _pure(a) and
                                                                           all(isinstance(x, (ast.Name, ast.Constant, ast.Subscript, ast.BinOp, ast.operator, ast.expr_context)) for x in ast.walk(a)))
                            for a in st.value.args):
                r = st.targets[0].id
                rest = out[i + 1:]
                uses, other, last = [], False, -1
                for j, s2 in enumerate(rest):
                    parents = {}
                    for x in ast.walk(s2):
                        for ch in ast.iter_child_nodes(x):
                            parents[id(ch)] = x
                    for x in ast.walk(s2):
                        if isinstance(x, ast.Name) and x.id == r:
                            p = parents.get(id(x))
                            if isinstance(x.ctx, ast.Load) and isinstance(p, ast.Subscript) and p.slice is x:
                                uses.append(p); last = j
                            else:
                                other = True
                argn = {x.id for a in st.value.args for x in ast.walk(a) if isinstance(x, ast.Name)}
                clobber = any(isinstance(x, ast.Name) and x.id in argn and isinstance(x.ctx, (ast.Store, ast.Del)) for s2 in rest[:last + 1] for x in ast.walk(s2))
                if uses and not other and not clobber and self.fn_stores.get(r, 0) == 1:
                    a = st.value.args
                    lo, hi, step = (None, a[0], None) if len(a) == 1 else (a[0], a[1], a[2] if len(a) == 3 else None)
                    none = lambda v: None if v is None or (isinstance(v, ast.Constant) and v.value is None) else v
                    for u in uses:
                        u.slice = ast.Slice(lower=copy.deepcopy(none(lo)), upper=copy.deepcopy(none(hi)), step=copy.deepcopy(none(step)))
                    del out[i]
                    self.count += 1
                    continue
            i += 1
        return out

    def _copy_prop(self, stmts):
        """N5  `x = y` (two local names) followed, in the same block, by statements that rebind neither: the later reads of x read y"""
        out = list(stmts)
        for i, st in enumerate(out):
            if isinstance(st, ast.Assign) and len(st.targets) == 1 and isinstance(st.targets[0], ast.Name) and isinstance(st.value, ast.Name) \
                    and st.targets[0].id != st.value.id:
                x, y = st.targets[0].id, st.value.id
                rest = out[i + 1:]
                if not rest:
                    continue
                clobber = any((isinstance(n, ast.Name) and n.id in (x, y) and isinstance(n.ctx, (ast.Store, ast.Del))) or
                              (isinstance(n, ast.ExceptHandler) and n.name in (x, y)) or isinstance(n, (ast.Global, ast.Nonlocal, ast.Lambda, ast.FunctionDef))
                              for s2 in rest for n in ast.walk(s2))
                if clobber:
                    continue
                m = ast.Module(body=rest, type_ignores=[])
                _Subst({}, {x: ast.Name(id=y, ctx=ast.Load())}).visit(m)
                out[i + 1:] = m.body
                self.count += 1
        return out

    # ---- N9-N11: small tuples that only carry values from one statement to the next
    def _tuple_flow(self, fn):
        """N9   `tuple(E(x) for x in (a, b))`, `[E(x) for x in (a, b)]`, `list(..)` over a literal of at most four names / constants -> `(E(a), E(b))`
        N10  `p = (a, b)` (names / constants; p bound once) -> later reads of p in the same block read the display, as long as a, b are not rebound
        N11  `if c: ..; t = A  else: ..; t = B` followed by `X = t` (t read nowhere else; X a name or a tuple of names) -> the branches assign X"""
        norm_ = self

        class Unroll(ast.NodeTransformer):
            def comp(self, elt, gens):
                if len(gens) != 1 or gens[0].ifs or gens[0].is_async or not isinstance(gens[0].target, ast.Name) or not isinstance(gens[0].iter, (ast.Tuple, ast.List)) \
                        or not 1 <= len(gens[0].iter.elts) <= 4 or not all(isinstance(e, (ast.Name, ast.Constant)) for e in gens[0].iter.elts):
                    return None
                v = gens[0].target.id
                if any(isinstance(x, (ast.NamedExpr, ast.Lambda, ast.ListComp, ast.GeneratorExp, ast.SetComp, ast.DictComp)) for x in ast.walk(elt)):
                    return None
                outs = []
                for e in gens[0].iter.elts:
                    m = ast.Module(body=[ast.Expr(value=copy.deepcopy(elt))], type_ignores=[])
                    _Subst({}, {v: e}).visit(m)
                    outs.append(m.body[0].value)
                return outs

            def visit_Call(self, c):
                self.generic_visit(c)
                if isinstance(c.func, ast.Name) and c.func.id in ("tuple", "list") and len(c.args) == 1 and not c.keywords and isinstance(c.args[0], (ast.GeneratorExp, ast.ListComp)):
                    outs = self.comp(c.args[0].elt, c.args[0].generators)
                    if outs is not None:
                        norm_.count += 1
                        return (ast.Tuple if c.func.id == "tuple" else ast.List)(elts=outs, ctx=ast.Load())
                return c

            def visit_ListComp(self, c):
                self.generic_visit(c)
                outs = self.comp(c.elt, c.generators)
                if outs is not None:
                    norm_.count += 1
                    return ast.List(elts=outs, ctx=ast.Load())
                return c

        def stores(stmts, names):
            return any((isinstance(x, ast.Name) and x.id in names and isinstance(x.ctx, (ast.Store, ast.Del))) or isinstance(x, (ast.Global, ast.Nonlocal))
                       for st in stmts for x in ast.walk(st))

        def block(stmts):
            out = list(stmts)
            i = 0
            while i < len(out):
                st = out[i]
                # N10
                if isinstance(st, ast.Assign) and len(st.targets) == 1 and isinstance(st.targets[0], ast.Name) and isinstance(st.value, ast.Tuple) and st.value.elts \
                        and all(isinstance(e, (ast.Name, ast.Constant)) for e in st.value.elts) and self.fn_stores.get(st.targets[0].id, 0) == 1:
                    pname = st.targets[0].id
                    mention = [j for j in range(i + 1, len(out)) if any(isinstance(x, ast.Name) and x.id == pname for x in ast.walk(out[j]))]
                    elsewhere = sum(1 for x in ast.walk(fn) if isinstance(x, ast.Name) and x.id == pname) - 1 - sum(
                        1 for j in mention for x in ast.walk(out[j]) if isinstance(x, ast.Name) and x.id == pname)
                    elt_names = {e.id for e in st.value.elts if isinstance(e, ast.Name)}
                    if mention and elsewhere == 0 and not stores(out[i + 1:mention[-1] + 1], elt_names) and not any(
                            isinstance(x, (ast.Lambda, ast.FunctionDef)) for j in mention for x in ast.walk(out[j])):
                        m = ast.Module(body=out[i + 1:mention[-1] + 1], type_ignores=[])
                        _Subst({}, {pname: st.value}).visit(m)
                        out[i + 1:mention[-1] + 1] = m.body
                        del out[i]
                        self.count += 1
                        continue
                # N14  `d = {"k": v, ..}` (string keys, names / constants as values; d bound once) whose only use is `f(.., **d)` later in the
                #      same block, with the value names not rebound in between -> `f(.., k=v, ..)`
                if isinstance(st, ast.Assign) and len(st.targets) == 1 and isinstance(st.targets[0], ast.Name) and isinstance(st.value, ast.Dict) and st.value.keys \
                        and all(isinstance(k_, ast.Constant) and isinstance(k_.value, str) and k_.value.isidentifier() for k_ in st.value.keys) \
                        and all(isinstance(v_, (ast.Name, ast.Constant)) for v_ in st.value.values) and self.fn_stores.get(st.targets[0].id, 0) == 1:
                    dname = st.targets[0].id
                    uses = [x for x in ast.walk(fn) if isinstance(x, ast.Name) and x.id == dname and isinstance(x.ctx, ast.Load)]
                    spread = [(j, c_, k_) for j in range(i + 1, len(out)) for c_ in ast.walk(out[j]) if isinstance(c_, ast.Call)
                              for k_ in c_.keywords if k_.arg is None and isinstance(k_.value, ast.Name) and k_.value.id == dname]
                    vnames = {v_.id for v_ in st.value.values if isinstance(v_, ast.Name)}
                    if len(uses) == 1 and len(spread) == 1 and not stores(out[i + 1:spread[0][0] + 1], vnames) \
                            and not ({k_.arg for k_ in spread[0][1].keywords if k_.arg} & {k_.value for k_ in st.value.keys}):
                        j, c_, k_ = spread[0]
                        pos = c_.keywords.index(k_)
                        c_.keywords[pos:pos + 1] = [ast.keyword(arg=kk.value, value=copy.deepcopy(vv)) for kk, vv in zip(st.value.keys, st.value.values)]
                        del out[i]
                        self.count += 1
                        continue
                # N11
                if isinstance(st, ast.If) and st.body and st.orelse and i + 1 < len(out):
                    nxt, a, b = out[i + 1], st.body[-1], st.orelse[-1]
                    if isinstance(nxt, ast.Assign) and len(nxt.targets) == 1 and isinstance(nxt.value, ast.Name) and all(
                            isinstance(z, ast.Assign) and len(z.targets) == 1 and isinstance(z.targets[0], ast.Name) and z.targets[0].id == nxt.value.id for z in (a, b)):
                        tname, tg = nxt.value.id, nxt.targets[0]
                        tg_ok = isinstance(tg, ast.Name) or (isinstance(tg, ast.Tuple) and all(isinstance(e, ast.Name) for e in tg.elts))
                        total = sum(1 for x in ast.walk(fn) if isinstance(x, ast.Name) and x.id == tname)
                        if tg_ok and total == 3:
                            a.targets, b.targets = [copy.deepcopy(tg)], [copy.deepcopy(tg)]
                            del out[i + 1]
                            self.count += 1
                            continue
                for f_ in ("body", "orelse", "finalbody"):
                    blk = getattr(st, f_, None)
                    if isinstance(blk, list) and blk and isinstance(blk[0], ast.stmt) and not isinstance(st, (ast.FunctionDef, ast.ClassDef)):
                        setattr(st, f_, block(blk))
                for h in getattr(st, "handlers", []) or []:
                    h.body = block(h.body)
                i += 1
            return out
        for _ in range(3):
            before = self.count
            fn.body = block(fn.body)
            Unroll().visit(fn)
            self.fn_stores = {}
            for x in ast.walk(fn):
                if isinstance(x, ast.Name) and isinstance(x.ctx, (ast.Store, ast.Del)):
                    self.fn_stores[x.id] = self.fn_stores.get(x.id, 0) + 1
            if self.count == before:
                break

    def _rmw(self, stmts, fn):
        """N13  `t = A[i]; t op= v; A[i] = t` (t used nowhere else, A and the names of i not rebound in between) -> `A[i] op= v`: the
        expansion Python itself performs for an augmented assignment to a subscript"""
        out = list(stmts)
        k = 0
        while k + 2 < len(out):
            a, b, c = out[k], out[k + 1], out[k + 2]
            if isinstance(a, ast.Assign) and len(a.targets) == 1 and isinstance(a.targets[0], ast.Name) and isinstance(a.value, ast.Subscript) \
                    and isinstance(b, ast.AugAssign) and isinstance(b.target, ast.Name) and b.target.id == a.targets[0].id \
                    and isinstance(c, ast.Assign) and len(c.targets) == 1 and isinstance(c.targets[0], ast.Subscript) and isinstance(c.value, ast.Name) \
                    and c.value.id == a.targets[0].id and ast.unparse(c.targets[0]) == ast.unparse(a.value) and fn is not None:
                t = a.targets[0].id
                total = sum(1 for x in ast.walk(fn) if isinstance(x, ast.Name) and x.id == t)
                used_in_v = any(isinstance(x, ast.Name) and x.id == t for x in ast.walk(b.value))
                if total == 3 and not used_in_v and _pure(a.value.slice):
                    out[k:k + 3] = [ast.AugAssign(target=c.targets[0], op=b.op, value=b.value, lineno=a.lineno)]
                    self.count += 1
                    continue
            k += 1
        return out

    def _split_assign(self, stmts):
        """N6  `a, b = x, y` -> `a = x; b = y` when no later value reads an earlier target; `a = b = v` (v a name or constant) -> `a = v; b = v`"""
        out = []
        for st in stmts:
            if isinstance(st, ast.Assign) and len(st.targets) == 1 and isinstance(st.targets[0], ast.Tuple) and isinstance(st.value, ast.Tuple) \
                    and len(st.targets[0].elts) == len(st.value.elts) and not any(isinstance(x, ast.Starred) for x in st.targets[0].elts + st.value.elts):
                tg, vs = st.targets[0].elts, st.value.elts
                ok = all(isinstance(t, (ast.Name, ast.Attribute)) for t in tg)
                for i, t in enumerate(tg):
                    tt = ast.unparse(t)
                    root = tt.split(".")[0]
                    for v in vs[i + 1:]:
                        vt = [ast.unparse(x) for x in ast.walk(v) if isinstance(x, (ast.Name, ast.Attribute))]
                        if tt in vt or (isinstance(t, ast.Name) and root in vt) or any(isinstance(x, ast.Call) for x in ast.walk(v)) and isinstance(t, ast.Attribute):
                            ok = False
                if ok:
                    self.count += 1
                    # (`x = x` left over from `a, b = (a, b)` is dropped: the name was bound, the display was built from it)
                    out += [ast.Assign(targets=[t], value=v, lineno=st.lineno) for t, v in zip(tg, vs)
                            if not (isinstance(t, ast.Name) and isinstance(v, ast.Name) and t.id == v.id)] or [ast.Pass()]
                    continue
            if isinstance(st, ast.Assign) and len(st.targets) > 1 and isinstance(st.value, (ast.Name, ast.Constant)) \
                    and all(isinstance(t, (ast.Name, ast.Attribute)) for t in st.targets):
                self.count += 1
                out += [ast.Assign(targets=[t], value=copy.deepcopy(st.value), lineno=st.lineno) for t in st.targets]
                continue
            out.append(st)
        return out

    def _while_to_for(self, stmts, fn_after_ok):
        """N7  `i = a` ... `while i <= n: body; i += 1`  ->  `for i in range(a, n + 1): body`   (a an int literal; i and n not rebound in
        the body, no `continue`, no else, and i not read after the loop)"""
        out = list(stmts)
        for j, w in enumerate(out):
            if not (isinstance(w, ast.While) and not w.orelse and isinstance(w.test, ast.Compare) and len(w.test.ops) == 1 and isinstance(w.test.ops[0], (ast.Lt, ast.LtE))
                    and isinstance(w.test.left, ast.Name) and isinstance(w.test.comparators[0], (ast.Name, ast.Constant)) and w.body):
                continue
            i, n = w.test.left.id, w.test.comparators[0]
            last = w.body[-1]
            if not (isinstance(last, ast.AugAssign) and isinstance(last.op, ast.Add) and isinstance(last.target, ast.Name) and last.target.id == i
                    and isinstance(last.value, ast.Constant) and last.value.value == 1):
                continue
            body = w.body[:-1]
            if not body:
                continue
            names_n = {n.id} if isinstance(n, ast.Name) else set()
            bad = any((isinstance(x, ast.Name) and x.id in ({i} | names_n) and isinstance(x.ctx, (ast.Store, ast.Del))) or isinstance(x, ast.Continue)
                      for st in body for x in ast.walk(st))
            if bad:
                continue
            init = None
            for k in range(j - 1, -1, -1):
                st = out[k]
                mentions = any(isinstance(x, ast.Name) and x.id == i for x in ast.walk(st))
                if isinstance(st, ast.Assign) and len(st.targets) == 1 and isinstance(st.targets[0], ast.Name) and st.targets[0].id == i \
                        and isinstance(st.value, ast.Constant) and isinstance(st.value.value, int) and not isinstance(st.value.value, bool):
                    init = k
                    break
                if mentions:
                    break
            if init is None:
                continue
            after = out[j + 1:]
            if any(isinstance(x, ast.Name) and x.id == i and isinstance(x.ctx, ast.Load) for st in after for x in ast.walk(st)) or not fn_after_ok(i, w, out[:j]):
                continue
            hi = n if isinstance(w.test.ops[0], ast.Lt) else ast.BinOp(left=n, op=ast.Add(), right=ast.Constant(value=1))
            loop = ast.For(target=ast.Name(id=i, ctx=ast.Store()), iter=ast.Call(func=ast.Name(id="range", ctx=ast.Load()), args=[out[init].value, hi], keywords=[]),
                           body=body, orelse=[], lineno=w.lineno)
            out[j] = loop
            del out[init]
            self.count += 1
            return self._while_to_for(out, fn_after_ok)
        return out

    def _unroll(self, stmts, fn):
        """N8  `for f in (a, b): body` over a literal tuple / list of at most four names or constants -> body[f:=a]; body[f:=b]
        (the loop variable is not rebound in the body, the body has no break / continue, and f is not read after the loop)"""
        out = []
        for j, st in enumerate(stmts):
            if isinstance(st, ast.For) and not st.orelse and isinstance(st.target, ast.Tuple) and all(isinstance(t_, ast.Name) for t_ in st.target.elts) \
                    and isinstance(st.iter, (ast.Tuple, ast.List)) and 1 <= len(st.iter.elts) <= 4 and fn is not None and all(
                        isinstance(e, ast.Tuple) and len(e.elts) == len(st.target.elts) and all(isinstance(x, (ast.Name, ast.Constant)) or _immutable_literal(x) for x in e.elts)
                        for e in st.iter.elts):
                # `for a, b in ((x1, y1), (x2, y2)): body`: the same unrolling with both names written in
                vs = [t_.id for t_ in st.target.elts]
                inside = {id(x) for x in ast.walk(st)}
                bad = any((isinstance(x, ast.Name) and x.id in vs and isinstance(x.ctx, (ast.Store, ast.Del)) and not any(x is t_ for t_ in st.target.elts))
                          or isinstance(x, (ast.Break, ast.Continue, ast.Lambda, ast.FunctionDef)) for b in st.body for x in ast.walk(b))
                used_after = any(isinstance(x, ast.Name) and x.id in vs and id(x) not in inside for x in ast.walk(fn))
                elt_names = {x.id for e in st.iter.elts for x in ast.walk(e) if isinstance(x, ast.Name)}
                clobber = any(isinstance(x, ast.Name) and x.id in elt_names and isinstance(x.ctx, (ast.Store, ast.Del)) for b in st.body for x in ast.walk(b))
                if not bad and not used_after and not clobber and len(set(vs)) == len(vs):
                    for e in st.iter.elts:
                        m = ast.Module(body=copy.deepcopy(st.body), type_ignores=[])
                        _Subst({}, dict(zip(vs, e.elts))).visit(m)
                        _Fold().visit(m)
                        out += m.body
                    self.count += 1
                    continue
            if isinstance(st, ast.For) and not st.orelse and isinstance(st.target, ast.Name) and isinstance(st.iter, (ast.Tuple, ast.List)) and 1 <= len(st.iter.elts) <= 4 \
                    and all(isinstance(e, (ast.Name, ast.Constant)) for e in st.iter.elts) and fn is not None:
                v = st.target.id
                inside = {id(x) for x in ast.walk(st)}
                bad = any((isinstance(x, ast.Name) and x.id == v and isinstance(x.ctx, (ast.Store, ast.Del)) and x is not st.target) or isinstance(x, (ast.Break, ast.Continue))
                          for b in st.body for x in ast.walk(b))
                used_after = any(isinstance(x, ast.Name) and x.id == v and id(x) not in inside for x in ast.walk(fn))
                elt_names = {e.id for e in st.iter.elts if isinstance(e, ast.Name)}
                clobber = any(isinstance(x, ast.Name) and x.id in elt_names and isinstance(x.ctx, (ast.Store, ast.Del)) for b in st.body for x in ast.walk(b))
                if not bad and not used_after and not clobber:
                    for e in st.iter.elts:
                        m = ast.Module(body=copy.deepcopy(st.body), type_ignores=[])
                        _Subst({}, {v: e}).visit(m)
                        _Fold().visit(m)
                        out += m.body
                    self.count += 1
                    continue
            out.append(st)
        return out

    def _ifexp_assign(self, stmts):
        """N15  `x = A if c else x` -> `if c: x = A` ; `x = x if c else B` -> `if not c: x = B`  (re-binding a name to itself is no operation)"""
        out = []
        for st in stmts:
            if isinstance(st, ast.Assign) and len(st.targets) == 1 and isinstance(st.targets[0], ast.Name) and isinstance(st.value, ast.IfExp):
                x, v = st.targets[0].id, st.value
                if isinstance(v.orelse, ast.Name) and v.orelse.id == x and not (isinstance(v.body, ast.Name) and v.body.id == x):
                    out.append(ast.If(test=v.test, body=[ast.Assign(targets=st.targets, value=v.body, lineno=st.lineno)], orelse=[], lineno=st.lineno))
                    self.count += 1
                    continue
                if isinstance(v.body, ast.Name) and v.body.id == x and not (isinstance(v.orelse, ast.Name) and v.orelse.id == x):
                    out.append(ast.If(test=self._neg(v.test), body=[ast.Assign(targets=st.targets, value=v.orelse, lineno=st.lineno)], orelse=[], lineno=st.lineno))
                    self.count += 1
                    continue
            out.append(st)
        return out

    def _post(self, blk):
        blk = self._ifexp_assign(blk)
        blk = self._split_assign(blk)
        fn = getattr(self, "cur_fn", None)
        blk = self._rmw(blk, fn)
        blk = self._unroll(blk, fn)

        def after_ok(i, w, before):
            # i must not be read anywhere in the function outside the loop, except in the statements that precede it in its own block
            if fn is None:
                return False
            inside = {id(x) for x in ast.walk(w)} | {id(x) for st in before for x in ast.walk(st)}
            return not any(isinstance(x, ast.Name) and x.id == i and isinstance(x.ctx, ast.Load) and id(x) not in inside for x in ast.walk(fn))
        return self._while_to_for(blk, after_ok)

    def generic_visit(self, node):
        super().generic_visit(node)
        for f_ in ("body", "orelse", "finalbody"):
            blk = getattr(node, f_, None)
            if isinstance(blk, list) and blk and isinstance(blk[0], ast.stmt):
                setattr(node, f_, self._post(blk))
        for h in getattr(node, "handlers", []) or []:
            h.body = self._post(h.body)
        return node

    def visit_FunctionDef(self, f):
        prev = getattr(self, "fn_stores", {})
        self.fn_stores = {}
        for x in ast.walk(f):
            if isinstance(x, ast.Name) and isinstance(x.ctx, (ast.Store, ast.Del)):
                self.fn_stores[x.id] = self.fn_stores.get(x.id, 0) + 1
        prev_fn = getattr(self, "cur_fn", None)
        self.cur_fn = f
        self._tuple_flow(f)
        self.generic_visit(f)
        f.body = self._copy_prop(self._slice_alias(f.body))
        self.cur_fn = prev_fn
        self.fn_stores = prev
        return f

    def visit_For(self, n):
        self.generic_visit(n)
        n.body = self._copy_prop(self._slice_alias(self._loop_body(n.body)))
        n.orelse = self._slice_alias(n.orelse) if n.orelse else n.orelse
        return n

    def visit_While(self, n):
        self.generic_visit(n)
        n.body = self._loop_body(n.body)
        return n

    def visit_If(self, n):
        self.generic_visit(n)
        if n.orelse and all(isinstance(x, ast.Pass) for x in n.orelse):
            n.orelse = []
        if isinstance(n.test, ast.Constant) and isinstance(n.test.value, (bool, type(None))):
            # N12  `if True: A else: B` (a literal flag written into an inlined helper) -> A
            self.count += 1
            return (n.body if n.test.value else n.orelse) or [ast.Pass()]
        if hasattr(self, "fn_stores"):
            n.body = self._slice_alias(n.body)
            n.orelse = self._slice_alias(n.orelse) if n.orelse else n.orelse
        if isinstance(n.test, ast.UnaryOp) and isinstance(n.test.op, ast.Not) and n.orelse and not (len(n.orelse) == 1 and isinstance(n.orelse[0], ast.If)):
            self.count += 1
            n.test, n.body, n.orelse = n.test.operand, n.orelse, n.body
        return n

    def visit_UnaryOp(self, n):
        self.generic_visit(n)
        if isinstance(n.op, ast.Not) and isinstance(n.operand, ast.UnaryOp) and isinstance(n.operand.op, ast.Not):
            # `not not X` is bool(X): only equal to X in a test position; keep unless the parent is a test (handled by callers)
            return n
        return n


def _numeric_literal(e):
    """a constant arithmetic expression over numbers and np.pi / math.pi"""
    if isinstance(e, ast.Constant):
        return isinstance(e.value, (int, float)) and not isinstance(e.value, bool)
    if isinstance(e, ast.Attribute):
        return e.attr in ("pi", "e") and isinstance(e.value, ast.Name) and e.value.id in ("np", "numpy", "math")
    if isinstance(e, ast.BinOp):
        return isinstance(e.op, (ast.Add, ast.Sub, ast.Mult, ast.Div, ast.Pow)) and _numeric_literal(e.left) and _numeric_literal(e.right)
    if isinstance(e, ast.UnaryOp):
        return isinstance(e.op, (ast.USub, ast.UAdd)) and _numeric_literal(e.operand)
    return False


def _immutable_literal(e, depth=0):
    """a (nested) tuple display of constants: equal wherever it is written out (identity is not observable through the library)"""
    def const(x):
        return isinstance(x, ast.Constant) or (isinstance(x, ast.UnaryOp) and isinstance(x.op, (ast.USub, ast.UAdd)) and isinstance(x.operand, ast.Constant)
                                                and isinstance(x.operand.value, (int, float)))
    if isinstance(e, ast.Tuple) and depth < 3:
        return bool(e.elts) and all(const(x) or _immutable_literal(x, depth + 1) for x in e.elts)
    return depth > 0 and const(e)


def fold_literal_factories(tree, rel, inv):
    """`def f(a, b=1, **extra): return {<display built from constants, the parameters and calls of other such functions>}` that is not part
    of the reference tree, called with literal arguments: the call is replaced by the display with the arguments written in (every call
    built a new object; so does the display).  `**extra` may only be spread into a dict display / forwarded.  -> number of calls folded"""
    def literalish(e, names=()):
        if isinstance(e, ast.Constant):
            return True
        if isinstance(e, ast.Name):
            return e.id in names
        if isinstance(e, ast.UnaryOp) and isinstance(e.op, (ast.USub, ast.UAdd)):
            return literalish(e.operand, names)
        if isinstance(e, (ast.Tuple, ast.List, ast.Set)):
            return all(literalish(x, names) for x in e.elts)
        if isinstance(e, ast.Dict):
            return all((k is None or literalish(k, names)) and literalish(v, names) for k, v in zip(e.keys, e.values))
        if isinstance(e, ast.Call) and isinstance(e.func, ast.Name) and e.func.id in facts:
            return all(literalish(a, names) for a in e.args) and all(k.arg is not None and literalish(k.value, names) for k in e.keywords)
        return False
    facts = {}
    cands = [fn for fn in tree.body if isinstance(fn, ast.FunctionDef) and f"{rel}:{fn.name}" not in inv and not fn.decorator_list and not fn.args.vararg
             and not fn.args.posonlyargs]
    for _ in range(3):
        for fn in cands:
            body = [st for st in fn.body if not (isinstance(st, ast.Expr) and isinstance(st.value, ast.Constant))]
            if len(body) != 1 or not isinstance(body[0], ast.Return) or body[0].value is None:
                continue
            names = {a.arg for a in fn.args.args + fn.args.kwonlyargs} | ({fn.args.kwarg.arg} if fn.args.kwarg else set())
            facts.setdefault(fn.name, None)
            if literalish(body[0].value, names) and all(literalish(d) for d in list(fn.args.defaults) + [d for d in fn.args.kw_defaults if d is not None]):
                facts[fn.name] = (fn, body[0].value)
            else:
                facts.pop(fn.name)
    facts = {k: v for k, v in facts.items() if v is not None}
    if not facts:
        return 0
    count = [0]

    class Sub(ast.NodeTransformer):
        def visit_Call(self, c):
            self.generic_visit(c)
            if not (isinstance(c.func, ast.Name) and c.func.id in facts and literalish(c)):
                return c
            fn, expr = facts[c.func.id]
            pos = [a.arg for a in fn.args.args]
            if len(c.args) > len(pos):
                return c
            bind = dict(zip(pos, c.args))
            extra = []
            for k in c.keywords:
                if k.arg in bind:
                    return c
                if k.arg in pos or k.arg in [a.arg for a in fn.args.kwonlyargs]:
                    bind[k.arg] = k.value
                elif fn.args.kwarg is not None:
                    extra.append(k)
                else:
                    return c
            dflt = dict(zip(pos[len(pos) - len(fn.args.defaults):], fn.args.defaults))
            dflt.update({a.arg: d for a, d in zip(fn.args.kwonlyargs, fn.args.kw_defaults) if d is not None})
            for p_ in pos + [a.arg for a in fn.args.kwonlyargs]:
                if p_ not in bind:
                    if p_ not in dflt:
                        return c
                    bind[p_] = dflt[p_]
            new = copy.deepcopy(expr)
            kwname = fn.args.kwarg.arg if fn.args.kwarg else None
            if kwname:
                for d in ast.walk(new):
                    if isinstance(d, ast.Dict):
                        ks, vs = [], []
                        for k_, v_ in zip(d.keys, d.values):
                            if k_ is None and isinstance(v_, ast.Name) and v_.id == kwname:
                                ks += [ast.Constant(value=e.arg) for e in extra]
                                vs += [copy.deepcopy(e.value) for e in extra]
                            else:
                                ks.append(k_)
                                vs.append(v_)
                        d.keys, d.values = ks, vs
                if any(isinstance(x, ast.Name) and x.id == kwname for x in ast.walk(new)):
                    return c
            m = ast.Module(body=[ast.Expr(value=new)], type_ignores=[])
            _Subst({}, bind).visit(m)
            count[0] += 1
            return Sub().visit(m.body[0].value)
    Sub().visit(tree)
    return count[0]


def _referenced(trees, name):
    for t in trees:
        for x in ast.walk(t):
            if isinstance(x, ast.Name) and x.id == name and isinstance(x.ctx, ast.Load):
                return True
            if isinstance(x, ast.Attribute) and x.attr == name:
                return True
            if isinstance(x, ast.alias) and x.name == name:
                return True
            if isinstance(x, ast.Constant) and x.value == name:
                return True
    return False


def build_inlined_tree(src_root, dst_root):
    """write the helper-inlined view of src_root/magpylib to dst_root/magpylib; -> report dict (empty 'inlined' = identical tree)"""
    inv = load_inventory()
    paths = sorted(glob.glob(os.path.join(src_root, "magpylib", "**", "*.py"), recursive=True))
    trees, srcs = {}, {}
    for p in paths:
        rel = os.path.relpath(p, src_root)
        srcs[rel] = open(p, encoding="utf-8").read()
        trees[rel] = ast.parse(srcs[rel])
    # method names per class name, for dispatch safety
    defined = {}
    for rel, t in trees.items():
        for n in t.body:
            if isinstance(n, ast.ClassDef):
                for m in n.body:
                    if isinstance(m, ast.FunctionDef):
                        defined.setdefault(m.name, set()).add((rel, n.name))
    report = {"inlined": {}, "removed": [], "kept": []}
    changed = set()
    # helpers that may be written out in another module / at a call on another receiver: not part of the reference tree, name unique among
    # all definitions of the tree, owner class (if any) part of the reference tree, not recursive
    bindings = {rel: module_bindings(t, rel) for rel, t in trees.items()}
    def_count = {}
    for rel, t in trees.items():
        for x in ast.walk(t):
            if isinstance(x, (ast.FunctionDef, ast.AsyncFunctionDef, ast.ClassDef)):
                def_count[x.name] = def_count.get(x.name, 0) + 1
    foreign = {}
    for rel, t in trees.items():
        for q, (fn, owner) in module_functions(t).items():
            if "#" in q or f"{rel}:{q}" in inv or def_count.get(fn.name, 0) != 1 or not _basic_ok(fn) or (fn.name.startswith("__") and fn.name.endswith("__")):
                continue
            if owner is not None and (f"{rel}:class {owner.name}" not in inv or not fn.args.args or fn.args.args[0].arg != "self"):
                continue
            if any(isinstance(x, (ast.Name, ast.Attribute)) and getattr(x, "id", getattr(x, "attr", None)) == fn.name for x in ast.walk(fn)):
                continue
            if any(any(isinstance(x, ast.Name) and x.id == fn.name and isinstance(x.ctx, ast.Store) for x in ast.walk(t2)) for t2 in trees.values()):
                continue
            foreign[fn.name] = (fn, owner, rel, bindings[rel])
    for rel, t in trees.items():
        other = {}
        for n in t.body:
            if isinstance(n, ast.ClassDef):
                other[n.name] = {m for m, where in defined.items() if any(w != (rel, n.name) for w in where)}
        npf = expand_property_factories(t, rel, inv)
        if npf:
            changed.add(rel)
            report.setdefault("property_factories_expanded", {})[rel] = npf
            for fn_ in [f for f in t.body if isinstance(f, ast.FunctionDef) and f"{rel}:{f.name}" not in inv]:
                idx_ = t.body.index(fn_)
                t.body.remove(fn_)
                if _referenced(trees.values(), fn_.name):
                    t.body.insert(idx_, fn_)
                else:
                    report["removed"].append(f"{rel}:{fn_.name}")
        nlf = fold_literal_factories(t, rel, inv)
        if nlf:
            changed.add(rel)
            report.setdefault("literal_factories_folded", {})[rel] = nlf
            for fn_ in [f for f in t.body if isinstance(f, ast.FunctionDef) and f"{rel}:{f.name}" not in inv]:
                idx_ = t.body.index(fn_)
                t.body.remove(fn_)
                if _referenced(trees.values(), fn_.name):
                    t.body.insert(idx_, fn_)
                else:
                    report["removed"].append(f"{rel}:{fn_.name}")
        inl = Inliner(rel, t, inv, other, foreign, bindings)
        recs = record_classes(t, rel, inv)
        has_closures = any(Inliner._direct_nested(fn_) for fn_, _o in inl.funcs.values())
        done = inl.run()
        if done:
            changed.add(rel)
            for q, k in done.items():
                report["inlined"][f"{rel}:{q}"] = k
        if True:
            sc = Scalarizer(inl, recs)
            for q, (fn, owner) in inl.funcs.items():
                if owner is None or owner.name not in recs:
                    sc.count += scalarize_single_records(fn, recs)
                    sc.run_fn(fn, owner)
            if sc.count:
                changed.add(rel)
                report.setdefault("scalarised", {})[rel] = sc.count
                for cname, R in recs.items():
                    node = R["node"]
                    if node is not None and node in t.body:
                        idx = t.body.index(node)
                        t.body.remove(node)
                        if _referenced(trees.values(), cname):
                            t.body.insert(idx, node)
                        else:
                            report["removed"].append(f"{rel}:class {cname}")
    # helpers written out in other modules: dead once nothing but import lines mentions them
    for name in sorted({k.split(":@", 1)[1] for k in report["inlined"] if ":@" in k}):
        fn, owner, home, _hb = foreign[name]
        holder = trees[home] if owner is None else owner
        if fn not in holder.body:
            continue
        idx = holder.body.index(fn)
        holder.body.remove(fn)
        used = False
        for t2 in trees.values():
            for x in ast.walk(t2):
                if (isinstance(x, ast.Name) and x.id == name) or (isinstance(x, ast.Attribute) and x.attr == name) or (isinstance(x, ast.Constant) and x.value == name) \
                        or (isinstance(x, ast.alias) and x.name == name):
                    used = True          # (a module that imports the name re-exports it: other code may import it from there)
        if used:
            holder.body.insert(idx, fn)
            report["kept"].append(f"{home}:{name}")
            continue
        report["removed"].append(f"{home}:{name}")
        changed.add(home)
        if not holder.body:
            holder.body.append(ast.Pass())
    # remove helpers that are no longer referenced anywhere
    for rel in sorted(changed):
        t = trees[rel]
        for q in [k.split(":", 1)[1] for k in report["inlined"] if k.startswith(rel + ":") and ":@" not in k]:
            name = q.split(".")[-1]
            if name.startswith("__") and name.endswith("__"):
                continue            # special methods are referenced implicitly; their class goes as a whole (below) or stays
            cnode = next((n for n in t.body if isinstance(n, ast.ClassDef) and n.name == q), None)
            if cnode is not None:
                # a fused context-manager class: dead once no other reference is left
                idx = t.body.index(cnode)
                t.body.remove(cnode)
                if _referenced(trees.values(), q):
                    t.body.insert(idx, cnode)
                    report["kept"].append(f"{rel}:class {q}")
                else:
                    report["removed"].append(f"{rel}:class {q}")
                continue
            holder = t
            if "." in q:
                holder = next((n for n in t.body if isinstance(n, ast.ClassDef) and n.name == q.split(".")[0]), None)
                if holder is None:
                    continue          # the class went as a whole (a record class that was scalarised away)
            node = next((n for n in holder.body if isinstance(n, ast.FunctionDef) and n.name == name), None)
            if node is None:
                continue
            idx = holder.body.index(node)
            holder.body.remove(node)
            if _referenced(trees.values(), name):
                holder.body.insert(idx, node)
                report["kept"].append(f"{rel}:{q}")
            else:
                report["removed"].append(f"{rel}:{q}")
                if not holder.body:
                    holder.body.append(ast.Pass())
    # module-level numeric constants that are not part of the reference tree are folded back into their uses
    for rel, t in trees.items():
        for n in list(t.body):
            if isinstance(n, ast.Assign) and len(n.targets) == 1 and isinstance(n.targets[0], ast.Name) and f"{rel}:const {n.targets[0].id}" not in inv \
                    and (_numeric_literal(n.value) or _immutable_literal(n.value)):
                name = n.targets[0].id
                stores = [x for x in ast.walk(t) if isinstance(x, ast.Name) and x.id == name and isinstance(x.ctx, (ast.Store, ast.Del))]
                shadow = any(isinstance(x, ast.arg) and x.arg == name for x in ast.walk(t)) or any(
                    isinstance(x, (ast.Global, ast.Nonlocal)) and name in x.names for x in ast.walk(t))
                if len(stores) != 1 or shadow:
                    continue
                t.body.remove(n)
                _Subst({}, {name: n.value}).visit(t)
                if _referenced([tr for r2, tr in trees.items() if r2 != rel], name):
                    t.body.insert(0, n)
                    while isinstance(t.body[1], (ast.Import, ast.ImportFrom)) or (isinstance(t.body[1], ast.Expr) and isinstance(t.body[1].value, ast.Constant)):
                        t.body.insert(0, t.body.pop(1))
                changed.add(rel)
                report.setdefault("constants_folded", []).append(f"{rel}:{name}")
    # module-level `NAME = {"k": <literal>, ..}` that is not part of the reference tree and is only ever spread into calls: `f(x, **NAME)` -> `f(x, k=.., ..)`
    for rel, t in trees.items():
        for n in list(t.body):
            if not (isinstance(n, ast.Assign) and len(n.targets) == 1 and isinstance(n.targets[0], ast.Name) and f"{rel}:const {n.targets[0].id}" not in inv
                    and isinstance(n.value, ast.Dict) and n.value.keys
                    and all(isinstance(k_, ast.Constant) and isinstance(k_.value, str) and k_.value.isidentifier() for k_ in n.value.keys)
                    and all(isinstance(v_, ast.Constant) or _immutable_literal(v_) or _immutable_literal(v_, 1) for v_ in n.value.values)):
                continue
            name = n.targets[0].id
            occ = [x for x in ast.walk(t) if isinstance(x, ast.Name) and x.id == name]
            spreads = [(c_, k_) for c_ in ast.walk(t) if isinstance(c_, ast.Call) for k_ in c_.keywords
                       if k_.arg is None and isinstance(k_.value, ast.Name) and k_.value.id == name]
            if len(occ) != 1 + len(spreads) or not spreads or _referenced([tr for r2, tr in trees.items() if r2 != rel], name):
                continue
            if any({k2.arg for k2 in c_.keywords if k2.arg} & {k_.value for k_ in n.value.keys} for c_, _k in spreads):
                continue
            for c_, k_ in spreads:
                pos = c_.keywords.index(k_)
                c_.keywords[pos:pos + 1] = [ast.keyword(arg=kk.value, value=copy.deepcopy(vv)) for kk, vv in zip(n.value.keys, n.value.values)]
            t.body.remove(n)
            changed.add(rel)
            report.setdefault("constants_folded", []).append(f"{rel}:{name}")
    # module-level `name = functools.partial(f, a.., k=v..)` that is not part of the reference tree: calls `name(b.., k2=..)` -> `f(a.., b.., k=v.., k2=..)`
    for rel, t in trees.items():
        for n in list(t.body):
            if not (isinstance(n, ast.Assign) and len(n.targets) == 1 and isinstance(n.targets[0], ast.Name) and f"{rel}:const {n.targets[0].id}" not in inv
                    and isinstance(n.value, ast.Call) and ast.unparse(n.value.func) in ("partial", "functools.partial") and n.value.args
                    and isinstance(n.value.args[0], (ast.Name, ast.Attribute)) and not any(isinstance(a, ast.Starred) for a in n.value.args)
                    and all(k.arg for k in n.value.keywords) and all(_pure(a) for a in n.value.args[1:]) and all(_pure(k.value) for k in n.value.keywords)):
                continue
            name = n.targets[0].id
            stores = [x for x in ast.walk(t) if isinstance(x, ast.Name) and x.id == name and isinstance(x.ctx, (ast.Store, ast.Del))]
            if len(stores) != 1 or any(isinstance(x, ast.arg) and x.arg == name for x in ast.walk(t)):
                continue
            pk = {k.arg for k in n.value.keywords}
            calls = [c for c in ast.walk(t) if isinstance(c, ast.Call) and isinstance(c.func, ast.Name) and c.func.id == name]
            if not calls or any(({k.arg for k in c.keywords} & pk) or any(k.arg is None for k in c.keywords) for c in calls):
                continue
            for c in calls:
                c.func = copy.deepcopy(n.value.args[0])
                c.args = [copy.deepcopy(a) for a in n.value.args[1:]] + list(c.args)
                c.keywords = [copy.deepcopy(k) for k in n.value.keywords] + list(c.keywords)
            idx = t.body.index(n)
            t.body.remove(n)
            if _referenced(trees.values(), name):
                t.body.insert(idx, n)
            changed.add(rel)
            report.setdefault("partials_folded", []).append(f"{rel}:{name}")
    report["normalised"] = {}
    for rel, t in trees.items():
        nz = Normalizer()
        nz.visit(t)
        if nz.count:
            changed.add(rel)
            report["normalised"][rel] = nz.count
    for rel in srcs:
        dst = os.path.join(dst_root, rel)
        os.makedirs(os.path.dirname(dst), exist_ok=True)
        if rel in changed:
            ast.fix_missing_locations(trees[rel])
            with open(dst, "w", encoding="utf-8") as fh:
                fh.write(ast.unparse(trees[rel]) + "\n")
        else:
            with open(dst, "w", encoding="utf-8", newline="") as fh:
                fh.write(srcs[rel])
    return report


if __name__ == "__main__":
    import sys
    if sys.argv[1] == "inventory":
        inv = inventory_of(sys.argv[2] if len(sys.argv) > 2 else "/repo")
        json.dump(inv, open(INVENTORY, "w"), indent=0)
        print(f"{len(inv)} functions / classes recorded in {INVENTORY}")
    else:
        rep = build_inlined_tree(sys.argv[1], sys.argv[2])
        print(json.dumps(rep, indent=1))
