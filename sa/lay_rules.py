"""LAYOUT rules: assume/guarantee analysis of the level-2 batch plumbing (laydom.py).

  A  get_src_dict(group: G, n_pix: |P|, n_pp: |M*P|, poso: Arr[M*P, 3])  guarantees: every value of the returned dict has axis 0 = G*M*P
     (interprocedural into tile_group_property)
  B  getBH_level1(position, orientation, observers : axis 0 = N, **kwargs)  guarantees: every rotation/vector pairing is row aligned,
     the field function receives row-aligned keyword arrays, returns Arr[N, 3]
  C  getBH_level2: the actual arguments of A are what A assumes (n_pp = len(poso), n_pix = n_pp / path length, poso = M*P),
     the group result is re-split as (G, M, P, 3), written to a slot (M, P, 3), sensor rotations are stacked like the flattened
     block they are applied to, the pixel split runs along the pixel axis, sumup along the source axis, the final reshape and the
     dataframe index enumerate (source, path, sensor, pixel) in the order of the array axes.
"""
from __future__ import annotations

import ast

import common
from common import AnalysisError, Finding, norm
from laydom import *   # noqa

W = "magpylib._src.fields.field_wrap_BH"
WREL = "magpylib/_src/fields/field_wrap_BH.py"


def run_fn(fname, params, summaries=None):
    arepo = ARepo(common.REPO)
    mod = arepo.module(W)
    if mod is None or fname not in mod.funcs:
        raise AnalysisError(f"anchor vanished: {W}.{fname}")
    dom = LayoutDomain()
    dom.repo_summaries = summaries or {}
    it = Interp(arepo, dom)
    it.tolerant = True
    out = it.call_func(FuncRef(mod, mod.funcs[fname], name=fname), [], params, mod.funcs[fname])
    return out, dom, it, mod.funcs[fname]


def _emit(res, rule, dom, fallback_fn):
    for kind, fn, node, msg in dom.flist:
        res.add(Finding(f"{rule}:{kind}", WREL, fn if fn != "?" else fallback_fn, node, msg, getattr(node, "lineno", None)))


GMP = ("G", "M", "P")


def analysis_a(res, rule):
    out, dom, it, node = run_fn("get_src_dict", dict(group=ObjList("G"), n_pix=Sz(("P",)), n_pp=Sz(("M", "P")), poso=Arr((("M", "P"), LIT(3)))))
    _emit(res, rule, dom, "get_src_dict")
    if not (isinstance(out, Const) and isinstance(out.value, dict)):
        raise AnalysisError(f"LAYOUT: get_src_dict does not return a dict the interpreter can follow ({out!r}); skipped={getattr(it, 'skipped', [])[:3]}")
    rows = {}
    for k, v in out.value.items():
        if isinstance(v, Arr) and v.axes: rows[k] = tuple(v.axes[0])
        elif isinstance(v, RotL): rows[k] = tuple(v.f)
        else: rows[k] = None
    need = {"position", "observers", "orientation", "*"}
    if not need <= set(rows):
        raise AnalysisError(f"LAYOUT: get_src_dict: expected entries {sorted(need)} (per-source properties as '*'), found {sorted(rows)}")
    for k, f in rows.items():
        label = "per-source property (tile_group_property)" if k == "*" else k
        if f is None or unknownish(f):
            # the layout was lost (a construct outside the transfer table): nothing is claimed about this entry
            res.ob(f"{rule}:A:get_src_dict[{label}] axis 0 = G*M*P", True, {"rule": rule, "entry": label, "axis0": "not followed: " + repr(out.value[k])}, nontrivial=False)
            res.undecided.append(f"{rule}: row layout of get_src_dict entry `{label}` not followed ({out.value[k]!r})")
            continue
        ok = f == GMP
        res.ob(f"{rule}:A:get_src_dict[{label}] axis 0 = G*M*P", ok, {"rule": rule, "entry": label, "axis0": "*".join(f) if f else repr(out.value[k])})
        if not ok and not dom.flist:
            n = node
            for s in ast.walk(node):
                if isinstance(s, ast.Assign) and k != "*" and any(isinstance(c, ast.Constant) and c.value == k for c in ast.walk(s)):
                    n = s
            res.add(Finding(f"{rule}:rows", WREL, "get_src_dict", f"{label}: axis 0 enumerated as {'*'.join(f) if f else '?'}",
                            f"the rows handed to the field function must enumerate (source of the group, path index, pixel) in this order for every entry; "
                            f"`{label}` does not, so its row r belongs to another source/path index/pixel than row r of the observers", getattr(n, "lineno", None)))
    res.evaluations += len(dom.judged)
    return dom


def analysis_b(res, rule):
    N = ("N",)
    kw = Const({"dimension": Arr((N, ("?",))), "in_out": Const("auto")})
    out, dom, it, node = run_fn("getBH_level1", dict(field_func=ExtName("FIELD_FUNC"), field=Const("B"), position=Arr((N, LIT(3))),
                                                  orientation=RotL(N), observers=Arr((N, LIT(3))), kwargs=kw),
                                summaries={"has_parameter": lambda d, a, k, n: Unknown("has_parameter")})
    _emit(res, rule, dom, "getBH_level1")
    kinds = [k for k, _ in dom.judged.values()]
    ok = isinstance(out, Arr) and out.axes and tuple(out.axes[0]) == N and kinds.count("pair") >= 3 and kinds.count("contract") >= 1
    res.ob(f"{rule}:B:getBH_level1 row alignment", ok and not dom.flist, {"rule": rule, "judged_sites": sorted(t for _, t in dom.judged.values()), "returns": repr(out)})
    if not ok and not dom.flist:
        raise AnalysisError(f"LAYOUT: getBH_level1: returns {out!r}, judged {kinds}; skipped={getattr(it, 'skipped', [])[:3]}")
    res.evaluations += len(dom.judged)
    return dom


def analysis_c(res, rule):
    checked = {}

    def s_get_src_dict(d, a, k, n):
        d.log("contract-args", n)
        names = ("group", "n_pix", "n_pp", "poso")
        vals = dict(zip(names, a)); vals.update(k)
        want = {"n_pix": ("Sz", ("P",)), "n_pp": ("Sz", ("M", "P")), "poso": ("Arr", ("M", "P"))}
        for nm, (kind, f) in want.items():
            v = vals.get(nm)
            got = tuple(v.f) if isinstance(v, Sz) else (tuple(v.axes[0]) if isinstance(v, Arr) and v.axes else None)
            checked[nm] = got
            if got is None:
                continue              # the layout of this argument was not followed: nothing claimed
            if got != f and not unknownish(got):
                d.report("contract-args", n, f"get_src_dict assumes `{nm}` enumerates {'*'.join(f)} (path index major, pixel minor) but is handed "
                         f"{'*'.join(got) if got else repr(v)}")
        return Const({"position": Arr((GMP, LIT(3))), "observers": Arr((GMP, LIT(3))), "orientation": RotL(GMP), "*": Arr((GMP, ("?",)))})

    def s_level1(d, a, k, n):
        return d.contract("getBH_level1", k, n)

    summ = {
        "format_src_inputs": lambda d, a, k, n: Seq([ObjList("S"), ObjList("SRCFLAT")], "py"),
        "check_dimensions": lambda d, a, k, n: Const(None), "check_excitations": lambda d, a, k, n: Const(None),
        "check_format_pixel_agg": lambda d, a, k, n: ExtName("PIXEL_AGG"),
        "check_format_input_observers": lambda d, a, k, n: Seq([ObjList("SENS"), ListOf("SENS", PixShape())], "py"),
        "check_static_sensor_orient": lambda d, a, k, n: ListOf("SENS", Unknown("static")),
        "format_obj_input": lambda d, a, k, n: ObjList("COL"),
        "getBH_dict_level2": lambda d, a, k, n: Unknown("dict interface"),
        "check_getBH_output_type": lambda d, a, k, n: Unknown("output"),
        "get_src_dict": s_get_src_dict, "getBH_level1": s_level1,
    }
    out, dom, it, node = run_fn("getBH_level2", dict(sources=Unknown("sources"), observers=Unknown("observers"), field=Const("B"), sumup=Unknown("sumup"),
                                                  squeeze=Unknown("squeeze"), pixel_agg=Const(None), output=Unknown("output"), in_out=Const("auto")), summaries=summ)
    _emit(res, rule, dom, "getBH_level2")
    kinds = [k for k, _ in dom.judged.values()]
    need = {"reshape": 4, "pair": 2, "store": 2, "split": 1, "product": 1, "dataframe": 1, "contract-args": 1, "contract": 1}
    missing = {k: (kinds.count(k), n) for k, n in need.items() if kinds.count(k) < n}
    res.ob(f"{rule}:C:getBH_level2 layouts", not dom.flist,
           {"rule": rule, "judged_sites": sorted(f"{k}: {t}" for k, t in dom.judged.values()), "get_src_dict_arguments": {k: "*".join(v) if v else None for k, v in checked.items()}})
    if missing and not dom.flist:
        hard = {k: v for k, v in missing.items() if k in ("contract-args", "contract")}
        if hard or getattr(it, "skipped", []):
            raise AnalysisError(f"LAYOUT: getBH_level2: judged sites below the confirmed counts {missing}; skipped={getattr(it, 'skipped', [])[:4]}")
        # the code was restructured so that the layout of the result array is no longer followed: say so, decide nothing about those sites
        res.undecided.append(f"{rule}: layout of the level-2 result array not followed through the current code shape; sites not judged: "
                             + ", ".join(f"{k} {a}/{b}" for k, (a, b) in sorted(missing.items())))
    res.evaluations += len(dom.judged)
    return dom


def run(res, rule="LAY"):
    analysis_a(res, rule)
    analysis_b(res, rule)
    analysis_c(res, rule)
