"""Prototype abstract interpreter (scratch, de-risking the design).

Generic walker over python/numpy code with a pluggable domain object.
Fail-closed: unknown constructs raise Unsupported(node, why).
"""
from __future__ import annotations
import ast, os, sys
from fractions import Fraction


class Unsupported(Exception):
    def __init__(self, node, why):
        self.node, self.why = node, why
        super().__init__(f"{why} @ line {getattr(node,'lineno','?')}: "
                         f"{ast.unparse(node)[:80] if isinstance(node, ast.AST) else node}")


# --------------------------------------------------------------------------- values
class V:  # base abstract value
    pass


class Const(V):
    """python-level known constant (int/float/str/bool/None/tuple/list of Const ...)"""
    def __init__(self, value):
        self.value = value
    def __repr__(self):
        return f"Const({self.value!r})"


class Seq(V):
    """python tuple/list of abstract values, or array rows/cols with distinct values.
    kind: 'py' (python sequence), 'cols' (array, hetero along LAST axis), 'rows' (hetero along FIRST axis)
    """
    def __init__(self, items, kind="py"):
        self.items, self.kind = list(items), kind
    def __repr__(self):
        return f"Seq[{self.kind}]({self.items})"


class FuncRef(V):
    def __init__(self, module, node, closure=None, name=None):
        self.module, self.node, self.closure = module, node, closure
        self.name = name or node.name
    def __repr__(self):
        return f"Func({self.name})"


class ModRef(V):
    def __init__(self, name):
        self.name = name
    def __repr__(self):
        return f"Mod({self.name})"


class Opaque(V):
    """value we deliberately do not track (e.g. warnings context)"""
    def __init__(self, why=""):
        self.why = why
    def __repr__(self):
        return f"Opaque({self.why})"


class Env:
    def __init__(self, parent=None):
        self.vars, self.parent = {}, parent
    def get(self, k):
        e = self
        while e is not None:
            if k in e.vars:
                return e.vars[k]
            e = e.parent
        raise KeyError(k)
    def set(self, k, v):
        self.vars[k] = v
    def copy(self):
        e = Env(self.parent)
        e.vars = dict(self.vars)
        if '_module' in self.__dict__:
            e._module = self._module
        return e
    @property
    def module(self):
        e = self
        while e is not None:
            if '_module' in e.__dict__:
                return e._module
            e = e.parent
        raise AttributeError('module')
    @module.setter
    def module(self, m):
        self._module = m


class BudgetExceeded(Exception):
    pass


class ReturnSignal(Exception):
    def __init__(self, v):
        self.v = v


class Module:
    def __init__(self, name, path):
        self.name, self.path = name, path
        self.src = open(path).read()
        self.tree = ast.parse(self.src)
        self.funcs, self.imports, self.consts = {}, {}, {}
        self.records = {}        # plain record classes (NamedTuple / dataclass without __init__): name -> field names
        for n in self.tree.body:
            if isinstance(n, ast.ClassDef) and not any(isinstance(m, ast.FunctionDef) and m.name in ("__init__", "__new__", "__post_init__") for m in n.body) \
                    and (any(ast.unparse(b).endswith("NamedTuple") for b in n.bases) or any("dataclass" in ast.unparse(d) for d in n.decorator_list)):
                fields = [(st.target.id, st.value) for st in n.body if isinstance(st, ast.AnnAssign) and isinstance(st.target, ast.Name)]
                if fields:
                    self.records[n.name] = fields
            if isinstance(n, ast.FunctionDef):
                self.funcs[n.name] = n
            elif isinstance(n, ast.ImportFrom):
                for a in n.names:
                    self.imports[a.asname or a.name] = (n.module, a.name)
            elif isinstance(n, ast.Import):
                for a in n.names:
                    if a.asname:
                        self.imports[a.asname] = (a.name, None)
                    else:
                        top = a.name.split(".")[0]          # `import scipy.spatial` binds the name `scipy`
                        self.imports[top] = (top, None)


class ARepo:
    def __init__(self, root):
        self.root, self.mods = root, {}
    def module(self, name):
        if name not in self.mods:
            p = os.path.join(self.root, *name.split(".")) + ".py"
            if not os.path.exists(p):
                p = os.path.join(self.root, *name.split("."), "__init__.py")
            if not os.path.exists(p):
                return None
            self.mods[name] = Module(name, p)
        return self.mods[name]


class Interp:
    """domain must implement:
      lit(value,node) binop(op,a,b,node) unop(op,a,node) compare(ops,vals,node) boolop(op,vals,node)
      call_external(qualname, args, kwargs, node) method(recv, name, args, kwargs, node)
      attr(recv,name,node) subscript(recv, idx_node, idx_vals, node) store_sub(recv, idx_node, val, node, aug=None)
      join(a,b,node) truth(v) -> True/False/None   iter_elems(v,node) -> list or abstract elem
    """
    def __init__(self, repo, domain, max_depth=40):
        self.repo, self.d, self.max_depth = repo, domain, max_depth
        self.depth = 0
        self.callstack = []
        domain.interp = self

    # ---- name resolution
    def resolve_global(self, mod: Module, name, node):
        if name in mod.funcs:
            return FuncRef(mod, mod.funcs[name])
        if name in getattr(mod, "records", {}):
            return RecordRef(name, mod.records[name])
        if name in mod.imports:
            m, a = mod.imports[name]
            if a is None:
                return ModRef(m)
            tm = self.repo.module(m) if m.startswith("magpylib") else None
            if tm is not None:
                if a in tm.funcs:
                    return FuncRef(tm, tm.funcs[a])
                return self.resolve_global(tm, a, node)
            return self.d.external_name(f"{m}.{a}", node)
        b = self.d.builtin(name, node)
        if b is not None:
            return b
        raise Unsupported(node, f"unresolved name {name}")

    # ---- calling repo functions
    def call_func(self, f: FuncRef, args, kwargs, node):
        if self.depth > self.max_depth:
            raise Unsupported(node, "depth")
        if self.callstack.count(f.name) >= 2:
            # recursive repo function (e.g. check_format_input_obj over nested collections): do not unroll
            raise Unsupported(node, f"recursion into {f.name}")
        fn = f.node
        env = Env(f.closure)
        env.module = f.module
        a = fn.args
        params = [x.arg for x in a.posonlyargs + a.args]
        defaults = [None] * (len(params) - len(a.defaults)) + list(a.defaults)
        bound = {}
        if len(args) > len(params) and not a.vararg:
            raise Unsupported(node, f"too many args for {f.name}")
        for p, v in zip(params, args):
            bound[p] = v
        if a.vararg:
            bound[a.vararg.arg] = Seq(args[len(params):], "py")
        kwonly = [x.arg for x in a.kwonlyargs]
        extra = {}
        for k, v in kwargs.items():
            if k in params or k in kwonly:
                if k in bound:
                    raise Unsupported(node, f"dup arg {k}")
                bound[k] = v
            elif a.kwarg:
                extra[k] = v
            else:
                raise Unsupported(node, f"unexpected kw {k} for {f.name}")
        for p, dflt in zip(params, defaults):
            if p not in bound:
                if dflt is None:
                    raise Unsupported(node, f"missing arg {p} for {f.name}")
                bound[p] = self.expr(dflt, env)
        for x, dflt in zip(a.kwonlyargs, a.kw_defaults):
            if x.arg not in bound:
                if dflt is None:
                    raise Unsupported(node, f"missing kwonly {x.arg}")
                bound[x.arg] = self.expr(dflt, env)
        if a.kwarg:
            bound[a.kwarg.arg] = Const(dict(extra))
        for k, v in bound.items():
            env.set(k, v)
        self.depth += 1
        self.callstack.append(f.name)
        self.d.enter_function(f, bound, node)
        try:
            rets = []
            fell = self.block(fn.body, env, rets)
            if fell or not rets:
                rets.append(Const(None))
            out = rets[0]
            for r in rets[1:]:
                out = self.d.join(out, r, fn)
            return self.d.exit_function(f, out, node)
        finally:
            self.callstack.pop()
            self.depth -= 1

    # ---- statements.  block returns True if control can fall through
    def block(self, stmts, env, rets):
        for s in stmts:
            if not self.stmt(s, env, rets):
                return False
        return True

    def stmt(self, s, env, rets):
        self.steps = getattr(self, "steps", 0) + 1
        if self.steps > getattr(self, "max_steps", 400000):
            raise BudgetExceeded(f"interpreter step budget exceeded in {self.callstack[-3:]}")
        if getattr(self, "tolerant", False):
            try:
                return self._stmt(s, env, rets)
            except Unsupported as e:
                self.skipped = getattr(self, "skipped", [])
                self.skipped.append((s.lineno, str(e)[:100]))
                if hasattr(self.d, "on_skipped"):
                    self.d.on_skipped(s, env, self)
                for t in ast.walk(s):
                    if isinstance(t, ast.Name) and isinstance(t.ctx, ast.Store):
                        env.set(t.id, Unknown(str(e)))
                return not isinstance(s, (ast.Return, ast.Raise))
        return self._stmt(s, env, rets)

    def _stmt(self, s, env, rets):
        d = self.d
        if isinstance(s, ast.Expr):
            if isinstance(s.value, ast.Constant):
                return True
            self.expr(s.value, env)
            return True
        if isinstance(s, ast.Assign):
            v = self.expr(s.value, env)
            for t in s.targets:
                self.assign(t, v, env, s)
            return True
        if isinstance(s, ast.AnnAssign):
            if s.value is not None:
                self.assign(s.target, self.expr(s.value, env), env, s)
            return True
        if isinstance(s, ast.AugAssign):
            rhs = self.expr(s.value, env)
            if isinstance(s.target, ast.Name):
                cur = env.get(s.target.id)
                if hasattr(d, "aug_name"):
                    env.set(s.target.id, d.aug_name(s.op, cur, rhs, s))
                else:
                    env.set(s.target.id, d.binop(s.op, cur, rhs, s))
            elif isinstance(s.target, ast.Subscript):
                recv = self.expr(s.target.value, env)
                idx = self.index_vals(s.target.slice, env)
                new = d.store_sub(recv, s.target.slice, idx, rhs, s, aug=s.op)
                self.rebind(s.target.value, new, env)
            else:
                raise Unsupported(s, "augassign target")
            return True
        if isinstance(s, ast.Return):
            rets.append(self.expr(s.value, env) if s.value is not None else Const(None))
            return False
        if isinstance(s, ast.Raise):
            return False
        if isinstance(s, ast.Pass):
            return True
        if isinstance(s, ast.If):
            t = d.truth(self.expr(s.test, env))
            if t is True:
                return self.block(s.body, env, rets)
            if t is False:
                return self.block(s.orelse, env, rets)
            e1, e2 = env.copy(), env.copy()
            # cheap path sensitivity for the `x is None` / `x is not None` idiom: in the branch where x is None bind it to None
            tt = s.test
            if isinstance(tt, ast.Compare) and len(tt.ops) == 1 and isinstance(tt.left, ast.Name) and isinstance(tt.comparators[0], ast.Constant) \
                    and tt.comparators[0].value is None and isinstance(tt.ops[0], (ast.Is, ast.IsNot)) and getattr(self, "tolerant", False):
                (e1 if isinstance(tt.ops[0], ast.Is) else e2).set(tt.left.id, Const(None))
            f1 = self.block(s.body, e1, rets)
            f2 = self.block(s.orelse, e2, rets)
            self.merge(env, [(e1, f1), (e2, f2)], s)
            return f1 or f2
        if isinstance(s, ast.For):
            it = self.expr(s.iter, env)
            elems = d.iter_elems(it, s)
            if isinstance(elems, list):
                for el in elems:
                    self.assign(s.target, el, env, s)
                    if not self.block(s.body, env, rets):
                        break
                else:
                    self.block(s.orelse, env, rets)
                return True
            # abstract element: run body twice, joining
            for _ in range(2):
                e1 = env.copy()
                self.assign(s.target, elems, e1, s)
                f1 = self.block(s.body, e1, rets)
                self.merge(env, [(e1, f1), (env.copy(), True)], s)
            return True
        if isinstance(s, ast.While):
            for _ in range(2):
                self.expr(s.test, env)
                e1 = env.copy()
                f1 = self.block(s.body, e1, rets)
                self.merge(env, [(e1, f1), (env.copy(), True)], s)
            return True
        if isinstance(s, ast.With):
            for it in s.items:
                v = self.expr(it.context_expr, env)
                if it.optional_vars is not None:
                    self.assign(it.optional_vars, v, env, s)
            return self.block(s.body, env, rets)
        if isinstance(s, ast.FunctionDef):
            env.set(s.name, FuncRef(env.module, s, closure=env))
            return True
        if isinstance(s, ast.Try):
            e0 = env.copy()
            f1 = self.block(s.body, env, rets)
            if f1 and s.orelse:
                f1 = self.block(s.orelse, env, rets)
            branches = [(env.copy(), f1)]
            for h in s.handlers:
                eh = e0.copy()
                if h.name:
                    eh.set(h.name, Opaque("exc"))
                fh = self.block(h.body, eh, rets)
                branches.append((eh, fh))
            self.merge(env, branches, s)
            fall = any(f for _, f in branches)
            if s.finalbody:
                fall = self.block(s.finalbody, env, rets) and fall
            return fall
        if isinstance(s, (ast.Import, ast.ImportFrom)):
            for a in s.names:
                if isinstance(s, ast.ImportFrom):
                    tm = self.repo.module(s.module) if s.module.startswith("magpylib") else None
                    if tm is not None and a.name in tm.funcs:
                        env.set(a.asname or a.name, FuncRef(tm, tm.funcs[a.name]))
                    else:
                        env.set(a.asname or a.name, d.external_name(f"{s.module}.{a.name}", s))
                else:
                    env.set(a.asname or a.name, ModRef(a.name))
            return True
        if isinstance(s, ast.Assert):
            return True
        if isinstance(s, ast.Break) or isinstance(s, ast.Continue):
            return True  # approximated: loop bodies are run to completion
        raise Unsupported(s, f"stmt {type(s).__name__}")

    def merge(self, env, branches, node):
        live = [e for e, f in branches if f]
        if not live:
            return
        keys = set()
        for e in live:
            keys |= set(e.vars)
        for k in keys:
            vals = [e.vars[k] for e in live if k in e.vars]
            if len(vals) < len(live):
                # defined on some branches only: keep (possibly-undefined not our concern)
                pass
            v = vals[0]
            for w in vals[1:]:
                if w is v:
                    continue
                v = self.d.join(v, w, node, silent=True)
            fs = getattr(vals[0], "fields", None)
            if fs and isinstance(v, Seq) and len(v.items) == len(fs) and all(getattr(w, "fields", None) == fs for w in vals):
                v.fields = fs           # a record stays a record across a join
            env.vars[k] = v

    def rebind(self, target_expr, new, env):
        """after a subscript store on expr `target_expr`, update the variable holding it"""
        if new is None:
            return
        # a store through a basic-slice view (`X[a:b][mask] += v`) writes into X itself
        while isinstance(target_expr, ast.Subscript):
            target_expr = target_expr.value
        if isinstance(target_expr, ast.Name):
            try:
                old = env.get(target_expr.id)
            except KeyError:
                old = None
            if old is not None and old is not new and hasattr(self.d, "join_store"):
                new = self.d.join_store(old, new, target_expr)
            env.set(target_expr.id, new)
        # stores through attribute expressions keep the receiver's abstract value

    def assign(self, t, v, env, node):
        d = self.d
        if isinstance(t, ast.Name):
            env.set(t.id, v)
        elif isinstance(t, (ast.Tuple, ast.List)):
            parts = d.unpack(v, len(t.elts), node)
            for tt, vv in zip(t.elts, parts):
                self.assign(tt, vv, env, node)
        elif isinstance(t, ast.Subscript):
            recv = self.expr(t.value, env)
            idx = self.index_vals(t.slice, env)
            new = d.store_sub(recv, t.slice, idx, v, node)
            self.rebind(t.value, new, env)
        elif isinstance(t, ast.Starred):
            env.set(t.value.id, v)
        elif isinstance(t, ast.Attribute) and hasattr(d, "store_attr"):
            d.store_attr(self.expr(t.value, env), t.attr, v, t, node)
        else:
            raise Unsupported(node, f"assign target {type(t).__name__}")

    def index_vals(self, sl, env):
        """evaluate the pieces of an index expression to abstract values (None for bare slices)"""
        def one(n):
            if isinstance(n, ast.Slice):
                return ("slice",
                        self.expr(n.lower, env) if n.lower else None,
                        self.expr(n.upper, env) if n.upper else None,
                        self.expr(n.step, env) if n.step else None)
            return self.expr(n, env)
        if isinstance(sl, ast.Tuple):
            return [one(e) for e in sl.elts]
        return [one(sl)]

    # ---- expressions
    def expr(self, e, env):
        d = self.d
        if isinstance(e, ast.Constant):
            return d.lit(e.value, e)
        if isinstance(e, ast.Name):
            try:
                return env.get(e.id)
            except KeyError:
                return self.resolve_global(env.module, e.id, e)
        if isinstance(e, ast.BinOp):
            return d.binop(e.op, self.expr(e.left, env), self.expr(e.right, env), e)
        if isinstance(e, ast.UnaryOp):
            return d.unop(e.op, self.expr(e.operand, env), e)
        if isinstance(e, ast.Compare):
            vals = [self.expr(e.left, env)] + [self.expr(c, env) for c in e.comparators]
            return d.compare(e.ops, vals, e)
        if isinstance(e, ast.BoolOp):
            return d.boolop(e.op, [self.expr(v, env) for v in e.values], e)
        if isinstance(e, (ast.Tuple, ast.List)):
            items = []
            for x in e.elts:
                if isinstance(x, ast.Starred):
                    sv = self.expr(x.value, env)
                    el = d.iter_elems(sv, x)
                    if not isinstance(el, list):
                        return Opaque("shape")
                    items += el
                else:
                    items.append(self.expr(x, env))
            return d.make_seq(items, e)
        if isinstance(e, ast.IfExp):
            t = d.truth(self.expr(e.test, env))
            if t is True:
                return self.expr(e.body, env)
            if t is False:
                return self.expr(e.orelse, env)
            vb, vo = self.expr(e.body, env), self.expr(e.orelse, env)
            if isinstance(vb, (FuncRef, FuncChoice)) and isinstance(vo, (FuncRef, FuncChoice)):
                return FuncChoice((vb.options if isinstance(vb, FuncChoice) else [vb]) + (vo.options if isinstance(vo, FuncChoice) else [vo]))
            return d.join(vb, vo, e)
        if isinstance(e, ast.Attribute):
            recv = self.expr(e.value, env)
            if isinstance(recv, Seq) and e.attr in (getattr(recv, "fields", None) or ()):
                return recv.items[recv.fields.index(e.attr)]
            return d.attr(recv, e.attr, e)
        if isinstance(e, ast.Subscript):
            recv = self.expr(e.value, env)
            return d.subscript(recv, e.slice, self.index_vals(e.slice, env), e)
        if isinstance(e, ast.Call):
            return self.call(e, env)
        if isinstance(e, (ast.ListComp, ast.GeneratorExp)):
            return self.comp(e, env)
        if isinstance(e, ast.NamedExpr):
            v = self.expr(e.value, env)
            env.set(e.target.id, v)
            return v
        if isinstance(e, ast.JoinedStr):
            return Const("<fstring>")
        if isinstance(e, ast.Lambda):
            raise Unsupported(e, "lambda")
        if isinstance(e, ast.Starred):
            raise Unsupported(e, "starred")
        if isinstance(e, ast.DictComp) and len(e.generators) == 1:
            # {k: v for x in it}: literal keys are kept, computed keys share the wildcard entry "*" (as for computed-key stores)
            g = e.generators[0]
            elems = d.iter_elems(self.expr(g.iter, env), e)
            out = {}
            for el in (elems if isinstance(elems, list) else [elems]):
                e1 = Env(env); e1.module = env.module
                self.assign(g.target, el, e1, e)
                if any(d.truth(self.expr(c, e1)) is False for c in g.ifs):
                    continue
                kk, vv = self.expr(e.key, e1), self.expr(e.value, e1)
                key = kk.value if isinstance(kk, Const) and isinstance(elems, list) else "*"
                out[key] = vv if key not in out else d.join(out[key], vv, e)
            return Const(out)
        if isinstance(e, ast.Dict):
            out = {}
            for k, v in zip(e.keys, e.values):
                if k is None:
                    kv = self.expr(v, env)
                    if isinstance(kv, Const) and isinstance(kv.value, dict):
                        out.update(kv.value); continue
                    if hasattr(d, "abstract_dict"):
                        vals = [kv] + [self.expr(x, env) for kk, x in zip(e.keys, e.values) if kk is not None] + list(out.values())
                        return d.abstract_dict(vals, e)
                    return Opaque("dict")
                kk = self.expr(k, env)
                if not isinstance(kk, Const):
                    return Opaque("dict")
                out[kk.value] = self.expr(v, env)
            return Const(out)
        raise Unsupported(e, f"expr {type(e).__name__}")

    def comp(self, e, env):
        if len(e.generators) != 1:
            raise Unsupported(e, "nested comprehension")
        g = e.generators[0]
        it = self.expr(g.iter, env)
        elems = self.d.iter_elems(it, e)
        out = []
        if isinstance(elems, list):
            for el in elems:
                e1 = Env(env); e1.module = env.module
                self.assign(g.target, el, e1, e)
                ok = True
                for c in g.ifs:
                    t = self.d.truth(self.expr(c, e1))
                    if t is False:
                        ok = False
                if ok:
                    out.append(self.expr(e.elt, e1))
            return self.d.make_seq(out, e)
        e1 = Env(env); e1.module = env.module
        self.assign(g.target, elems, e1, e)
        for c in g.ifs:
            self.expr(c, e1)
        return self.d.abstract_seq(self.expr(e.elt, e1), e)

    def call(self, e, env):
        d = self.d
        args = []
        for a in e.args:
            if isinstance(a, ast.Starred):
                sv = self.expr(a.value, env)
                el = d.iter_elems(sv, a)
                if not isinstance(el, list):
                    raise Unsupported(a, "star-arg of abstract sequence")
                args += el
            else:
                args.append(self.expr(a, env))
        kwargs = {}
        for k in e.keywords:
            if k.arg is None:
                kv = self.expr(k.value, env)
                if isinstance(kv, Const) and isinstance(kv.value, dict):
                    kwargs.update(kv.value)
                    continue
                if getattr(self, "tolerant", False) and isinstance(kv, Unknown):
                    continue
                raise Unsupported(e, "**kwargs call")
            kwargs[k.arg] = self.expr(k.value, env)
        # method call?
        if isinstance(e.func, ast.Attribute):
            recv = self.expr(e.func.value, env)
            if isinstance(recv, ModRef):
                return d.call_external(f"{recv.name}.{e.func.attr}", args, kwargs, e)
            if isinstance(recv, ExtName):
                return d.call_external(f"{recv.q}.{e.func.attr}", args, kwargs, e)
            out = d.method(recv, e.func.attr, args, kwargs, e)
            if hasattr(d, "after_method") and isinstance(e.func.value, ast.Name):
                # a mutating method changes what the receiver holds: let the domain give the variable its new abstract value
                nv = d.after_method(recv, e.func.attr, args, kwargs, e)
                if nv is not None:
                    env.set(e.func.value.id, nv)
            return out
        f = self.expr(e.func, env)
        if isinstance(f, FuncRef):
            summ = getattr(d, "repo_summaries", {}).get(f.name)
            if summ is not None:
                out = summ(d, args, kwargs, e)
                # a declared (positional) summary of a function that now hands its results back as a record: the fields get their names
                recs = getattr(f.module, "records", {})
                for r_ in ast.walk(f.node):
                    if isinstance(r_, ast.Return) and isinstance(r_.value, ast.Call) and isinstance(r_.value.func, ast.Name) and r_.value.func.id in recs \
                            and isinstance(out, Seq) and len(out.items) == len(recs[r_.value.func.id]):
                        out.fields = [n_ for n_, _d in recs[r_.value.func.id]]
                return out
            return self.call_func(f, args, kwargs, e)
        if isinstance(f, ExtName):
            return d.call_external(f.q, args, kwargs, e)
        if isinstance(f, RecordRef):
            # constructing a plain record: a tuple of the field values that can also be read by field name
            names = [n_ for n_, _d in f.fields]
            vals = dict(zip(names, args))
            vals.update({k: v for k, v in kwargs.items() if k in names})
            items = []
            for n_, dflt in f.fields:
                if n_ in vals:
                    items.append(vals[n_])
                elif dflt is not None:
                    items.append(self.expr(dflt, env))
                else:
                    raise Unsupported(e, f"record {f.name}: field {n_} not given")
            out = d.make_seq(items, e)
            if isinstance(out, Seq):
                out.fields = names
            return out
        if isinstance(f, FuncChoice):
            # `(f if c else g)(x)`: either callee may run; both are interpreted and the results joined
            outs = []
            for fr in f.options:
                summ = getattr(d, "repo_summaries", {}).get(fr.name)
                outs.append(summ(d, args, kwargs, e) if summ is not None else self.call_func(fr, args, kwargs, e))
            out = outs[0]
            for o in outs[1:]:
                out = d.join(out, o, e)
            return out
        raise Unsupported(e, f"call of {f!r}")


class RecordRef(V):
    """a plain record class of the package (NamedTuple / dataclass without methods of its own)"""
    def __init__(self, name, fields):
        self.name, self.fields = name, fields
    def __repr__(self):
        return f"Record({self.name})"


class FuncChoice(V):
    """one of several repo functions (a conditional expression over function names)"""
    def __init__(self, options):
        self.options = list(options)
    def __repr__(self):
        return "FuncChoice(" + ", ".join(o.name or "?" for o in self.options) + ")"


class Unknown(V):
    def __init__(self, why=""):
        self.why = why
    def __repr__(self):
        return "Unknown"


class ExtName(V):
    """reference to an external (non-repo) callable/module attribute, by qualified name"""
    def __init__(self, q):
        self.q = q
    def __repr__(self):
        return f"Ext({self.q})"
