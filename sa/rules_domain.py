"""Rule DOMAIN - a setter that admits a value by a membership test stores the value it tested.

Instance discovery: every property setter with a comparison `L in S` / `L not in S` where L mentions the setter's value parameter.
If L is the bare parameter, the stored value may be the parameter (or anything computed from it after admission).  If L is a
*transformation* of the parameter (`str(val).lower()`, `val.strip()`, ..) the admitted spellings are a superset of the set S; the
obligation is that the attribute store takes the same transformed expression (or a local bound to it) - otherwise values outside
S reach the attribute, and every consumer comparing the attribute with the members of S (`== "left"`) silently takes its else-path.
Consumers: `consumer_literals()` collects the literals the attribute is compared with anywhere in the package; each must be a
member of S when S is a literal set.
"""
from __future__ import annotations

import ast

from common import Finding, norm


def setter_instances(repo):
    """-> [(mod, qualname, fn, cls, param, compare, L, S)]"""
    out = []
    for m, q, fn, cl in repo.all_functions():
        if not q.endswith("(setter)"):
            continue
        ps = [a.arg for a in fn.args.args if a.arg != "self"]
        if not ps:
            continue
        p = ps[0]
        own = []
        for c in ast.walk(fn):
            if isinstance(c, ast.Compare) and len(c.ops) == 1 and isinstance(c.ops[0], (ast.In, ast.NotIn)):
                L, S = c.left, c.comparators[0]
                if any(isinstance(x, ast.Name) and x.id == p for x in ast.walk(L)) and not any(isinstance(x, ast.Name) and x.id == p for x in ast.walk(S)):
                    own.append((m, q, fn, cl, p, c, L, S))
        out += own
        if own:
            continue
        # a setter that delegates the admission to a validator of the package: `self._x = check_x(val)`; the validator's membership test on
        # its own parameter is the setter's test, and what the validator returns is what is stored
        for a in ast.walk(fn):
            if isinstance(a, ast.Assign) and any(isinstance(t, ast.Attribute) and isinstance(t.value, ast.Name) and t.value.id == "self" for t in a.targets) \
                    and isinstance(a.value, ast.Call) and isinstance(a.value.func, ast.Name) and a.value.args and isinstance(a.value.args[0], ast.Name) and a.value.args[0].id == p:
                r = repo.resolve_name(m, a.value.func.id)
                if not (r and r[0] == "func"):
                    continue
                vm, vfn = r[1], r[2]
                vps = [x.arg for x in vfn.args.args]
                if not vps:
                    continue
                vp = vps[0]
                for c in ast.walk(vfn):
                    if isinstance(c, ast.Compare) and len(c.ops) == 1 and isinstance(c.ops[0], (ast.In, ast.NotIn)):
                        L, S = c.left, c.comparators[0]
                        if any(isinstance(x, ast.Name) and x.id == vp for x in ast.walk(L)) and not any(isinstance(x, ast.Name) and x.id == vp for x in ast.walk(S)):
                            out.append((vm, q, vfn, cl, vp, c, L, S))
    return out


def checked_is_stored(repo, res, rule, only=None):
    n = 0
    for m, q, fn, cl, p, c, L, S in setter_instances(repo):
        if only and not only(q):
            continue
        n += 1
        stores = [s for s in ast.walk(fn) if isinstance(s, ast.Assign) and any(isinstance(t, ast.Attribute) and isinstance(t.value, ast.Name)
                                                                                 and t.value.id == "self" for t in s.targets)]
        if not q.split(".")[-1].startswith(fn.name) and not stores:
            stores = [s for s in ast.walk(fn) if isinstance(s, ast.Return) and s.value is not None]     # delegated: the returned value is stored
        bare = isinstance(L, ast.Name)
        ok, bad = True, None
        if not bare:
            lt = ast.unparse(L)
            bound = {s.targets[0].id for s in ast.walk(fn) if isinstance(s, ast.Assign) and len(s.targets) == 1 and isinstance(s.targets[0], ast.Name)
                     and ast.unparse(s.value) == lt}
            for s in stores:
                v = s.value
                uses_p = any(isinstance(x, ast.Name) and x.id == p for x in ast.walk(v))
                if uses_p and not (ast.unparse(v) == lt or (isinstance(v, ast.Name) and v.id in bound and v.id != p)
                                   or (isinstance(v, ast.Name) and v.id == p and p in bound)):
                    ok, bad = False, s
        res.ob(f"{rule}:{q}:{norm(c)}", ok, {"rule": rule, "setter": q, "membership_test": norm(c), "tested_expression_is_parameter": bare,
                                             "stores": [norm(s) for s in stores][:3]})
        if not ok:
            res.add(Finding(rule, m.rel, q, bad, f"the membership test admits `{norm(L)}` but the attribute receives `{norm(bad.value)}`: spellings outside "
                            f"{norm(S)} are accepted and stored, and comparisons of the attribute with the members of that set no longer match", bad.lineno))
    return n


def literal_members(S, repo=None, mod=None):
    if isinstance(S, ast.Name) and repo is not None and mod is not None:
        r = repo.resolve_name(mod, S.id)            # a module-level table: NAME = frozenset(("right", "left"))
        if r and r[0] == "const":
            S = r[2]
    if isinstance(S, ast.Call) and isinstance(S.func, ast.Name) and S.func.id in ("frozenset", "set", "tuple", "list") and len(S.args) == 1 and not S.keywords:
        S = S.args[0]
    if isinstance(S, (ast.Set, ast.Tuple, ast.List)) and all(isinstance(e, ast.Constant) for e in S.elts):
        return {e.value for e in S.elts}
    return None


def consumer_literals(repo, attr):
    """literals that `<x>.<attr>` (or a local named <attr> bound from it) is compared with, anywhere in the package"""
    out = []
    for m, q, fn, cl in repo.all_functions():
        for c in ast.walk(fn):
            if isinstance(c, ast.Compare) and len(c.ops) == 1 and isinstance(c.ops[0], (ast.Eq, ast.NotEq)):
                a, b = c.left, c.comparators[0]
                for x, y in ((a, b), (b, a)):
                    if isinstance(y, ast.Constant) and isinstance(y.value, str) and (
                            (isinstance(x, ast.Attribute) and x.attr == attr) or (isinstance(x, ast.Name) and x.id == attr)):
                        out.append((m, q, c, y.value))
    return out


def sets_are_collections(repo, res, rule):
    """the right operand of a validating membership test is a collection of admitted values; a *string* there turns `val in S` into a
    substring test (the empty string and every contiguous piece of S are admitted)"""
    n = 0
    for m, q, fn, cl, p, c, L, S in setter_instances(repo):
        target = S
        where = None
        if isinstance(S, ast.Name):
            r = repo.resolve_name(m, S.id)
            if r and r[0] == "const":
                target, where = r[2], r[1]
        elif isinstance(S, ast.Attribute) and isinstance(S.value, ast.Name) and S.value.id == "self" and cl is not None:
            c2, v = repo.class_attr(cl.name, S.attr)
            if v is not None:
                target, where = v, c2.mod
        if not isinstance(target, (ast.Constant, ast.Tuple, ast.List, ast.Set, ast.Dict)):
            continue
        n += 1
        ok = not (isinstance(target, ast.Constant) and isinstance(target.value, str))
        res.ob(f"{rule}:{q}:{norm(S)}", ok, {"rule": rule, "setter": q, "admitted_values": norm(target)[:80]}, nontrivial=False)
        if not ok:
            res.add(Finding(rule, (where or m).rel, q, c, f"`{norm(c)}` tests membership in the *string* {norm(target)[:40]}: a substring test, which admits the empty string and "
                            "every contiguous piece of it", c.lineno))
    res.require(n >= 8, f"{rule}: only {n} membership tests with a resolvable table")
    return n
