import sys, ast, glob, os

from absint import *
from origdom import *
ROOT = os.environ.get('DIMROOT', '/repo')

def run_node(modname, node, params, name=None, summaries=None):
    repo = ARepo(ROOT); dom = OriginDomain(); dom.repo_summaries = summaries or {}
    it = Interp(repo, dom); it.tolerant = True
    mod = repo.module(modname)
    f = FuncRef(mod, node, name=name or node.name)
    out = it.call_func(f, [], params, node)
    return out, dom, it

print("=== S2: every property setter in obj_classes: does the parameter escape into object state un-copied?")
n = 0
for p in sorted(glob.glob(ROOT + '/magpylib/_src/obj_classes/*.py')):
    modname = 'magpylib._src.obj_classes.' + os.path.basename(p)[:-3]
    t = ast.parse(open(p).read())
    for c in ast.walk(t):
        if not isinstance(c, ast.ClassDef): continue
        for m in c.body:
            if isinstance(m, ast.FunctionDef) and any(isinstance(d, ast.Attribute) and d.attr == 'setter' for d in m.decorator_list):
                params = [a.arg for a in m.args.args]
                out, dom, it = run_node(modname, m, {params[0]: O({'A:self'}), params[1]: O({'P:' + params[1]})}, name=f"{c.name}.{m.name}")
                n += 1
                esc = dom.escapes; mut = [x for x in dom.mutations if x[0].startswith('P:')]
                tag = 'OK' if not esc and not mut else 'FLAG'
                print(f"  {c.name}.{m.name}({params[1]}): {tag} {esc if esc else ''} {mut if mut else ''} skipped={len(getattr(it,'skipped',[]))}")
print("setters analysed:", n)

print("=== G4: BaseGeo._process_style_kwargs")
mod = Repo(ROOT).module('magpylib._src.obj_classes.class_BaseGeo')
cls = [c for c in mod.tree.body if isinstance(c, ast.ClassDef) and c.name == 'BaseGeo'][0]
m = [x for x in cls.body if isinstance(x, ast.FunctionDef) and x.name == '_process_style_kwargs'][0]
out, dom, it = run_node('magpylib._src.obj_classes.class_BaseGeo', m, dict(style=O({'P:style'}), style_label=O({'P:style_label'})))
print("  returns", out, " mutations:", dom.mutations)

print("=== T3: field functions that mutate an argument")
for modname, fn, ps in [
    ('magpylib._src.fields.field_BH_tetrahedron', 'BHJM_magnet_tetrahedron', ['observers', 'vertices', 'polarization']),
    ('magpylib._src.fields.field_BH_cuboid', 'BHJM_magnet_cuboid', ['observers', 'dimension', 'polarization']),
    ('magpylib._src.fields.field_BH_cylinder', 'BHJM_magnet_cylinder', ['observers', 'dimension', 'polarization']),
    ('magpylib._src.fields.field_BH_sphere', 'BHJM_magnet_sphere', ['observers', 'diameter', 'polarization']),
    ('magpylib._src.fields.field_BH_dipole', 'BHJM_dipole', ['observers', 'moment']),
    ('magpylib._src.fields.field_BH_circle', 'BHJM_circle', ['observers', 'diameter', 'current']),
    ('magpylib._src.fields.field_BH_polyline', 'current_vertices_field', ['observers', 'current', 'vertices']),
    ('magpylib._src.fields.field_BH_triangle', 'BHJM_triangle', ['observers', 'vertices', 'polarization']),
    ('magpylib._src.fields.field_BH_triangularmesh', 'BHJM_magnet_trimesh', ['observers', 'mesh', 'polarization']),
    ('magpylib._src.fields.field_BH_cylinder_segment', 'BHJM_cylinder_segment_internal', ['observers', 'polarization', 'dimension']),
]:
    for field in 'BH':
        repo = ARepo(ROOT); mod = repo.module(modname)
        out, dom, it = run_node(modname, mod.funcs[fn], dict(field=Const(field), **{p: O({'P:' + p}) for p in ps}))
        muts = sorted({(x[0], x[1].split('>')[-1], x[3]) for x in dom.mutations})
        print(f"  {fn}/{field}: returns {out}; mutates {muts if muts else 'nothing'}; skipped={len(getattr(it,'skipped',[]))}")

print("=== T3 functional interface: what reaches getBH_level1 from getBH_dict_level2")
def spy(d, args, kwargs, node):
    print("    getBH_level1 receives:", {k: (sorted(org_of(v)) if not isinstance(v, Const) else 'const') for k, v in kwargs.items()})
    return FRESH
repo = ARepo(ROOT); mod = repo.module('magpylib._src.fields.field_wrap_BH')
out, dom, it = run_node('magpylib._src.fields.field_wrap_BH', mod.funcs['getBH_dict_level2'],
    dict(source_type=Const('Tetrahedron'), observers=O({'P:observers'}), field=Const('B'), vertices=O({'P:vertices'}), polarization=O({'P:polarization'})),
    summaries={'getBH_level1': spy})
print("   mutations of caller data:", [x for x in dom.mutations], " skipped:", [s for s in getattr(it, 'skipped', [])][:6])
print("unmodelled externals assumed copy:", sorted(dom.unmodelled)[:20])
