"""C06 - each output element depends only on its own source, path index and observer.

Decided clauses:
  RUN-GROUP   where a row *range* of one array is paired with a *single representative row* of another
              (mask_inside_trimesh(observers[a:b], mesh[a])), every row admitted to [a,b) was compared equal - shape and all
              values - to row a, the range bound is the loop index itself, and the runs cover all rows
  K1/K2       ROW-COUPLING inventory of the numerical layer (magpylib/_src/fields, except the level-2 wrapper): every batch-level
              branch (np.any/np.all/len-dependent `if`/`while`) and every reduction/scan along the row axis or without axis is
              either an auto-allowed skip-empty-work idiom (`if np.any(m): ...[m]...`, no early exit) or a triaged site
              (function + normalised expression + reason).  A new coupling site is a violation.
  TWIN        the scalar and the vectorised elliptic-integral routines (chosen by batch size) agree on every branch condition,
              including on which side a boundary value falls (triaged residual differences listed)
  L2-GROUP    level 2 groups sources by a key and evaluates each group with the function that *is* that key
  L2-PAD      a shorter path is padded with its own last entry (edge padding), for position and orientation alike
  LAY  axis-layout typing (laydom.py / lay_rules.py): every batch row index of the level-2 plumbing is a mixed-radix number over
       named index sets (group source G, path M, pixel P = sum of per-sensor Ps); tile/repeat/reshape/concatenate/split are typed
       by the order of these sets; arrays paired row by row must agree, reshapes must re-split contiguous runs
Not decided: offsets inside one index set (collection slices: see C05 SUM-*); numeric equality of the scalar and the
vectorised elliptic-integral routines.
"""
from __future__ import annotations

import ast
import re

from common import AnalysisError, Finding, norm

EXPLANATION = ("admission rule for run-grouped rows (boolean path conditions only), exhaustive inventory of constructs in the numerical layer that "
               "can couple different batch rows with a triage table keyed by function and expression, and def-use rules on level-2 grouping and "
               "path padding. Decides that no construct lets one row's value depend on other rows except the listed, explained sites; level-2 "
               "index arithmetic is not decided.")

FIELDS = "magpylib._src.fields."
# ---- triage tables: (function, normalised expression) -> one line of reason
K1_TRIAGED = {
    ('BHJM_cylinder_segment', 'not np.any(_)'): 'early return of zeros for B/H when every row is on the surface; identical to the masked result (`BHJM[~mask_not_on_surf] *= 0`)',
    ('BHJM_current_polyline', 'np.all(_)'): 'early return of the zero array when every segment has zero length; identical to the masked result',
    ('BHJM_current_polyline', 'np.any(_)'): 'drops zero-length segments before the computation and writes results back under ~mask0',
    ('el3v', 'np.any(_ == 0)'): 'error check (raises)',
    ('celv', 'np.any(_)'): "row-wise convergence loop: every update is masked by the row's own convergence mask",
    ('cel_iterv', 'np.any(np.fabs(_ - _) >= _ * 1e-08)'): 'batch-level convergence: all rows iterate until the slowest converged (extra iterations change converged rows at rounding level only)',
    ('el3v', 'np.any(_)'): 'skip-empty-work with local temporaries under the same mask',
    ('cel', 'len(_) < 10'): 'batch-size switch between the scalar loop and the vectorised routine (same algorithm)',
    ('el3', 'len(_) < 10'): 'batch-size switch between the scalar loop and the vectorised routine (same algorithm)',
    ('cel_iter', 'len(_) < 15'): 'batch-size switch; the scalar branch result is discarded (no return), so the vectorised routine always runs',
    ('current_vertices_field', 'all((_ == _[0] for _ in _))'): 'uniform/ragged vertex-count switch (layout only)',
    ('get_disconnected_faces_subsets', 'len(_) > 0'): 'connectivity sweep over the faces of ONE mesh, not over batch rows',
    ('get_disconnected_faces_subsets', 'len(_) > _'): 'connectivity sweep over the faces of ONE mesh, not over batch rows',
    ('get_disconnected_faces_subsets', 'len(_.intersection(set(_))) > 0'): 'connectivity sweep over the faces of ONE mesh, not over batch rows',
    ('get_inwards_mask', '_'): 'face-orientation sweep over the faces of ONE mesh, not over batch rows',
    ('lines_end_in_trimesh', 'np.any(_)'): 'skip-empty-work with local temporaries under the same mask',
    ('BHJM_circle', 'np.any(_)'): 'skip-empty-work: derives sub-masks of mask3 and writes under them',
    ('current_polyline_Hfield', 'np.any(_)'): 'skip-empty-work: computes on ~mask1 rows and writes under that mask',
    ('dipole_Hfield', 'np.any(_)'): 'skip-empty-work under errstate',
    ('magnet_cylinder_diametral_Hfield', 'np.any(_)'): 'skip-empty-work with local temporaries selected by the same mask',
    ('el3_angle', 'np.any(_)'): 'skip-empty-work; np.ones(np.sum(mask)) allocates per selected row',
}
K2_TRIAGED = {
    ('determine_cases', 'np.sum(_, axis=0)'): 'axis 0 of `result` is the 3 case digits, not the batch',
    ('current_vertices_field', 'np.cumsum(_ - 1)'): 'split offsets of the ragged per-source segment lists',
    ('current_vertices_field', 'np.sum(_, axis=0)'): 'sums the segments that belong to ONE source/observer row (regrouping after np.split)',
    ('BHJM_magnet_trimesh', 'np.cumsum(_)'): 'split offsets of the ragged per-source face lists',
    ('BHJM_magnet_trimesh', 'np.sum(_, axis=0)'): 'sums the faces that belong to ONE source/observer row (regrouping after np.split)',
    ('calculate_centroid', 'np.sum(_)'): 'sum over the faces of one mesh',
    ('get_open_edges', 'np.unique(_, axis=0, return_counts=True)'): 'edge multiset of one mesh',
    ('is_facet_inwards', '_.mean(axis=0)'): 'centroid of one face',
    ('get_intersecting_triangles', 'np.unique(_[_ > 0])'): 'index set over the faces of one mesh',
    ('get_intersecting_triangles', 'np.sqrt(((_ - _[:, None, :]) ** 2).sum(-1)).max()'): 'largest face radius of one mesh',
    ('get_intersecting_triangles', '((_ - _[:, None, :]) ** 2).sum(-1)'): 'sum over the coordinate axis',
    ('mask_inside_enclosing_box', 'np.min(_, axis=0)'): 'bounding box of one mesh',
    ('mask_inside_enclosing_box', 'np.max(_, axis=0)'): 'bounding box of one mesh',
    ('mask_inside_trimesh', 'np.min(_, axis=0)'): 'bounding box of one mesh',
    ('el3v', 'np.sum(_)'): 'count used only for allocation',
    ('el3_angle', 'np.sum(_)'): 'count used only for allocation',
}
from common import canon_text as _ct


def emptiness_subject(t):
    """(X, polarity) when the test asks whether the mask / index array named X selects anything: `np.any(X)`, `X.any()`, `any(X)`,
    `np.count_nonzero(X) > 0`, `X.size > 0`, `X.size != 0`, `X.size`, `len(X) > 0`, `len(X)` (polarity True = "selects something");
    `== 0`, `not ..` give polarity False.  (None, None) otherwise."""
    pol = True
    while isinstance(t, ast.UnaryOp) and isinstance(t.op, ast.Not):
        t, pol = t.operand, not pol

    def measure(e):
        """X for `X.size`, `len(X)`, `np.count_nonzero(X)`, `np.size(X)`"""
        if isinstance(e, ast.Attribute) and e.attr == "size" and isinstance(e.value, ast.Name):
            return e.value.id
        if isinstance(e, ast.Call) and len(e.args) == 1 and isinstance(e.args[0], ast.Name) and not e.keywords:
            f = ast.unparse(e.func)
            if f in ("len", "np.count_nonzero", "np.size"):
                return e.args[0].id
        return None

    if isinstance(t, ast.Call) and not t.keywords:
        f = ast.unparse(t.func)
        if f in ("np.any", "any") and len(t.args) == 1 and isinstance(t.args[0], ast.Name):
            return t.args[0].id, pol
        if isinstance(t.func, ast.Attribute) and t.func.attr == "any" and isinstance(t.func.value, ast.Name) and not t.args:
            return t.func.value.id, pol
    if measure(t) is not None:
        return measure(t), pol
    if isinstance(t, ast.Compare) and len(t.ops) == 1:
        a, op, b = t.left, t.ops[0], t.comparators[0]
        zero = lambda e: isinstance(e, ast.Constant) and e.value == 0 and not isinstance(e.value, bool)      # noqa: E731
        one = lambda e: isinstance(e, ast.Constant) and e.value == 1 and not isinstance(e.value, bool)      # noqa: E731
        if measure(a) is not None and zero(b):
            if isinstance(op, (ast.Gt, ast.NotEq)):
                return measure(a), pol
            if isinstance(op, (ast.Eq, ast.LtE)):
                return measure(a), not pol
        if measure(b) is not None and zero(a):
            if isinstance(op, (ast.Lt, ast.NotEq)):
                return measure(b), pol
            if isinstance(op, (ast.Eq, ast.GtE)):
                return measure(b), not pol
        if measure(a) is not None and one(b):
            if isinstance(op, ast.GtE):
                return measure(a), pol
            if isinstance(op, ast.Lt):
                return measure(a), not pol
    return None, None


def site_canon(text):
    """polarity-insensitive form of a branch test (a *site* is the same site whichever branch comes first): leading `not` stripped,
    a single comparison written with textually sorted operands and the operator family {<, >=} -> `<`, {<=, >} -> `<=`, {==, !=} -> `==`"""
    try:
        t = ast.parse(text, mode="eval").body
    except SyntaxError:
        return text
    while isinstance(t, ast.UnaryOp) and isinstance(t.op, ast.Not):
        t = t.operand
    if emptiness_subject(t)[0] is not None:
        return "np.any(_)"       # every spelling of "does this mask / index array select anything" is one site
    if isinstance(t, ast.Compare) and len(t.ops) == 1:
        a, b, op = t.left, t.comparators[0], type(t.ops[0])
        mirror = {ast.Lt: ast.Gt, ast.Gt: ast.Lt, ast.LtE: ast.GtE, ast.GtE: ast.LtE}
        if ast.unparse(a) > ast.unparse(b) and (op in mirror or op in (ast.Eq, ast.NotEq)):
            a, b, op = b, a, mirror.get(op, op)
        fam = {ast.Lt: ast.Lt, ast.GtE: ast.Lt, ast.LtE: ast.LtE, ast.Gt: ast.LtE, ast.Eq: ast.Eq, ast.NotEq: ast.Eq,
               ast.In: ast.In, ast.NotIn: ast.In, ast.Is: ast.Is, ast.IsNot: ast.Is}.get(op, op)
        t = ast.Compare(left=a, ops=[fam()], comparators=[b])
    return ast.unparse(t)


K1_TRIAGED = {(f, site_canon(_ct(sh))): v for (f, sh), v in K1_TRIAGED.items()}
K2_TRIAGED = {(f, _ct(sh)): v for (f, sh), v in K2_TRIAGED.items()}
RED = {"sum", "mean", "cumsum", "cumprod", "sort", "argsort", "roll", "unique", "median", "max", "min", "amax", "amin", "diff", "flip", "prod",
       "std", "var", "argmax", "argmin", "ptp", "average", "nansum", "nanmax", "nanmin", "nanmean", "searchsorted", "partition", "percentile",
       "quantile", "trapz", "convolve", "correlate", "interp", "histogram", "bincount", "lexsort"}


def shape(node):
    """rename-invariant text of a construct: local variable names replaced by `_` (attribute, function and keyword names kept)"""
    import copy as _copy
    n = _copy.deepcopy(node)
    for x in ast.walk(n):
        if isinstance(x, ast.Name) and x.id not in ("np", "len", "all", "any", "abs", "set", "range", "zip"):
            x.id = "_"
    from common import _Canon
    try:
        n = ast.fix_missing_locations(_Canon().visit(n))
    except Exception:  # noqa
        pass
    return norm(n)


def field_functions(repo):
    for m in repo.mods.values():
        if not m.name.startswith(FIELDS) or m.name.endswith("field_wrap_BH") or m.name.endswith("__init__") or m.name == FIELDS[:-1]:
            continue
        for fname, fn in m.funcs.items():
            yield m, fname, fn


def len_names(fn):
    out = set()
    for n in ast.walk(fn):
        if isinstance(n, ast.Assign) and len(n.targets) == 1 and isinstance(n.targets[0], ast.Name):
            t = ast.unparse(n.value)
            if re.search(r"\blen\(|\.shape\[0\]|\.size\b", t):
                out.add(n.targets[0].id)
    return out


def is_batch_test(test, lens):
    t = ast.unparse(test)
    if re.search(r"\bnp\.(any|all|count_nonzero|isscalar)\(|\.any\(\)|\.all\(\)|\blen\(|\.shape\[0\]|\.size\b", t):
        return True
    if re.search(r"\b(any|all)\(\(", t):        # python any()/all() over a generator
        return True
    if emptiness_subject(test)[0] is not None:   # python any(mask), np.count_nonzero(mask) > 0, ...
        return True
    for x in ast.walk(test):
        if isinstance(x, ast.Name) and x.id in lens:
            return True
    return False


def skip_empty_work(node):
    """`if np.any(M):` (M a name) whose body has no early exit and writes only under M (or under masks derived from it in the body)
    or into local temporaries"""
    if not isinstance(node, ast.If) or node.orelse:
        return False
    mask, nonempty = emptiness_subject(node.test)
    if mask is None or not nonempty:
        return False
    derived = {mask}
    for s in ast.walk(ast.Module(body=node.body, type_ignores=[])):
        if isinstance(s, (ast.Return, ast.Raise, ast.Break, ast.Continue, ast.While)):
            return False
    for s in node.body:
        for a in ast.walk(s):
            if isinstance(a, ast.Assign):
                for tg in a.targets:
                    if isinstance(tg, ast.Name) and any(isinstance(x, ast.Name) and x.id in derived for x in ast.walk(a.value)):
                        # a name computed from the mask: either a sub-mask or a masked selection (both fine)
                        derived.add(tg.id)
    for s in node.body:
        for a in ast.walk(s):
            if isinstance(a, (ast.Assign, ast.AugAssign)):
                for tg in (a.targets if isinstance(a, ast.Assign) else [a.target]):
                    for el in (tg.elts if isinstance(tg, (ast.Tuple, ast.List)) else [tg]):
                        if isinstance(el, ast.Subscript):
                            idx_names = {x.id for x in ast.walk(el.slice) if isinstance(x, ast.Name)}
                            base = el.value
                            while isinstance(base, ast.Subscript):
                                base = base.value
                            base_local = isinstance(base, ast.Name) and base.id in derived
                            if not (idx_names & derived) and not base_local:
                                return False
    return True


def count_canon(test, fn):
    """A test on the *number* of rows a condition selects, written back as the mask test it is equivalent to:
         c == 0 -> not np.any(C)    c > 0, c != 0, c -> np.any(C)    c == n -> np.all(C)    c < n, c != n -> not np.all(C)
       with c = len(I) / len(I[0]) / I.size / I[0].size / np.count_nonzero(C) / C.sum()  (I = np.nonzero(C) / np.flatnonzero(C) / np.where(C), bound once),
            n = M.size / len(M) / M.shape[0] for a mask M of the batch;   any(~m) = not all(m), all(~m) = not any(m).
       -> ('any' | 'all', mask expression, polarity) or None"""
    defs = {}
    for a in ast.walk(fn):
        if isinstance(a, ast.Assign) and len(a.targets) == 1 and isinstance(a.targets[0], ast.Name):
            defs.setdefault(a.targets[0].id, []).append(a.value)

    def once(e):
        while isinstance(e, ast.Name) and len(defs.get(e.id, [])) == 1:
            e = defs[e.id][0]
        return e

    def index_cond(e):
        e = once(e)
        if isinstance(e, ast.Subscript) and isinstance(e.slice, ast.Constant) and e.slice.value == 0:
            e = once(e.value)
        if isinstance(e, ast.Call) and getattr(e.func, "attr", "") in ("flatnonzero", "nonzero", "where", "argwhere") and len(e.args) == 1 and not e.keywords:
            return e.args[0]
        return None

    def count_of(e):
        e = once(e)
        if isinstance(e, ast.Call) and ast.unparse(e.func) == "len" and len(e.args) == 1:
            return index_cond(e.args[0])
        if isinstance(e, ast.Attribute) and e.attr == "size":
            return index_cond(e.value)
        if isinstance(e, ast.Call) and ast.unparse(e.func) == "np.count_nonzero" and len(e.args) == 1 and not e.keywords:
            return e.args[0]
        if isinstance(e, ast.Call) and isinstance(e.func, ast.Attribute) and e.func.attr == "sum" and not e.args and not e.keywords:
            return e.func.value
        return None

    def is_total(e):
        e = once(e)
        if isinstance(e, ast.Attribute) and e.attr == "size" and isinstance(e.value, ast.Name):
            return True
        if isinstance(e, ast.Call) and ast.unparse(e.func) == "len" and len(e.args) == 1 and isinstance(e.args[0], ast.Name) and index_cond(e.args[0]) is None:
            return True
        return isinstance(e, ast.Subscript) and isinstance(e.value, ast.Attribute) and e.value.attr == "shape" and isinstance(e.slice, ast.Constant) and e.slice.value == 0
    pol = True
    t = test
    while isinstance(t, ast.UnaryOp) and isinstance(t.op, ast.Not):
        t, pol = t.operand, not pol
    kind = cond = None
    if count_of(t) is not None and not isinstance(t, ast.Compare):
        kind, cond = "any", count_of(t)
    elif isinstance(t, ast.Compare) and len(t.ops) == 1:
        a, op, b = t.left, type(t.ops[0]), t.comparators[0]
        mirror = {ast.Lt: ast.Gt, ast.Gt: ast.Lt, ast.LtE: ast.GtE, ast.GtE: ast.LtE}
        if count_of(a) is None and count_of(b) is not None:
            a, b, op = b, a, mirror.get(op, op)
        c = count_of(a)
        if c is not None:
            zero = isinstance(b, ast.Constant) and b.value == 0 and not isinstance(b.value, bool)
            if zero and op in (ast.Eq, ast.LtE):
                kind, cond, pol = "any", c, not pol
            elif zero and op in (ast.Gt, ast.NotEq):
                kind, cond = "any", c
            elif is_total(b) and op in (ast.Eq, ast.GtE):
                kind, cond = "all", c
            elif is_total(b) and op in (ast.Lt, ast.NotEq):
                kind, cond, pol = "all", c, not pol
    if kind is None:
        return None
    while isinstance(cond, ast.UnaryOp) and isinstance(cond.op, ast.Invert):
        cond, kind, pol = cond.operand, ("all" if kind == "any" else "any"), not pol      # any(~m) = not all(m)
    return kind, cond, pol


def row_regrouping(fn):
    """K2b ROW-ORDER: `np.concatenate((X[m], X[~m] ..))` / vstack / r_ of two or more array-index selections of ONE batch array puts the rows of
    the batch in another order (grouped by the condition); every other per-row input keeps the old order, so rows are paired with the
    wrong partners (shapes fit).  -> [(call node, base name)]"""
    import rules_lostwrite as lw
    defs, loopvars = {}, set()
    for a in ast.walk(fn):
        if isinstance(a, ast.Assign) and len(a.targets) == 1 and isinstance(a.targets[0], ast.Name):
            defs.setdefault(a.targets[0].id, []).append(a.value)
    out = []
    for c in ast.walk(fn):
        ops = None
        if isinstance(c, ast.Call) and getattr(c.func, "attr", "") in ("concatenate", "vstack", "row_stack") and c.args and isinstance(c.args[0], (ast.Tuple, ast.List)):
            ax = next((k.value for k in c.keywords if k.arg == "axis"), c.args[1] if len(c.args) > 1 else None)
            if ax is None or (isinstance(ax, ast.Constant) and ax.value == 0):
                ops = c.args[0].elts
        elif isinstance(c, ast.Subscript) and ast.unparse(c.value) == "np.r_" and isinstance(c.slice, ast.Tuple):
            ops = c.slice.elts
        if not ops:
            continue
        bases = {}
        for e in ops:
            b = e
            first = None
            while isinstance(b, ast.Subscript):
                first = b
                b = b.value
            if isinstance(b, ast.Name) and first is not None:
                idx = first.slice.elts[0] if isinstance(first.slice, ast.Tuple) and first.slice.elts else first.slice
                if lw._kind(idx, defs, loopvars) == "array":
                    bases[b.id] = bases.get(b.id, 0) + 1
        for b, k in bases.items():
            if k >= 2:
                out.append((c, b))
    return out


_RR_BAD = """
def f(points, dets):
    neg = dets < 0
    if np.any(neg):
        points = np.concatenate((points[~neg], points[neg][:, (0, 1, 3, 2), :]))
    return points
"""
_RR_OK = """
def f(r1, r2, h, m1, m2, verts):
    dim = np.c_[2 * np.concatenate((r2[m1], r1[m2])), h[m1]]
    ends = np.concatenate([v[1:] for v in verts])
    both = np.concatenate((r1[:3], r1[5:]))
    return dim, ends, both
"""


def group_by_loop(fn, call):
    """`for v in np.unique(A)[.tolist()]:` whose body selects the rows with `A == v` and writes only under that selection: evaluation
    group by group.  Which groups exist depends on the batch, what a row receives does not (a value that does not occur selects no row).
    The body may bind names computed from v or from the selection, `continue`, and nothing else (no accumulator, no early exit)."""
    loop = None
    for n in ast.walk(fn):
        if isinstance(n, ast.For) and any(x is call for x in ast.walk(n.iter)):
            loop = n
    if loop is None or loop.orelse or not isinstance(loop.target, ast.Name) or not call.args or not isinstance(call.args[0], ast.Name) \
            or len(call.args) != 1 or call.keywords or ast.unparse(call.func) != "np.unique":
        return False
    it = loop.iter
    if not (it is call or (isinstance(it, ast.Call) and isinstance(it.func, ast.Attribute) and it.func.attr == "tolist" and it.func.value is call and not it.args)):
        return False
    A, v = call.args[0].id, loop.target.id
    body = ast.Module(body=loop.body, type_ignores=[])
    if any(isinstance(x, (ast.Return, ast.Raise, ast.Break, ast.While, ast.For, ast.AugAssign)) and not (isinstance(x, ast.AugAssign) and isinstance(x.target, ast.Subscript))
           for x in ast.walk(body)):
        return False

    def is_sel_compare(e):
        return isinstance(e, ast.Compare) and len(e.ops) == 1 and isinstance(e.ops[0], ast.Eq) and \
            {ast.unparse(e.left), ast.unparse(e.comparators[0])} == {A, v}
    derived, sel = {v}, set()
    for _ in range(4):
        for a in ast.walk(body):
            if isinstance(a, ast.Assign):
                names = {x.id for x in ast.walk(a.value) if isinstance(x, ast.Name)}
                tn = {x.id for t in a.targets for x in ast.walk(t) if isinstance(x, ast.Name) and isinstance(x.ctx, ast.Store)}
                if any(is_sel_compare(x) for x in ast.walk(a.value)) or names & sel:
                    sel |= {t.id for t in a.targets if isinstance(t, ast.Name)}
                if names & (derived | sel):
                    derived |= tn
    for a in ast.walk(body):
        if isinstance(a, (ast.Assign, ast.AugAssign)):
            for tg in (a.targets if isinstance(a, ast.Assign) else [a.target]):
                for el in (tg.elts if isinstance(tg, (ast.Tuple, ast.List)) else [tg]):
                    if isinstance(el, ast.Name):
                        if el.id not in derived | sel:
                            return False          # loop-carried state
                    elif isinstance(el, ast.Subscript):
                        first = el.slice.elts[0] if isinstance(el.slice, ast.Tuple) and el.slice.elts else el.slice
                        if not (isinstance(first, ast.Name) and first.id in sel):
                            return False          # a write that is not confined to the rows of the group
                    else:
                        return False
    return bool(sel)


_GB_OK = """
def f(cases, allargs, table, result):
    for cid in np.unique(cases).tolist():
        if cid not in table:
            continue
        fk, ar = table[cid]
        rows = np.flatnonzero(cases == cid)
        result[rows] = fk(*[allargs[a][rows] for a in ar])
    return result
"""
_GB_BAD = ["""
def f(cases, allargs, table, result):
    for cid in np.unique(cases).tolist():
        rows = np.flatnonzero(cases == cid)
        result[:len(rows)] = table[cid](allargs[rows])
    return result
""", """
def f(cases, allargs, table, result):
    total = 0
    for cid in np.unique(cases):
        rows = cases == cid
        total += 1
        result[rows] = table[cid](allargs[rows]) * total
    return result
""", """
def f(cases, other, table, result):
    for cid in np.unique(cases):
        rows = other == cid
        result[rows] = table[cid](other[rows])
    return result
"""]


def group_by_self_check():
    def verdict(src):
        fn = ast.parse(src).body[0]
        call = next(x for x in ast.walk(fn) if isinstance(x, ast.Call) and ast.unparse(x.func) == "np.unique")
        return group_by_loop(fn, call)
    return verdict(_GB_OK) and not any(verdict(b) for b in _GB_BAD)


RUN_GROUP_IFS = []


import inline as _inline
_INV = _inline.load_inventory()


def _moved(key, m, table, mod_of):
    """a triaged construct that moved into another function of the same module (extract-helper) is the same site"""
    if key in table:
        return key
    # a triaged construct of a function that no longer exists (merged into its caller and deleted) is the same site, found in the caller
    for (f, sh) in table:
        if sh == key[1] and f not in mod_of and f"{m.rel}:{f}" in _INV:
            return (f, sh)
    if f"{m.rel}:{key[0]}" in _INV:
        return key          # a function of the reference tree: its sites were triaged one by one, nothing moved here
    for (f, sh) in table:
        if sh == key[1] and mod_of.get(f) == m.name:
            return (f, sh)
    return key


def _expand_names(call, fn):
    """the reduction call with its plain-name arguments replaced by their defining arithmetic expression when the name is assigned exactly
    once in the function (`n = v - 1; np.cumsum(n)` is the site `np.cumsum(v - 1)`)"""
    import copy as _copy
    defs = {}
    for a in ast.walk(fn):
        if isinstance(a, (ast.Assign, ast.AugAssign, ast.AnnAssign, ast.For, ast.comprehension, ast.NamedExpr)):
            tg = a.targets if isinstance(a, ast.Assign) else [a.target]
            for t in tg:
                for x in ast.walk(t):
                    if isinstance(x, ast.Name):
                        defs.setdefault(x.id, []).append(a)
    def small(v):
        return (isinstance(v, ast.BinOp) and all(isinstance(o, (ast.Name, ast.Constant)) for o in (v.left, v.right))) or \
               (isinstance(v, ast.Call) and isinstance(v.func, ast.Name) and v.func.id == "len" and len(v.args) == 1 and isinstance(v.args[0], ast.Name))

    class Sub(ast.NodeTransformer):
        def visit_Name(self, x):
            d = defs.get(x.id, [])
            if isinstance(x.ctx, ast.Load) and len(d) == 1 and isinstance(d[0], ast.Assign) and len(d[0].targets) == 1 and isinstance(d[0].targets[0], ast.Name) \
                    and small(d[0].value) and x.id not in params:
                return _copy.deepcopy(d[0].value)
            return x
    params = {a.arg for a in fn.args.posonlyargs + fn.args.args + fn.args.kwonlyargs}
    return Sub().visit(_copy.deepcopy(call))


def batched_functions(repo):
    """names of the numerical-layer functions that can be handed a batch of rows: the level-1 field functions registered on the source
    classes (`_field_func = staticmethod(F)`), the functions exported by `magpylib.core`, and every function of the layer they refer to
    (calls and function values alike), transitively.  The mesh-topology helpers (open edges, connected subsets, face orientation) are only
    called from the TriangularMesh class with ONE mesh; no axis of their arrays enumerates batch rows."""
    layer = {fname: fn for m, fname, fn in field_functions(repo)}
    roots = set()
    for m in repo.mods.values():
        if m.name.startswith(FIELDS):
            continue
        for n in ast.walk(m.tree):
            if isinstance(n, ast.Assign) and any(isinstance(t, (ast.Name, ast.Attribute)) and getattr(t, "id", getattr(t, "attr", "")) == "_field_func" for t in n.targets):
                roots |= {x.id for x in ast.walk(n.value) if isinstance(x, ast.Name) and x.id in layer}
            if isinstance(n, ast.ImportFrom) and m.name.startswith("magpylib.core") and (n.module or "").startswith(FIELDS):
                roots |= {a.name for a in n.names if a.name in layer}
    seen, todo = set(), sorted(roots)
    while todo:
        f = todo.pop()
        if f in seen:
            continue
        seen.add(f)
        for x in ast.walk(layer[f]):
            nm = x.id if isinstance(x, ast.Name) else x.attr if isinstance(x, ast.Attribute) else None
            if nm in layer and nm not in seen:
                todo.append(nm)
    return roots, seen


def _operand(call):
    """(text of the array a reduction call reduces, its axis text)"""
    ax = next((ast.unparse(k.value) for k in call.keywords if k.arg == "axis"), None)
    if isinstance(call.func.value, ast.Name) and call.func.value.id == "np":
        arr = call.args[0] if call.args else None
        if ax is None and len(call.args) > 1:
            ax = ast.unparse(call.args[1])
    else:
        arr = call.func.value
        if ax is None and call.args:
            ax = ast.unparse(call.args[0])
    return (ast.unparse(arr) if arr is not None else None), ax


def _bound_once(fn, name):
    n = 0
    for a in ast.walk(fn):
        if isinstance(a, (ast.Assign, ast.AugAssign, ast.AnnAssign, ast.For, ast.comprehension, ast.NamedExpr, ast.withitem)):
            tg = a.targets if isinstance(a, ast.Assign) else [a.optional_vars] if isinstance(a, ast.withitem) else [a.target]
            n += sum(1 for t in tg if t is not None for x in ast.walk(t) if isinstance(x, ast.Name) and x.id == name)
    return n + (1 if name in {p.arg for p in fn.args.posonlyargs + fn.args.args + fn.args.kwonlyargs} else 0) == 1


def k1_k2(repo, res):
    n_fn = n1 = n2 = 0
    seen1, seen2 = set(), set()
    mod_of = {fname: m.name for m, fname, fn in field_functions(repo)}
    res.require(group_by_self_check(), "K2 group-by idiom: the embedded accepted / rejected examples are no longer told apart")
    roots, batched = batched_functions(repo)
    res.require(len(roots) >= 15, f"only {len(roots)} registered level-1 / core field functions found")
    res.analysed["field_entry_functions"] = sorted(roots)
    res.analysed["not_on_the_field_path"] = sorted(set(mod_of) - batched)
    for m, fname, fn in field_functions(repo):
        n_fn += 1
        if fname not in batched:
            continue
        lens = len_names(fn)
        # what axis 0 of an array enumerates does not depend on the reducer: a triaged reduction of an array (bound once) covers every
        # other reduction of the same array along the same axis in that function
        triaged_operands = set()
        for n in ast.walk(fn):
            if isinstance(n, ast.Call) and isinstance(n.func, ast.Attribute) and n.func.attr in RED and (fname, shape(_expand_names(n, fn))) in K2_TRIAGED:
                arr, ax = _operand(n)
                if arr and arr.isidentifier() and _bound_once(fn, arr):
                    triaged_operands.add((arr, ax))
        for n in ast.walk(fn):
            if isinstance(n, (ast.If, ast.While, ast.IfExp)) and is_batch_test(n.test, lens):
                # nested functions are walked as part of their parent; skip duplicates
                if isinstance(n, ast.If) and n in RUN_GROUP_IFS:
                    continue   # the run-group idiom, decided by RUN-GROUP
                t_ = n.test
                while isinstance(t_, ast.UnaryOp) and isinstance(t_.op, ast.Not) and isinstance(n, ast.If) and n.orelse:
                    t_ = t_.operand          # `if not c: B else: A` is the site `if c: A else: B`
                cc = count_canon(t_, fn)
                if cc is not None:
                    # a test on the number of selected rows is the mask test it is equivalent to (sites are polarity-insensitive)
                    t_ = ast.Call(func=ast.Attribute(value=ast.Name(id="np", ctx=ast.Load()), attr=cc[0], ctx=ast.Load()), args=[cc[1]], keywords=[])
                key = (fname, site_canon(shape(_expand_names(t_, fn))))
                key = _moved(key, m, K1_TRIAGED, mod_of)
                n1 += 1
                auto = skip_empty_work(n)
                ok = auto or key in K1_TRIAGED
                seen1.add(key)
                res.ob(f"K1:{fname}:{norm(n.test)}", ok, {"rule": "K1", "function": fname, "batch_level_test": norm(n.test), "shape": key[1],
                                                   "accepted_as": "skip-empty-work idiom" if auto else K1_TRIAGED.get(key)})
                if not ok:
                    res.add(Finding("K1", m.rel, fname, n.test, "batch-level branch: the path taken by one row depends on the other rows in the call "
                                    "(not a skip-empty-work idiom and not a triaged site)", n.lineno))
            if isinstance(n, ast.Call) and isinstance(n.func, ast.Attribute) and n.func.attr in RED:
                ax = [k for k in n.keywords if k.arg == "axis"]
                axv = ast.unparse(ax[0].value) if ax else (ast.unparse(n.args[1]) if len(n.args) > 1 and isinstance(n.func.value, ast.Name)
                                                            and n.func.value.id == "np" and n.func.attr in ("sum", "mean", "max", "min", "cumsum", "sort") else None)
                if axv not in (None, "0", "None"):
                    continue
                key = _moved((fname, shape(_expand_names(n, fn))), m, K2_TRIAGED, mod_of)
                n2 += 1
                ok = key in K2_TRIAGED
                same_arr = None
                if not ok and _operand(n) in triaged_operands:
                    ok, same_arr = True, f"same array and axis as a triaged reduction of `{_operand(n)[0]}` in this function"
                if not ok and n.func.attr == "unique" and group_by_loop(fn, n):
                    ok, same_arr = True, "group-by loop: the rows with each occurring value are evaluated and written under their own selection"
                seen2.add(key)
                res.ob(f"K2:{fname}:{norm(n)}", ok, {"rule": "K2", "function": fname, "reduction": norm(n), "shape": key[1], "triaged_as": K2_TRIAGED.get(key) or same_arr})
                if not ok:
                    res.add(Finding("K2", m.rel, fname, n, "reduction/scan along the first axis (or without axis) in the numerical layer: may combine "
                                    "values of different batch rows (not a triaged site)", n.lineno))
    res.require(len(row_regrouping(ast.parse(_RR_BAD).body[0])) == 1 and not row_regrouping(ast.parse(_RR_OK).body[0]),
                "K2b ROW-ORDER: the embedded positive / negative examples are no longer told apart")
    n_rr = 0
    for m, fname, fn in field_functions(repo):
        if fname not in batched:
            continue
        n_rr += 1
        for c, b in row_regrouping(fn):
            res.ob(f"K2b:{fname}:{norm(c)}", False, {"rule": "K2b", "function": fname, "construct": norm(c)})
            res.add(Finding("K2b", m.rel, fname, c, f"two or more array-index selections of `{b}` are concatenated along the row axis: the rows of the batch are "
                            "regrouped while the other per-row inputs keep their order", c.lineno))
    res.ob("K2b:scan", True, {"rule": "K2b", "functions_scanned": n_rr, "embedded_examples": "positive fires, negative silent"}, nontrivial=False)
    res.analysed.update({"field_layer_functions": n_fn, "batch_level_tests": n1, "row_axis_reductions": n2,
                         "triage_entries_unused": sorted(f"{a}: {b}" for (a, b) in (set(K1_TRIAGED) | set(K2_TRIAGED)) - seen1 - seen2)})
    res.require(n_fn >= 80, f"only {n_fn} functions found in the numerical layer")
    res.require(n1 >= 20, f"only {n1} batch-level tests found (rule would pass vacuously)")


def _expansion(e, defs):
    """(operator, count text, axis text) if e is np.repeat/np.tile(..) or a local name bound once to such a call, else None"""
    if isinstance(e, ast.Name) and e.id in defs and len(defs[e.id]) == 1:
        e = defs[e.id][0]
    if isinstance(e, ast.Call) and isinstance(e.func, ast.Attribute) and e.func.attr in ("repeat", "tile") and ast.unparse(e.func.value) == "np" and len(e.args) >= 2:
        ax = next((ast.unparse(k.value) for k in e.keywords if k.arg == "axis"), ast.unparse(e.args[2]) if len(e.args) > 2 else "-")
        if e.func.attr == "repeat" and ax == "-":
            return None      # repeat without axis flattens: element-level cartesian tables (CylinderSegment corner combinations), not row expansion
        return (e.func.attr, ast.unparse(e.args[1]), ax)
    return None


def expand_pair(repo, res):
    """K3 EXPAND-PAIR: arguments of one field-function call that are row-expanded (np.repeat / np.tile) use the same operator, count
    and axis - row r of every expanded argument must still stem from the same input row (repeat: r // k, tile: r % n)."""
    n = 0
    for m, _fname, fn in field_functions(repo):
        for f in [x for x in ast.walk(fn) if isinstance(x, ast.FunctionDef)]:
            # per block: names bound once in that block (branches rebind the same names with different counts)
            blocks = [f.body] + [b for x in ast.walk(f) if isinstance(x, (ast.If, ast.For, ast.While, ast.With, ast.Try))
                                 for b in (getattr(x, "body", []), getattr(x, "orelse", []))]
            for blk in blocks:
                defs = {}
                for s in blk:
                    if isinstance(s, ast.Assign) and len(s.targets) == 1 and isinstance(s.targets[0], ast.Name):
                        defs.setdefault(s.targets[0].id, []).append(s.value)
                for s in blk:
                    if isinstance(s, (ast.If, ast.For, ast.While, ast.With, ast.Try, ast.FunctionDef)):
                        continue
                    for c in ast.walk(s):
                        if not (isinstance(c, ast.Call) and isinstance(c.func, ast.Name) and repo.resolve_name(m, c.func.id)
                                and repo.resolve_name(m, c.func.id)[0] == "func"):
                            continue
                        exps = [((k.arg if k is not None and k.arg else f"arg{i}"), _expansion(v, defs)) for i, (k, v) in
                                enumerate([(None, a) for a in c.args] + [(k, k.value) for k in c.keywords])]
                        exps = [(k, e) for k, e in exps if e]
                        if len(exps) < 2:
                            continue
                        n += 1
                        sigs = {e for _, e in exps}
                        ok = len(sigs) == 1
                        res.ob(f"K3:{f.name}:{c.func.id}:{','.join(k for k, _ in exps)}", ok,
                               {"rule": "K3", "function": f.name, "callee": c.func.id, "expanded_arguments": {k: list(e) for k, e in exps}})
                        if not ok:
                            res.add(Finding("K3", m.rel, f.name, c, f"row-expanded arguments of one call use different expansions "
                                            f"{ {k: e for k, e in exps} }: rows of different inputs are paired", c.lineno))
    res.require(n >= 4, f"K3: only {n} calls with two or more row-expanded arguments found (5 confirmed by hand)")
    res.analysed["K3_calls"] = n


def run_group(repo, res):
    m = repo.mod(FIELDS + "field_BH_triangularmesh")
    fn = m.funcs.get("BHJM_magnet_trimesh")
    res.require(fn is not None, "anchor vanished: BHJM_magnet_trimesh")
    instances = 0
    for loop in [n for n in ast.walk(fn) if isinstance(n, ast.For)]:
        for iff in [n for n in loop.body if isinstance(n, ast.If)]:
            # the flush: a call pairing X[a:b] with M[a], followed by a = b
            calls = []
            for c in ast.walk(ast.Module(body=iff.body, type_ignores=[])):
                if isinstance(c, ast.Call):
                    sl = [a for a in c.args if isinstance(a, ast.Subscript) and isinstance(a.slice, ast.Slice)
                          and isinstance(a.slice.lower, ast.Name) and isinstance(a.slice.upper, ast.Name)]
                    single = [a for a in c.args if isinstance(a, ast.Subscript) and isinstance(a.slice, ast.Name)]
                    if sl and single and any(s.slice.lower.id == g.slice.id for s in sl for g in single):
                        calls.append((c, sl[0], [g for g in single if g.slice.id == sl[0].slice.lower.id][0]))
            if not calls:
                continue
            instances += 1
            RUN_GROUP_IFS.append(iff)
            call, sl, single = calls[0]
            a, b = sl.slice.lower.id, sl.slice.upper.id
            M = ast.unparse(single.value)
            problems = []
            # 1. bound integrity: b is the loop index and is not re-bound in the flush body
            loopvars = {x.id for x in ast.walk(loop.target) if isinstance(x, ast.Name)}
            if b not in loopvars:
                problems.append(f"range bound `{b}` is not the loop index")
            for s in ast.walk(ast.Module(body=iff.body, type_ignores=[])):
                if isinstance(s, (ast.Assign, ast.AugAssign)):
                    for t in (s.targets if isinstance(s, ast.Assign) else [s.target]):
                        if isinstance(t, ast.Name) and t.id == b:
                            problems.append(f"range bound `{b}` is re-bound inside the flush ({norm(s)}): the row at the new bound joins the run "
                                            "without having been compared with the representative row")
            # the representative index advances to the bound after the flush
            adv = [s for s in iff.body if isinstance(s, ast.Assign) and any(isinstance(t, ast.Name) and t.id == a for t in s.targets)
                   and isinstance(s.value, ast.Name) and s.value.id == b]
            if not adv:
                problems.append(f"`{a} = {b}` missing after the flush")
            # 2. change-test completeness
            disj = iff.test.values if isinstance(iff.test, ast.BoolOp) and isinstance(iff.test.op, ast.Or) else [iff.test]
            # a name bound once to `len(X)` stands for it (`n = len(X)` ... `b == n`, `range(1, n + 1)`)
            len_defs = {}
            for s_ in ast.walk(fn):
                if isinstance(s_, ast.Assign) and len(s_.targets) == 1 and isinstance(s_.targets[0], ast.Name):
                    len_defs.setdefault(s_.targets[0].id, []).append(s_.value)
            len_defs = {k: ast.unparse(v[0]) for k, v in len_defs.items() if len(v) == 1 and re.fullmatch(r"len\(\w+\)", ast.unparse(v[0]))}

            def _ln(t_):
                for k, v in len_defs.items():
                    t_ = re.sub(rf"\b{k}\b", v, t_)
                return t_
            row_b, row_a = f"{M}[{b}]", f"{M}[{a}]"
            has_shape = has_val = has_last = False
            for d in disj:
                t = _ln(ast.unparse(d))
                if t in (f"{row_b}.shape != {row_a}.shape", f"{row_a}.shape != {row_b}.shape"):
                    has_shape = True
                if t in (f"not np.all({row_b} == {row_a})", f"not np.all({row_a} == {row_b})", f"np.any({row_b} != {row_a})", f"np.any({row_a} != {row_b})",
                         f"not np.array_equal({row_b}, {row_a})", f"not np.array_equal({row_a}, {row_b})"):
                    has_val = True
                    if "array_equal" in t:
                        has_shape = True
                if re.fullmatch(rf"{b} == len\(\w+\)", t) or re.fullmatch(rf"len\(\w+\) == {b}", t):
                    has_last = True
                    if d is not disj[0]:
                        problems.append("the end-of-rows test must be the first disjunct (the row comparison indexes out of range otherwise)")
            if not has_val:
                problems.append(f"rows are admitted to a run without comparing all values of {row_b} with {row_a}")
            if not has_shape:
                problems.append(f"rows are admitted to a run without comparing the shape of {row_b} with {row_a}")
            # 3. coverage: the last run is flushed with bound len(...)
            it = _ln(ast.unparse(loop.iter))
            covered = has_last and re.fullmatch(r"range\(1, len\(\w+\) \+ 1\)", it) is not None
            if not covered:
                # alternatively a flush after the loop
                after = False
                body = fn.body
                for s in ast.walk(fn):
                    if isinstance(s, ast.Call) and s is not call and ast.unparse(s.func) == ast.unparse(call.func) and "len(" in ast.unparse(s):
                        after = True
                if not after:
                    problems.append(f"the runs do not provably cover the last rows (loop over {it}, end test present: {has_last})")
            res.ob(f"RUN-GROUP:{fn.name}:{norm(call)[:60]}", not problems,
                   {"rule": "RUN-GROUP", "function": fn.name, "flush": norm(call), "change_test": norm(iff.test), "loop": it, "problems": problems})
            for p in problems:
                res.add(Finding("RUN-GROUP", m.rel, fn.name, iff.test, p, iff.lineno))
    if instances == 0:
        # the idiom disappeared: acceptable only if no call pairs a row range with one representative row any more
        pairs = [c for c in ast.walk(fn) if isinstance(c, ast.Call) and ast.unparse(c.func) == "mask_inside_trimesh"]
        if pairs:
            raise AnalysisError("RUN-GROUP: mask_inside_trimesh is still called but the run-grouping idiom was not recognised; re-triage needed")
        res.notes.append("RUN-GROUP: no run-grouping idiom present")
    res.analysed["run_group_instances"] = instances


def level2(repo, res):
    W = repo.mod(FIELDS + "field_wrap_BH")
    fn = W.funcs.get("getBH_level2")
    res.require(fn is not None, "anchor vanished: getBH_level2")
    # ---- L2-GROUP
    key_assign = None
    for n in ast.walk(fn):
        if isinstance(n, ast.For):
            for s in n.body:
                if isinstance(s, ast.Assign) and len(s.targets) == 1 and isinstance(s.targets[0], ast.Name) and "group" in s.targets[0].id and "key" in s.targets[0].id:
                    key_assign = s
    calls = [c for c in ast.walk(fn) if isinstance(c, ast.Call) and getattr(c.func, "id", "") == "getBH_level1"]
    res.require(calls, "getBH_level2 no longer calls getBH_level1")
    loops = [n for n in ast.walk(fn) if isinstance(n, ast.For) and any(c in list(ast.walk(n)) for c in calls)]
    ok, why = False, "evaluation loop not found"
    for lp in loops:
        it = lp.iter
        if isinstance(it, ast.Call) and isinstance(it.func, ast.Attribute) and it.func.attr == "items" and isinstance(lp.target, ast.Tuple) and \
                isinstance(lp.target.elts[0], ast.Name):
            keyvar = lp.target.elts[0].id
            ff = next((k.value for c in calls for k in c.keywords if k.arg == "field_func"), None)
            rebound = any(isinstance(s, ast.Assign) and any(isinstance(t, ast.Name) and t.id == keyvar for t in s.targets) for s in ast.walk(lp))
            ok = isinstance(ff, ast.Name) and ff.id == keyvar and not rebound
            why = "" if ok else f"field_func={ast.unparse(ff) if ff is not None else None} is not the grouping key `{keyvar}`"
            if ok and key_assign is not None and "field_func" not in ast.unparse(key_assign.value):
                ok, why = False, f"sources are grouped by {norm(key_assign.value)} but evaluated with the key as the field function"
    res.ob("L2-GROUP:each group is evaluated by its own key", ok, {"rule": "L2-GROUP", "key": norm(key_assign) if key_assign else None,
                                                                    "level1_calls": [norm(c)[:90] for c in calls]})
    if not ok:
        res.add(Finding("L2-GROUP", W.rel, "getBH_level2", calls[0], f"a group of sources must be evaluated with the function that defines the group: {why} "
                        "(otherwise a source's row is computed with another source's field function)", calls[0].lineno))
    # ---- L2-SCATTER: a group's rows are written to the positions recorded for its members (scatter), never read through them
    order_keys = set()
    for n in ast.walk(fn):
        if isinstance(n, ast.Call) and isinstance(n.func, ast.Attribute) and n.func.attr == "append" and n.args and isinstance(n.args[0], ast.Name):
            t = ast.unparse(n.func.value)
            mm = re.search(r"\[['\"](\w*order\w*)['\"]\]$", t)
            if mm:
                order_keys.add(mm.group(1))
    if order_keys:
        loads, stores = [], []
        parents = {}
        for x in ast.walk(fn):
            for ch in ast.iter_child_nodes(x):
                parents[id(ch)] = x
        for n in ast.walk(fn):
            if isinstance(n, ast.Subscript) and isinstance(n.slice, ast.Constant) and n.slice.value in order_keys:
                # how is the recorded position list used?  climb to the outermost subscript that uses it as an index
                p, child = parents.get(id(n)), n
                while isinstance(p, ast.Subscript) and p.value is child:      # group["order"][gr_ind]
                    child, p = p, parents.get(id(p))
                if isinstance(p, ast.Subscript) and p.slice is child:
                    (stores if isinstance(p.ctx, ast.Store) else loads).append(p)
                elif isinstance(p, ast.Attribute) and p.attr == "append":
                    continue
                elif isinstance(p, (ast.Subscript, ast.Index if hasattr(ast, "Index") else ast.Subscript)):
                    continue
        # local names that collect the recorded positions (order.extend(group["order"]), order = ..., order += ...)
        def mentions_key(e):
            return any(isinstance(x, ast.Subscript) and isinstance(x.slice, ast.Constant) and x.slice.value in order_keys for x in ast.walk(e))
        aliases = set()
        for n in ast.walk(fn):
            if isinstance(n, ast.Call) and isinstance(n.func, ast.Attribute) and n.func.attr in ("extend", "append") and isinstance(n.func.value, ast.Name) \
                    and n.args and mentions_key(n.args[0]):
                aliases.add(n.func.value.id)
            if isinstance(n, (ast.Assign, ast.AugAssign)) and mentions_key(n.value):
                for t in (n.targets if isinstance(n, ast.Assign) else [n.target]):
                    if isinstance(t, ast.Name):
                        aliases.add(t.id)
        for n in ast.walk(fn):
            if isinstance(n, ast.Subscript):
                sl = n.slice
                direct = isinstance(sl, ast.Name) and sl.id in aliases       # X[order]; X[np.argsort(order)] is the inverse and fine
                if direct:
                    (stores if isinstance(n.ctx, ast.Store) else loads).append(n)
        ok = bool(stores) and not loads
        res.ob("L2-SCATTER:group results are scattered to the members' positions", ok,
               {"rule": "L2-SCATTER", "position_lists": sorted(order_keys), "used_as_store_index": [norm(x) for x in stores], "used_as_load_index": [norm(x) for x in loads]})
        if loads:
            res.add(Finding("L2-SCATTER", W.rel, "getBH_level2", loads[0], "the recorded member positions are used to *gather* from the stacked group results; "
                            "row l of the output must be written at position order[i] (the inverse permutation would be needed for a gather)", loads[0].lineno))
        elif not stores:
            # are the recorded positions consumed at all (e.g. X[np.argsort(order)] - the inverse permutation - is a correct gather)?
            used = False
            for n in ast.walk(fn):
                if isinstance(n, ast.Subscript) and isinstance(n.slice, ast.Constant) and n.slice.value in order_keys and isinstance(n.ctx, ast.Load):
                    p_ = parents.get(id(n))
                    if not (isinstance(p_, ast.Attribute) and p_.attr == "append"):
                        used = True
                if isinstance(n, ast.Name) and n.id in aliases and isinstance(n.ctx, ast.Load):
                    p_ = parents.get(id(n))
                    if not (isinstance(p_, ast.Attribute) and p_.attr in ("append", "extend")):
                        used = True
            if used:
                res.notes.append("L2-SCATTER: position list not used as a store index (idiom changed) - undecided")
            else:
                anchor = next(n for n in ast.walk(fn) if isinstance(n, ast.Call) and isinstance(n.func, ast.Attribute) and n.func.attr == "append"
                              and re.search(r"order", ast.unparse(n.func.value)))
                res.add(Finding("L2-SCATTER", W.rel, "getBH_level2", anchor, "the positions of the group members in the source list are recorded but never used: the rows of the "
                                "result come out in group order, so with interleaved source types ([Cuboid, Sphere, Cuboid]) a row holds another source's field", anchor.lineno))
    # ---- L2-PAD
    import rules_t1
    t1 = rules_t1.analyse(fn)
    if t1 is None:
        res.notes.append("L2-PAD: getBH_level2 no longer pads paths in place")
        return
    defs = {}
    for n in ast.walk(fn):
        if isinstance(n, ast.Assign) and len(n.targets) == 1 and isinstance(n.targets[0], ast.Name):
            defs.setdefault(n.targets[0].id, []).append(n.value)

    def expand(e, depth=0):
        """set of expression texts reachable through local definitions"""
        out = {ast.unparse(e)}
        if depth > 4:
            return out
        for x in ast.walk(e):
            if isinstance(x, ast.Name) and x.id in defs:
                for v in defs[x.id]:
                    out |= expand(v, depth + 1)
        return out
    for st in t1["store_stmts"]:
        texts = expand(st.value)
        attr = next(t.attr for t in st.targets if isinstance(t, ast.Attribute))
        edge = any(re.search(r"np\.pad\(.*['\"]edge['\"]", t) for t in texts)
        last = any(re.search(r"\[-1\]", t) for t in texts) and any("concatenate" in t for t in texts)
        bad = any(re.search(r"np\.resize|np\.roll|\[0\]\s*,\s*\(m_tile", t) for t in texts)
        ok = (edge or last) and not bad
        res.ob(f"L2-PAD:{attr}", ok, {"rule": "L2-PAD", "store": norm(st), "derives_from_last_entry": last, "edge_pad": edge})
        if not ok:
            res.add(Finding("L2-PAD", W.rel, "getBH_level2", st, "a shorter path must be continued with its own LAST entry (edge padding); the padded part "
                            "does not derive from `path[-1]`", st.lineno))


# scalar/vectorised twins selected by batch size: their branch conditions must partition the inputs identically
TWINS = [("special_cel", "cel0", "celv"), ("special_cel", "cel_iter0", "cel_iterv"), ("special_el3", "el30", "el3v")]
TWIN_TRIAGED = {
    ("cel0", "celv", "scalar", ("0", "_", "==", 1)): "scalar version rejects kc == 0 with RuntimeError; the guard is commented out in the vector version and callers mask that edge",
    ("el30", "el3v", "scalar", ("0", "_", "<", 1)): "scalar version branches once more on a sign where the vector version uses pre-computed masks",
    ("el30", "el3v", "vector", ("0.5", "_", "<", 1)): "vector version tests the named intermediate pm > 0.5 where the scalar version nests the same test differently",
}


def twin_conditions(fn):
    """multiset of branch conditions, rename-invariant: local names are replaced by `_`, subscripts by masks are dropped"""
    from collections import Counter
    out = Counter()
    for c in ast.walk(fn):
        if isinstance(c, ast.Compare) and len(c.ops) == 1:
            def strip(e):
                t = shape(e)
                t = re.sub(r"\[[A-Za-z_0-9]+\]", "", t)
                t = t.replace("np.abs", "abs").replace("np.fabs", "abs").replace("_.fabs", "abs").replace("math.fabs", "abs")
                t = re.sub(r"\b(\d+)\.0\b", r"\1", t)
                return t
            a, b, op = strip(c.left), strip(c.comparators[0]), c.ops[0]
            # a condition is identified by the partition it induces: {a > b | a <= b} is the same partition as {b < a | b >= a}
            if isinstance(op, (ast.Gt, ast.LtE)):
                out[(b, a, "<")] += 1
            elif isinstance(op, (ast.Lt, ast.GtE)):
                out[(a, b, "<")] += 1
            elif isinstance(op, (ast.Eq, ast.NotEq)):
                out[tuple(sorted((a, b))) + ("==",)] += 1
    return out


def twins(repo, res):
    n = 0
    for leaf, a, b in TWINS:
        m = repo.mods.get(FIELDS + leaf)
        if m is None or a not in m.funcs or b not in m.funcs:
            raise AnalysisError(f"anchor vanished: twin pair {leaf}.{a}/{b}")
        n += 1
        ca, cb = twin_conditions(m.funcs[a]), twin_conditions(m.funcs[b])
        diffs = []
        for x in sorted(set(ca) | set(cb)):
            d_ = ca[x] - cb[x]
            if d_:
                diffs.append(("scalar" if d_ > 0 else "vector", x + (abs(d_),)))
        new = [(side, x) for side, x in diffs if (a, b, side, x) not in TWIN_TRIAGED]
        res.ob(f"TWIN:{a}/{b}", not new, {"rule": "TWIN", "pair": f"{a}/{b}", "conditions_scalar": len(ca), "conditions_vector": len(cb),
                                           "shared": sum((ca & cb).values()), "triaged_differences": len(diffs) - len(new), "new_differences": [f"{s}: {x}" for s, x in new]})
        for side, x in new:
            fn = m.funcs[a if side == "scalar" else b]
            res.add(Finding("TWIN", m.rel, f"{a}/{b}", f"{x[3]} condition(s) of shape `{x[0]} {x[2]} {x[1]}` only in the {side} version",
                            "the scalar and the vectorised implementation are selected by batch size; a branch condition that exists in (or "
                            "places the boundary differently in) only one of them makes a row's value depend on how many rows are in the call", fn.lineno))
    res.analysed["twin_pairs"] = n


def run(repo, res, tier):
    res.rules = ["IDX-SPACE integer row numbers index arrays of their own space", "LOST-WRITE no store through an array-indexed copy", "RUN-GROUP admission rule", "K1 batch-level branches", "K2 row-axis reductions", "K2b ROW-ORDER no regrouping of batch rows", "TWIN scalar/vector branch agreement", "L2-GROUP", "L2-SCATTER", "L2-PAD", "K3 EXPAND-PAIR", "LAY axis-layout typing of the level-2 plumbing (assume/guarantee over get_src_dict, getBH_level1, getBH_level2)"]
    run_group(repo, res)
    k1_k2(repo, res)
    import rules_idxspace
    rules_idxspace.run(repo, res, "IDX-SPACE", lambda mn: mn.startswith(FIELDS))
    import rules_lostwrite
    rules_lostwrite.run(repo, res, "LOST-WRITE", lambda mn: mn.startswith(FIELDS))
    twins(repo, res)
    level2(repo, res)
    expand_pair(repo, res)
    import lay_rules
    lay_rules.run(res, "LAY")
    res.assumptions += ["NumPy elementwise operations, boolean masking and axis=-1/1 reductions do not couple rows",
                        "a batch-level `if np.any(M)` whose body only writes under M (or masks derived from M) is semantically a no-op for an empty selection"]
    return {}


MANIFEST = {
    "category": "other",
    "text": "Static decision of the element-independence clauses that are visible in code shape: the run-grouping loop admits a row to a group only after "
            "comparing shape and all values with the group's representative, every construct in the numerical layer that can make one row's result "
            "depend on other rows (batch-level branches, row-axis reductions) is either a recognised skip-empty-work idiom or an explained triaged site "
            "(a new one is a violation), each level-2 group is evaluated with its own key function, and shorter paths are edge-padded with their last "
            "pose. Level-2 tiling/reshape index arithmetic and scalar-vs-vector numeric equality are not decided. Also decided: the scalar and vectorised elliptic routines agree on every branch condition (sibling check), group rows are scattered to their members' positions. Round 3: row-expanded arguments of one field-function call use one expansion (K3), and an axis-layout type system (LAY) decides tile/repeat/reshape/concatenate/split order for the whole level-2 plumbing by assume/guarantee over get_src_dict, getBH_level1 and getBH_level2. Rounds 4-5: recorded group positions must be used (L2-SCATTER). Rounds 6-7: integer row numbers index arrays of their own index space (IDX-SPACE), no store through an array-indexed copy (LOST-WRITE), no regrouping of batch rows by concatenated selections (K2b); K1/K2 apply to the functions that can be handed a batch (reachable from the registered level-1 functions and magpylib.core), all spellings of an emptiness test are one site, tests on row counts are read as the mask test they equal, the group-by loop over np.unique is an accepted idiom.",
    "design_ref": "DESIGN.md §3 C06",
    "note": "Trusted: python ast; the triage tables K1_TRIAGED/K2_TRIAGED (47 entries, one line of reason each) confirmed by reading the code.",
    "technique": "static analysis: syntactic inventory with triage memory (Engler-style deviant-site rule), boolean path-condition admission rule, def-use",
}
