"""C07 - all interfaces to the same computation return the same numbers.

Decided clauses (marshalling tables and wrapper forwarding):
  W1  wrapper family: every function/method named get[BHJM] (16) returns, on every path, one call to getBH_level2 with `field=`
      the letter in its name; each of its own parameters sumup/squeeze/pixel_agg/output/in_out is forwarded under the same name
      (or the documented constant where the wrapper has no such parameter); star inputs pass through format_star_input /
      _validate_getBH_inputs; along the chain getBH_level2 -> getBH_dict_level2 -> getBH_level1 every same-named parameter is forwarded
  W2  rank table: for each registered source class the keys of _field_func_kwargs_ndim are exactly the parameters of the resolved
      _field_func minus {field, observers, in_out}, and ndim == 1 + rank(attribute) with the rank read from the attribute's
      validator configuration
  W3  core exports: each name in magpylib.core.__all__ is the function the BHJM_* wrapper of that class calls
  W4  sibling tiling in get_src_dict: position and orientation are tiled by the same pipeline (row alignment of the two paths)
  W5  (E3-ORIGIN) the exported core functions modify none of their array arguments in place
  W6  (MEMO) every interface reads the object's *current* state: a property getter that memoises a value derived from other
      attributes is reset by every writer of those attributes (rules_memo.py); a memo of the state of other objects needs
      invalidation propagated from them
  W7  (SUPERPOSE-SIBLING) the full-turn CylinderSegment fallback (the Cylinder interface to the same body) combines two calls of
      the cylinder function that are built the same way (rules_sibling.py)
  W8  (LAYOUT, lay_rules.py analysis C) output='dataframe': the index columns built by product(sources, path, sensors, pixels)
      enumerate the same index sets in the same order as the rows of B.reshape(-1, 3); the final reshape splits the result in
      the documented (source, path, sensor, pixel) order
Not decided: value equality between interfaces.
"""
from __future__ import annotations

import ast
import re

from common import AnalysisError, Finding, norm
from repo import kw, lit, ret_value

EXPLANATION = ("table and sibling cross-checks over the parsed package: 16 getX wrappers forward their parameters and the right field literal, the "
               "functional-interface rank table agrees with the field-function signatures and the attribute validators, core exports are the "
               "functions the class wrappers call, and position/orientation are tiled identically. Decides that all interfaces marshal into the "
               "same computation, not value equality.")

FORWARD = ("sumup", "squeeze", "pixel_agg", "output", "in_out")
# documented constants where a wrapper has no such parameter
CONSTANTS = {("BaseSource", "sumup"): "False", ("BaseCollection", "sumup"): "False", ("BaseCollection", "in_out"): "'auto'"}


def w1(repo, res):
    n = 0
    for m, qn, fn, cl in repo.all_functions():
        if not re.fullmatch(r"get[BHJM]", fn.name):
            continue
        n += 1
        letter = fn.name[-1]
        rets = [r for r in ast.walk(fn) if isinstance(r, ast.Return)]
        problems = []
        if len(rets) != 1:
            problems.append(f"{len(rets)} return statements (expected exactly one)")
        own = {a.arg for a in fn.args.args + fn.args.kwonlyargs}
        for r in rets:
            c = ret_value(fn, r)
            # a method form may delegate to the top-level wrapper of the same letter (itself a W1 instance) instead of calling level 2 directly
            deleg = None
            if isinstance(c, ast.Call) and isinstance(c.func, ast.Name) and c.func.id != "getBH_level2" and cl is not None:
                r_ = repo.resolve_name(m, c.func.id)
                if r_ and r_[0] == "func" and re.fullmatch(r"get[BHJM]", r_[2].name) and r_[1].name.endswith("field_wrap_BH"):
                    deleg = r_[2]
            if not (isinstance(c, ast.Call) and isinstance(c.func, ast.Name) and (c.func.id == "getBH_level2" or deleg is not None)):
                problems.append("does not return getBH_level2(...)")
                continue
            kws = {k.arg: k.value for k in c.keywords if k.arg}
            f = kws.get("field") if deleg is None else ast.Constant(value=deleg.name[-1])
            if not (isinstance(f, ast.Constant) and f.value == letter):
                problems.append(f"field={ast.unparse(f) if f is not None else None} but the wrapper is {fn.name}")
            for p in FORWARD:
                v = kws.get(p)
                if p in own:
                    if not (isinstance(v, ast.Name) and v.id == p):
                        problems.append(f"own parameter `{p}` is not forwarded as {p}={p}")
                else:
                    want = CONSTANTS.get((cl.name if cl else None, p))
                    if v is None or want is None or ast.unparse(v) != want:
                        problems.append(f"`{p}` must be passed as the documented constant {want} (found {ast.unparse(v) if v is not None else 'nothing'})")
            # re-binding of forwarded parameters before the call
            for s in ast.walk(fn):
                if isinstance(s, (ast.Assign, ast.AugAssign)):
                    for t in (s.targets if isinstance(s, ast.Assign) else [s.target]):
                        if isinstance(t, ast.Name) and t.id in FORWARD:
                            problems.append(f"`{t.id}` is re-bound before forwarding")
            # star inputs
            if fn.args.vararg is not None:
                va = fn.args.vararg.arg
                conv = [s for s in ast.walk(fn) if isinstance(s, ast.Call) and (getattr(s.func, "id", None) == "format_star_input" or
                                                                                getattr(s.func, "attr", None) == "_validate_getBH_inputs")
                        and any(isinstance(x, ast.Name) and x.id == va for x in ast.walk(s))]
                # the same conversion written out: `va[0] if len(va) == 1 else list(va)` (what format_star_input does)
                conv += [s for s in ast.walk(fn) if isinstance(s, ast.IfExp) and norm(s.test) in (f"len({va}) == 1", f"1 == len({va})")
                         and norm(s.body) == f"{va}[0]" and norm(s.orelse) == f"list({va})"]
                if not conv:
                    problems.append(f"star input *{va} does not pass through format_star_input/_validate_getBH_inputs")
            # the object itself is one of the two positional arguments
            if cl is not None and not any(isinstance(a, ast.Name) and a.id == "self" for a in list(c.args) + [k.value for k in c.keywords if k.arg in ("sources", "observers")]) \
                    and cl.name != "BaseCollection":
                problems.append("`self` is not handed to getBH_level2")
            if fn.args.kwarg is not None:
                if not any(k.arg is None and isinstance(k.value, ast.Name) and k.value.id == fn.args.kwarg.arg for k in c.keywords):
                    problems.append(f"**{fn.args.kwarg.arg} is not forwarded")
        res.ob(f"W1:{qn}", not problems, {"rule": "W1", "wrapper": qn, "returns": norm(rets[0]) if rets else None, "problems": problems})
        for p in problems:
            res.add(Finding("W1", m.rel, qn, rets[0] if rets else fn, p, (rets[0] if rets else fn).lineno))
    if n < 16:
        raise AnalysisError(f"W1: only {n} get[BHJM] wrappers found (16 expected)")
    # ---- chain forwarding: same-named parameters must be passed on
    W = repo.mod("magpylib._src.fields.field_wrap_BH")
    for caller, callee in (("getBH_level2", "getBH_dict_level2"), ("getBH_level2", "getBH_level1"), ("getBH_dict_level2", "getBH_level1")):
        f, g = W.funcs.get(caller), W.funcs.get(callee)
        res.require(f is not None and g is not None, f"anchor vanished: {caller}/{callee}")
        fparams = {a.arg for a in f.args.args + f.args.kwonlyargs}
        gparams = [a.arg for a in g.args.args + g.args.kwonlyargs]
        calls = [c for c in ast.walk(f) if isinstance(c, ast.Call) and isinstance(c.func, ast.Name) and c.func.id == callee]
        res.require(calls, f"{caller} no longer calls {callee}")
        for c in calls:
            passed = {k.arg for k in c.keywords if k.arg} | set(gparams[: len(c.args)])
            star = [k for k in c.keywords if k.arg is None]
            missing = []
            for p in gparams:
                if p in fparams and p not in passed and p in FORWARD + ("field",) + (("observers",) if callee == "getBH_dict_level2" else ()):
                    # may still arrive through **kwargs / **src_dict only if the caller put it there - not for its own parameters
                    missing.append(p)
            wrong = [k.arg for k in c.keywords if k.arg in fparams and k.arg in gparams and k.arg in FORWARD + ("field",)
                     and not (isinstance(k.value, ast.Name) and k.value.id == k.arg)]
            res.ob(f"W1:chain:{caller}->{callee}:{c.lineno}", not missing and not wrong,
                   {"rule": "W1-chain", "call": norm(c), "not_forwarded": missing, "forwarded_under_other_value": wrong})
            for p in missing:
                res.add(Finding("W1", W.rel, caller, c, f"parameter `{p}` is not forwarded to {callee} (the callee would silently use its default)", c.lineno))
            for p in wrong:
                res.add(Finding("W1", W.rel, caller, c, f"parameter `{p}` is forwarded with a different value", c.lineno))


def attr_rank(repo, cname, attr):
    """rank of one instance's attribute value, from its validator configuration; None if unknown"""
    c, fn = repo.find_method(cname, attr, "setter")
    if fn is None:
        return None
    for call in ast.walk(fn):
        if not isinstance(call, ast.Call):
            continue
        nm = getattr(call.func, "id", None)
        if nm == "check_format_input_scalar":
            return 0
        if nm == "check_format_input_vector":
            dims = lit(kw(call, "dims"))
            if isinstance(dims, tuple) and len(dims) == 1:
                return dims[0]
            return None
        if nm == "check_format_input_vertices":
            return 2
        if nm == "check_format_input_cylinder_segment":
            return 1
    return None


def w2(repo, res):
    import dim_rules
    seen = 0
    by_param = {}
    for c in sorted(repo.cls_by_key.values(), key=lambda c: c.name):
        if "_field_func" not in c.attrs or "_field_func_kwargs_ndim" not in c.attrs:
            continue
        v = c.attrs["_field_func"]
        if isinstance(v, ast.Call) and getattr(v.func, "id", "") == "staticmethod" and v.args:
            v = v.args[0]
        if not isinstance(v, ast.Name):
            continue
        r = repo.resolve_name(c.mod, v.id)
        if not r or r[0] != "func":
            raise AnalysisError(f"W2: cannot resolve _field_func of {c.name}")
        table = lit(c.attrs["_field_func_kwargs_ndim"])
        if not isinstance(table, dict):
            raise AnalysisError(f"W2: {c.name}._field_func_kwargs_ndim is not a literal dict")
        seen += 1
        params = {a.arg for a in r[2].args.args + r[2].args.kwonlyargs} - {"field", "observers", "in_out"}
        extra, missing = set(table) - params, params - set(table)
        res.ob(f"W2:{c.name}:keys", not extra and not missing, {"rule": "W2", "class": c.name, "table_keys": sorted(table), "field_func_params": sorted(params)})
        for k in sorted(extra):
            res.add(Finding("W2", c.mod.rel, f"{c.name}._field_func_kwargs_ndim", f"key {k!r}", f"{r[2].name} has no parameter `{k}`"))
        for k in sorted(missing):
            res.add(Finding("W2", c.mod.rel, f"{c.name}._field_func_kwargs_ndim", f"missing key {k!r}",
                            f"parameter `{k}` of {r[2].name} has no rank entry: single values would be tiled with the default rank 1"))
        for k, nd in table.items():
            rk = attr_rank(repo, c.name, k)
            if k == "mesh" and c.name == "TriangularMesh":
                rk = 3   # check_format_input_vector2(shape=[None, 3, 3]) in from_mesh / the mesh property is (n,3,3)
            if rk is None:
                res.notes.append(f"W2: no validator-derived rank for {c.name}.{k} (table says ndim={nd})")
                by_param.setdefault(k, {})[c.name] = (nd, None)
                continue
            ok = nd == rk + 1
            by_param.setdefault(k, {})[c.name] = (nd, rk)
            res.ob(f"W2:{c.name}.{k}", ok, {"rule": "W2", "class": c.name, "parameter": k, "ndim_in_table": nd, "rank_from_validator": rk})
            if not ok:
                res.add(Finding("W2", c.mod.rel, f"{c.name}._field_func_kwargs_ndim", f"{k!r}: {nd}",
                                f"one instance's `{k}` has rank {rk} (validator configuration), so the table must say {rk + 1}: the functional interface "
                                "would mis-tile or reject a single parameter set"))
    if seen < 10:
        raise AnalysisError(f"W2: only {seen} classes with a rank table")
    # same parameter name => same ndim across siblings unless validators differ
    for k, d in by_param.items():
        vals = {v for v in d.values()}
        ranks = {v[1] for v in d.values()}
        nds = {v[0] for v in d.values()}
        if len(ranks - {None}) <= 1 and len(nds) > 1:
            res.add(Finding("W2", "magpylib/_src/obj_classes", "_field_func_kwargs_ndim", f"parameter {k!r} has ndim {sorted(nds)} across classes {sorted(d)}",
                            "sibling classes disagree although their validators agree"))
        res.ob(f"W2:siblings:{k}", not (len(ranks - {None}) <= 1 and len(nds) > 1), None, nontrivial=False)


# triaged W3 exceptions: export -> reason
W3_INLINE = {"magnet_sphere_Bfield": "BHJM_magnet_sphere re-implements the three-line sphere formula inline instead of calling the core function "
                                     "(duplicate code, same formula; kept in sync by tests/test_core.py)"}


def w3(repo, res):
    core = repo.mod("magpylib.core")
    allv = lit(core.assigns.get("__all__"))
    res.require(isinstance(allv, (list, tuple)) and len(allv) >= 8, "magpylib.core.__all__ vanished")
    # which core function does each BHJM wrapper call
    called = {}
    for m in repo.mods.values():
        if not m.name.startswith("magpylib._src.fields.field_BH_"):
            continue
        for fname, fn in m.funcs.items():
            if fname.startswith("BHJM_") or fname == "current_vertices_field":
                for c in ast.walk(fn):
                    if isinstance(c, ast.Call) and isinstance(c.func, ast.Name) and c.func.id in m.funcs and re.search(r"_(B|H)field$", c.func.id):
                        called.setdefault(c.func.id, set()).add(f"{m.name}:{fname}")
    for name in allv:
        r = repo.resolve_name(core, name)
        ok = bool(r and r[0] == "func")
        used = sorted(called.get(name, ()))
        same = ok and (any(u.split(":")[0] == r[1].name for u in used) or name in W3_INLINE)
        res.ob(f"W3:{name}", ok and same, {"rule": "W3", "export": name, "defined_in": r[1].name if ok else None, "called_by": used})
        if not ok:
            res.add(Finding("W3", core.rel, "magpylib.core", name, "exported name does not resolve to a function of the package"))
        elif not same:
            res.add(Finding("W3", core.rel, "magpylib.core", name, f"no BHJM_* wrapper in {r[1].name} calls this function: the object interfaces and "
                            "magpylib.core would run different code"))


def w4(repo, res):
    """W4: position, orientation, observers and per-source parameters built by get_src_dict enumerate their rows alike.
    (Was a textual comparison of the two tiling pipelines; it raised a false alarm on an equivalent pipeline - np.repeat along the
    path axis instead of np.tile along the last axis - and was replaced by the layout typing of lay_rules.analysis_a.)"""
    import lay_rules
    lay_rules.analysis_a(res, "W4")


def w1b(repo, res):
    """W1b the method forms hand the user's sources/observers to getBH_level2 *as given*: what `_validate_getBH_inputs` returns is the
    receiver, the star-input tuple or its single element - never a list rebuilt by a flattener (a Collection passed as a source must stay
    one entry whose field is the sum over its tree; flattening it turns one row into one row per leaf)"""
    from origin_rules import O, org_of, run_node, find_ast
    from absint import Seq
    m = "magpylib._src.obj_classes.class_Collection"
    node = find_ast(m, "BaseCollection._validate_getBH_inputs", False)
    out, dom, it = run_node(m, node, {"self": O({"A:self"})}, name="_validate_getBH_inputs")
    # star inputs: bound as the (empty) vararg tuple; bind it to a caller-owned origin instead and run again
    va = node.args.vararg.arg if node.args.vararg else None
    res.require(va is not None, "anchor vanished: *inputs of _validate_getBH_inputs")
    import absint
    arepo = absint.ARepo(common_repo())
    from origdom import OriginDomain
    d2 = OriginDomain(); itp = absint.Interp(arepo, d2); itp.tolerant = True
    mod = arepo.module(m)
    f = absint.FuncRef(mod, node, name="_validate_getBH_inputs")
    out = itp.call_func(f, [O({"A:self"}), O({"P:input0"}), O({"P:input1"})], {}, node)
    parts = out.items if isinstance(out, Seq) and len(out.items) == 2 else None
    res.require(parts is not None, f"W1b: return value of _validate_getBH_inputs not followed ({out!r})")
    for label, v in zip(("sources", "observers"), parts):
        orgs = set(org_of(v))
        ok = "fresh" not in orgs and bool(orgs & {"A:self", "P:input0", "P:input1"})
        res.ob(f"W1b:{label} handed on as given", ok, {"rule": "W1b", "value": label, "origins": sorted(orgs)})
        if not ok:
            res.add(Finding("W1b", "magpylib/_src/obj_classes/class_Collection.py", "BaseCollection._validate_getBH_inputs", f"returned {label}: origins {sorted(orgs)}",
                            f"the {label} handed to getBH_level2 may be a newly built list (e.g. the inputs run through a flattener): Collections among them lose their "
                            "identity as one entry, so coll.getB(src_col, s) returns one row per leaf source instead of one per input"))


def common_repo():
    import common
    return common.REPO


def run(repo, res, tier):
    res.rules = ["W1 wrapper family + chain forwarding", "W1b method forms hand inputs on as given", "W2 rank table vs signatures and validators", "W3 core exports", "W4 rows of all level-1 inputs enumerate (source, path, pixel) alike (layout typing)", "W5 core functions leave their arguments unchanged",
                 "W6 memoising getters are invalidated by every writer of their inputs", "W7 superposed sibling calls agree", "W8 dataframe / output axis order (layout typing)"]
    w1(repo, res)
    w1b(repo, res)
    w2(repo, res)
    w3(repo, res)
    w4(repo, res)
    import origin_rules
    origin_rules.core_mutations(repo, res, rule="W5")
    import rules_memo
    rules_memo.run(repo, res, rule="W6")
    import rules_sibling
    rules_sibling.run(repo, res, "W7")
    import lay_rules
    lay_rules.analysis_c(res, "W8")
    return {}


MANIFEST = {
    "category": "other",
    "text": "Static decision of the marshalling clauses of C07: all 16 getB/getH/getJ/getM wrappers forward their parameters and the right field literal "
            "into the single computation getBH_level2 (and the chain down to level 1 forwards same-named parameters), the functional interface's rank "
            "table agrees with each field function's signature and with the rank implied by each attribute's validator (every registered class, every "
            "parameter), magpylib.core exports are the functions the class wrappers call, and position/orientation are tiled identically. "
            "Value equality and dataframe ordering are not decided. Round 3: memoising getters are invalidated by every writer of their inputs (W6), the full-turn CylinderSegment fallback combines sibling cylinder calls of the same shape (W7), rows handed to level 1 enumerate (source, path, pixel) alike (W4, layout typing) and the dataframe index enumerates (source, path, sensor, pixel) in the order of the value rows (W8). Rounds 4-5: the method forms hand sources/observers on as given (W1b, ORIGIN); a memo whose input is handed out by reference is refused (W6).",
    "design_ref": "DESIGN.md §3 C07",
    "note": "Trusted: python ast; the rank of TriangularMesh.mesh (n,3,3) is declared; validators recognised by name.",
    "technique": "static analysis: table/sibling cross-checking over resolved signatures, literals and call sites",
}
