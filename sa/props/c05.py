"""C05 - superposition: fields are linear in the excitation (the clause decided here).

  necessary   every field function's B and H have excitation degree exactly 1 (DIM X-exponent)            -> VIOLATION if not
  sufficient  LIN class of B and H is `Lin` (linear form with excitation-free coefficients)                -> proved
              `Affine` (an excitation-free term added to a linear one / masked fill with a non-zero const) -> VIOLATION
              `NonLin` with degree 1 (magnitude/angle decompositions)                                      -> undecided, exit 0
Structure of the two summations in getBH_level2 (necessary conditions, not the index arithmetic for all inputs):
  SUM-AXIS   `if sumup:` reduces axis 0 of the result
  SUM-ORDER  no pixel aggregation call is reachable after the sumup reduction (typestate over the function's flow)
  SUM-SLICE  the collection loop sums `B[i : i+L]` into row i and deletes rows `i+1 : i+L` of axis 0, with L computed by the same
             flattener call (callee, keywords) that built the rows in format_src_inputs; another form is reported undecided
  SUM-OFFSET a loop-carried offset that is added to the loop index to address rows must accumulate (rules_offset.py)
  SUM-SIBLING field-function results that are added/subtracted into one array (hollow cylinder = outer - inner) are built by
             calls of the same shape (rules_sibling.py)
  MEMO       getters of the collection classes that memoise flattened views need invalidation (rules_memo.py)
Not decided: that the index arithmetic is right for every arrangement of collections (runtime sizes).
"""
from __future__ import annotations

import ast

import dim_rules
from common import AnalysisError, Finding, norm
from flow import BaseClient, function_exits
from repo import call_name, kw, walk_with_callees

EXPLANATION = ("abstract interpretation of every registered field function with the excitation tagged: degree of B and H in the excitation "
               "must be exactly 1 (necessary) and the linearity class is computed (Lin proved / Affine violation / NonLin undecided). "
               "Decides linearity in the excitation only; collection summation index logic is not decided.")


W = "magpylib._src.fields.field_wrap_BH"
WREL = "magpylib/_src/fields/field_wrap_BH.py"


def _is_sum_axis0(v, target):
    """np.sum(<target>, axis=0, ..) / <target>.sum(axis=0, ..) -> axis node or None"""
    if not isinstance(v, ast.Call):
        return None
    f = v.func
    if isinstance(f, ast.Attribute) and f.attr in ("sum", "nansum"):
        if isinstance(f.value, ast.Name) and f.value.id == "np" and v.args and ast.unparse(v.args[0]) == target:
            return kw(v, "axis", v.args[1] if len(v.args) > 1 else ast.Constant(None))
        if ast.unparse(f.value) == target:
            return kw(v, "axis", v.args[0] if v.args else ast.Constant(None))
    return None


class _OrderClient(BaseClient):
    """typestate: once the sum over sources (sumup) has been taken, no non-linear per-source step (pixel_agg) may follow; and once the
    pixels have been aggregated, no collection rows may be summed any more (a Collection is ONE source: its children are added up
    before anything non-linear is applied to its field)"""
    def __init__(self, sum_stmts, agg_name, col_stmts=()):
        self.sum_stmts, self.agg_name, self.bad, self.col_stmts, self.bad_col = sum_stmts, agg_name, [], set(col_stmts), []

    def call_may_raise(self, call):
        return False

    def _has_agg(self, s):
        return any(isinstance(c, ast.Call) and isinstance(c.func, ast.Name) and c.func.id == self.agg_name for c in ast.walk(s))

    def transfer(self, s, S):
        if "SUMMED" in S and self._has_agg(s) and s not in self.bad:
            self.bad.append(s)
        if "AGGREGATED" in S and id(s) in self.col_stmts and s not in self.bad_col:
            self.bad_col.append(s)
        if self._has_agg(s):
            S = S | {"AGGREGATED"}
        if id(s) in self.sum_stmts:
            S = S | {"SUMMED"}
        return S


def level2_superposition(repo, res):
    """SUM-AXIS / SUM-ORDER / SUM-SLICE: structure of the two summations in getBH_level2"""
    fn = repo.func(W, "getBH_level2")
    # ---- sumup: `if sumup: B = np.sum(B, axis=0, ..)`
    sum_stmts = {}
    for n in ast.walk(fn):
        if isinstance(n, ast.If) and any(isinstance(x, ast.Name) and x.id == "sumup" for x in ast.walk(n.test)):
            for s in n.body:
                if isinstance(s, ast.Assign) and len(s.targets) == 1 and isinstance(s.targets[0], ast.Name):
                    ax = _is_sum_axis0(s.value, s.targets[0].id)
                    if ax is not None:
                        sum_stmts[id(s)] = (s, ax)
    res.require(sum_stmts, "anchor vanished: no `if sumup: B = np.sum(B, axis=..)` reduction in getBH_level2")
    for s, ax in sum_stmts.values():
        plain = getattr(s.value.func, "attr", "") == "sum"
        res.ob(f"SUM-KIND:{norm(s)}", plain, {"rule": "SUM-KIND", "stmt": norm(s)}, nontrivial=False)
        if not plain:
            res.add(Finding("SUM-KIND", WREL, "getBH_level2", s, "sumup uses a nan-ignoring sum: where one source's field is undefined (nan at a Triangle corner / mesh vertex) "
                            "sumup=True returns the field of the remaining sources, unlike the sum of the sumup=False result and unlike a Collection of the same sources", s.lineno))
        ok = isinstance(ax, ast.Constant) and ax.value == 0
        res.ob(f"SUM-AXIS:{norm(s)}", ok, {"rule": "SUM-AXIS", "stmt": norm(s), "axis": ast.unparse(ax)})
        if not ok:
            res.add(Finding("SUM-AXIS", WREL, "getBH_level2", s, "sumup must reduce the source axis (axis 0 of the (source, path, sensor, pixel.., 3) result)", s.lineno))
    agg = None
    for n in ast.walk(fn):
        if isinstance(n, ast.Assign) and isinstance(n.value, ast.Call) and call_name(n.value) == "check_format_pixel_agg" and isinstance(n.targets[0], ast.Name):
            agg = n.targets[0].id
    res.require(agg, "anchor vanished: pixel_agg resolver call in getBH_level2")
    # statements that add up rows of one Collection: `<arr>[i] = np.sum(<arr>[..], axis=0)` / np.add.reduceat under an isinstance(.., Collection) test
    col_stmts = set()
    for iff in ast.walk(fn):
        if isinstance(iff, ast.If) and "Collection" in ast.unparse(iff.test) and "isinstance" in ast.unparse(iff.test):
            for s_ in ast.walk(iff):
                if isinstance(s_, ast.Assign) and isinstance(s_.value, ast.Call) and call_name(s_.value) in ("sum", "reduceat"):
                    col_stmts.add(id(s_))
    c = _OrderClient(sum_stmts, agg, col_stmts)
    exits, nst = function_exits(fn, c)
    res.ob("SUM-ORDER:collection rows summed before pixel_agg", not c.bad_col, {"rule": "SUM-ORDER", "collection_sum_statements": len(col_stmts)})
    for s_ in c.bad_col:
        res.add(Finding("SUM-ORDER", WREL, "getBH_level2", s_, "the children of a Collection are added up after the pixel aggregation: a Collection is one source, "
                        "for reducers such as min/max/std agg(sum of children) != sum of agg(child)", s_.lineno))
    n_agg = sum(1 for x in ast.walk(fn) if isinstance(x, ast.Call) and isinstance(x.func, ast.Name) and x.func.id == agg)
    res.require(n_agg >= 1, "anchor vanished: pixel aggregation call sites")
    res.ob("SUM-ORDER:sumup after pixel_agg", not c.bad, {"rule": "SUM-ORDER", "aggregation_sites": n_agg, "statements": nst, "sumup_statements": len(sum_stmts)})
    for s in c.bad:
        res.add(Finding("SUM-ORDER", WREL, "getBH_level2", s, "pixel aggregation is applied after the sum over sources: for reducers such as min/max/std "
                        "agg(sum_i B_i) != sum_i agg(B_i), so sumup=True is no longer the sum of the sumup=False result", s.lineno))
    # ---- collection rows: B[i] = np.sum(B[i:i+L], axis=0); B = np.delete(B, np.s_[i+1:i+L], 0)
    forms = 0
    def is_coll_test(t, src_):
        return isinstance(t, ast.Call) and call_name(t) == "isinstance" and len(t.args) == 2 and ast.unparse(t.args[0]) == src_ and "Collection" in ast.unparse(t.args[1])

    def instances():
        """(loop, statements run once per Collection entry, row index, entry variable, pre-bound lengths)"""
        for loop in ast.walk(fn):
            if isinstance(loop, ast.For) and isinstance(loop.iter, ast.Call) and call_name(loop.iter) == "enumerate" \
                    and isinstance(loop.target, ast.Tuple) and len(loop.target.elts) == 2:
                i, src = (ast.unparse(e) for e in loop.target.elts)
                for cond in ast.walk(loop):
                    if isinstance(cond, ast.If) and is_coll_test(cond.test, src):
                        yield loop, cond.body, i, src, {}
            # two-pass form: D = {i: len(<flattening>(src)) for i, src in enumerate(sources) if isinstance(src, Collection)} ; for i, L in D.items(): ...
            if isinstance(loop, ast.For) and isinstance(loop.iter, ast.Call) and isinstance(loop.iter.func, ast.Attribute) and loop.iter.func.attr == "items" \
                    and isinstance(loop.iter.func.value, ast.Name) and isinstance(loop.target, ast.Tuple) and len(loop.target.elts) == 2 \
                    and all(isinstance(e, ast.Name) for e in loop.target.elts):
                defs = [a.value for a in ast.walk(fn) if isinstance(a, ast.Assign) and len(a.targets) == 1 and isinstance(a.targets[0], ast.Name)
                        and a.targets[0].id == loop.iter.func.value.id]
                if len(defs) == 1 and isinstance(defs[0], ast.DictComp) and len(defs[0].generators) == 1:
                    dc, g = defs[0], defs[0].generators[0]
                    if isinstance(g.iter, ast.Call) and call_name(g.iter) == "enumerate" and isinstance(g.target, ast.Tuple) and len(g.target.elts) == 2 \
                            and isinstance(dc.key, ast.Name) and dc.key.id == ast.unparse(g.target.elts[0]) and len(g.ifs) == 1 \
                            and is_coll_test(g.ifs[0], ast.unparse(g.target.elts[1])):
                        yield loop, loop.body, loop.target.elts[0].id, ast.unparse(g.target.elts[1]), {loop.target.elts[1].id: dc.value}

    for loop, body_stmts, i, src, pre in instances():
        if True:
            # symbolic bounds: every local assigned in the branch is a linear form over the row index and `len(<flattening call>)`
            env, flats = {}, {}

            def lin(e):
                """-> {symbol: coeff} (symbol '' = constant) or None"""
                if isinstance(e, ast.Constant) and isinstance(e.value, int) and not isinstance(e.value, bool):
                    return {"": e.value}
                if isinstance(e, ast.Name):
                    if e.id in env:
                        return env[e.id]
                    return {e.id: 1}
                if isinstance(e, ast.Call) and call_name(e) == "len" and e.args and isinstance(e.args[0], ast.Call):
                    k = "len:" + norm(e.args[0])
                    flats[k] = e.args[0]
                    return {k: 1}
                if isinstance(e, ast.BinOp) and isinstance(e.op, (ast.Add, ast.Sub)):
                    a, b = lin(e.left), lin(e.right)
                    if a is None or b is None:
                        return None
                    sg = 1 if isinstance(e.op, ast.Add) else -1
                    out = dict(a)
                    for k, v in b.items():
                        out[k] = out.get(k, 0) + sg * v
                    return {k: v for k, v in out.items() if v or k == ""} or {"": 0}
                return None

            def clean(d):
                return None if d is None else {k: v for k, v in d.items() if v}

            for nm_, e_ in pre.items():
                env[nm_] = lin(e_)
            store = delete = None
            for s in body_stmts:
                if isinstance(s, ast.Assign) and len(s.targets) == 1 and isinstance(s.targets[0], ast.Name) and lin(s.value) is not None \
                        and not (isinstance(s.value, ast.Call) and call_name(s.value) in ("delete", "np.delete")):
                    env[s.targets[0].id] = lin(s.value)
                if isinstance(s, ast.Assign) and isinstance(s.targets[0], ast.Subscript) and isinstance(s.value, ast.Call) and call_name(s.value) in ("sum", "np.sum"):
                    store = s
                if isinstance(s, ast.Assign) and isinstance(s.value, ast.Call) and call_name(s.value) in ("delete", "np.delete"):
                    delete = s
            if not (store is not None and delete is not None):
                continue
            forms += 1
            probs = []
            B = ast.unparse(store.targets[0].value)
            if clean(lin(store.targets[0].slice)) != {i: 1}:
                probs.append((store, f"the collection's sum is written to row `{ast.unparse(store.targets[0].slice)}`, not to the collection's own row `{i}`"))
            arg = store.value.args[0] if store.value.args else None
            if isinstance(arg, ast.Name):
                # `rows = B[i : i + L]` ... `np.sum(rows, axis=0)`: the slice through its local name
                ds_ = [s_.value for s_ in body_stmts if isinstance(s_, ast.Assign) and len(s_.targets) == 1 and isinstance(s_.targets[0], ast.Name) and s_.targets[0].id == arg.id]
                if len(ds_) == 1 and isinstance(ds_[0], ast.Subscript):
                    arg = ds_[0]
            ax = kw(store.value, "axis", store.value.args[1] if len(store.value.args) > 1 else None)
            hi = clean(lin(arg.slice.upper)) if isinstance(arg, ast.Subscript) and isinstance(arg.slice, ast.Slice) and arg.slice.upper is not None else None
            lens = [k for k in (hi or {}) if k.startswith("len:")]
            L = lens[0] if len(lens) == 1 else None
            flat = flats.get(L)
            if not (isinstance(arg, ast.Subscript) and ast.unparse(arg.value) == B and isinstance(arg.slice, ast.Slice)
                    and arg.slice.lower is not None and clean(lin(arg.slice.lower)) == {i: 1}
                    and L is not None and hi == {i: 1, L: 1} and arg.slice.step is None):
                probs.append((store, f"the summed rows must be exactly `{B}[{i} : {i} + <number of flattened sources>]` (the collection's flattened sources start at its own row)"))
            if not (isinstance(ax, ast.Constant) and ax.value == 0):
                probs.append((store, "the collection rows are summed along the source axis (axis=0)"))
            dv = delete.value
            dsl = dv.args[1] if len(dv.args) > 1 else None
            dax = kw(dv, "axis", dv.args[2] if len(dv.args) > 2 else None)
            if isinstance(dsl, ast.Subscript) and ast.unparse(dsl.value) == "np.s_":
                dsl = dsl.slice
            elif isinstance(dsl, ast.Call) and call_name(dsl) == "slice" and len(dsl.args) == 2:
                dsl = ast.Slice(lower=dsl.args[0], upper=dsl.args[1], step=None)
            if not (ast.unparse(delete.targets[0]) == B and dv.args and ast.unparse(dv.args[0]) == B and isinstance(dsl, ast.Slice)
                    and dsl.lower is not None and clean(lin(dsl.lower)) == {i: 1, "": 1}
                    and dsl.upper is not None and L is not None and clean(lin(dsl.upper)) == {i: 1, L: 1} and dsl.step is None
                    and isinstance(dax, ast.Constant) and dax.value == 0):
                probs.append((delete, f"the removed rows must be exactly `{i} + 1 : {i} + <number of flattened sources>` of axis 0 (all rows of the collection but its own)"))
            if flat is None:
                res.ob(f"SUM-SLICE:{norm(store)}", not probs, {"rule": "SUM-SLICE", "loop": norm(loop.iter), "store": norm(store), "delete": norm(delete)})
                for node, msg in probs:
                    res.add(Finding("SUM-SLICE", WREL, "getBH_level2", node, msg, node.lineno))
                continue
            if delete.lineno < store.lineno:
                probs.append((delete, "rows are removed before they are summed"))
            # the length must come from the flattener that built the rows (format_src_inputs)
            fsi = repo.func("magpylib._src.utility", "format_src_inputs")
            # the flattening may be delegated to a helper of format_src_inputs
            fsi_nodes = list(walk_with_callees(repo, repo.mod("magpylib._src.utility"), fsi, 2, skip=("format_obj_input", "check_format_input_obj")))
            built = [c2 for c2 in fsi_nodes if isinstance(c2, ast.Call) and call_name(c2) == call_name(flat)]
            same = [c2 for c2 in built if [ast.unparse(k.value) for k in c2.keywords] == [ast.unparse(k.value) for k in flat.keywords]]
            if not (ast.unparse(flat.args[0]) == src if flat.args else False) or not same:
                probs.append((flat, f"the number of rows of a collection ({norm(flat)}) is not computed by the flattener call that built the rows in format_src_inputs"))
            res.ob(f"SUM-SLICE:{norm(store)}", not probs, {"rule": "SUM-SLICE", "loop": norm(loop.iter), "store": norm(store), "delete": norm(delete), "length": norm(flat)})
            for node, msg in probs:
                res.add(Finding("SUM-SLICE", WREL, "getBH_level2", node, msg, node.lineno))
    # SUM-LEN: wherever a Collection's number of rows is computed (any form of the reduction), it is the length of the same flattening
    #          that built the rows - `len(col)` counts direct children only (a nested collection is one child, many rows)
    fsi = repo.func("magpylib._src.utility", "format_src_inputs")
    fsi_nodes = list(walk_with_callees(repo, repo.mod("magpylib._src.utility"), fsi, 2, skip=("format_obj_input", "check_format_input_obj")))
    flatteners = {(call_name(c2), tuple(ast.unparse(k.value) for k in c2.keywords)) for iff in fsi_nodes if isinstance(iff, ast.If)
                  and "Collection" in ast.unparse(iff.test) for c2 in ast.walk(ast.Module(body=iff.body, type_ignores=[]))
                  if isinstance(c2, ast.Call) and c2.args and isinstance(c2.args[0], ast.Name) and (c2.keywords or len(c2.args) > 1)}
    res.require(flatteners, "anchor vanished: the flattening call for Collection entries in format_src_inputs")
    n_len = 0
    guarded = []        # (test, what is evaluated when the entry is a Collection)
    for cond in ast.walk(fn):
        if isinstance(cond, (ast.If, ast.IfExp)) and "isinstance" in ast.unparse(cond.test) and "Collection" in ast.unparse(cond.test):
            guarded.append((cond.test, cond.body if isinstance(cond, ast.IfExp) else ast.Module(body=cond.body, type_ignores=[])))
        if isinstance(cond, (ast.ListComp, ast.DictComp, ast.SetComp, ast.GeneratorExp)):
            for g_ in cond.generators:
                for t_ in g_.ifs:
                    if "isinstance" in ast.unparse(t_) and "Collection" in ast.unparse(t_):
                        parts_ = [cond.key, cond.value] if isinstance(cond, ast.DictComp) else [cond.elt]
                        guarded.append((t_, ast.Module(body=[ast.Expr(value=x) for x in parts_], type_ignores=[])))
    for test_, body in guarded:
        tested = {x.id for x in ast.walk(test_) if isinstance(x, ast.Name)} - {"isinstance", "Collection"}
        for c in ast.walk(body):
            if isinstance(c, ast.Call) and call_name(c) == "len" and c.args and any(isinstance(x, ast.Name) and x.id in tested for x in ast.walk(c.args[0])):
                n_len += 1
                a = c.args[0]
                ok = isinstance(a, ast.Call) and (call_name(a), tuple(ast.unparse(k.value) for k in a.keywords)) in flatteners
                res.ob(f"SUM-LEN:{norm(c)}", ok, {"rule": "SUM-LEN", "length": norm(c), "flatteners_in_format_src_inputs": sorted(f[0] or "" for f in flatteners)})
                if not ok:
                    res.add(Finding("SUM-LEN", WREL, "getBH_level2", c, f"the number of rows of a Collection is taken as `{norm(c)}`, not as the length of the flattening that built "
                                    "the rows in format_src_inputs: a nested collection is one child but several rows, so later entries are summed into the wrong rows", c.lineno))
    res.require(n_len >= 1, "anchor vanished: no per-collection row count in getBH_level2")
    if not forms:
        res.undecided.append("SUM-SLICE: the collection row summation in getBH_level2 is not in the recognised sum-slice/delete-slice form; its index logic is not decided")
    import rules_memo
    rules_memo.run(repo, res, rule="MEMO", modfilter=lambda m: m.endswith("class_Collection"))
    import rules_offset
    rules_offset.run(repo, res, "SUM-OFFSET", [W, "magpylib._src.utility"])
    import rules_sibling
    rules_sibling.run(repo, res, "SUM-SIBLING")
    return forms


def lin_cond(repo, res):
    """LIN-COND: direction angles of an excitation vector are obtained with arctan2, never with arccos / arcsin of a normalised
    component: near +-1 these lose half of the digits (d arccos(x) / dx -> infinity), a transversal part below ~1e-8 of a nearly axial
    polarization vanishes, so B(Ja + Jb) != B(Ja) + B(Jb).  Scanned: the numerical layer and every repo function it imports by name."""
    todo, seen = [], set()
    for m in repo.mods.values():
        if m.name.startswith("magpylib._src.fields.") and not m.name.endswith("field_wrap_BH"):
            for f in m.funcs.values():
                todo.append((m, f))
    n = 0
    while todo:
        m, f = todo.pop()
        if (m.name, f.name) in seen:
            continue
        seen.add((m.name, f.name))
        n += 1
        for c in ast.walk(f):
            if isinstance(c, ast.Call):
                nm = call_name(c)
                if nm in ("arccos", "arcsin", "acos", "asin"):
                    res.add(Finding("LIN-COND", m.rel, f.name, c, "arccos/arcsin of a normalised component on the field path: ill conditioned near +-1, small components of the "
                                    "excitation are distorted or lost (use arctan2)", c.lineno))
                if isinstance(c.func, ast.Name):
                    r = repo.resolve_name(m, c.func.id)
                    if r and r[0] == "func" and not r[1].name.startswith("magpylib._src.fields."):
                        todo.append((r[1], r[2]))
    res.ob("LIN-COND:no arccos/arcsin on the field path", not any(f.rule == "LIN-COND" for f in res.findings), {"rule": "LIN-COND", "functions_scanned": n}, nontrivial=False)
    res.require(n >= 40, f"LIN-COND: only {n} functions of the numerical layer scanned")


def run(repo, res, tier):
    res.rules = ["excitation degree of B,H == 1", "LIN class: Lin proved, Affine violation, NonLin undecided",
                 "SUM-AXIS/SUM-ORDER: sumup reduces axis 0 after pixel aggregation", "SUM-SLICE: collection rows summed and removed consistently", "SUM-LEN: collection row counts come from the flattener",
                 "MEMO: flattened collection views are not memoised without invalidation",
                 "LIN-COND: no arccos/arcsin of excitation components", "SUM-OFFSET: loop-carried row offsets accumulate", "SUM-SIBLING: superposed sibling calls agree"]
    level2_superposition(repo, res)
    lin_cond(repo, res)
    results = dim_rules.run_fields(fields="BH")
    res.require(len(results) >= 20, f"only {len(results)} runs: registry anchors changed")
    errors = []
    for r in results:
        res.evaluations += r["nexpr"]
        if r.get("undecided"):
            u = f"DIM-UNDECIDED {r['entry']}/{r['field']}: a construct outside the typed fragment ({r['undecided'][:90]}); nothing claimed for this entry"
            if u not in res.undecided:
                res.undecided.append(u)
            if not isinstance(r.get("dim"), tuple):
                continue
        if r["error"]:
            errors.append(f"{r['entry']}/{r['field']}: {r['error']}")
            continue
        xdeg = r["dim"][1] if r["dim"] else None
        ok = xdeg == 1
        lin = r["lin"]
        res.ob(f"deg:{r['entry']}/{r['field']}", ok and lin != "A",
               {"entry": r["entry"], "field": r["field"], "function": r["function"], "excitation_degree": str(xdeg), "lin_class":
                {"L": "Lin (proved)", "N": "NonLin (undecided)", "A": "Affine", "C": "Const", "0": "zero"}.get(lin, lin),
                "typed_expressions": r["nexpr"]})
        mod = r["module"].split(".")[-1] + ".py"
        if not ok:
            res.add(Finding("excitation-degree", mod, r["function"], f"field={r['field']} returns {r['out']}",
                            f"degree in the excitation is {xdeg}, must be 1 for {r['entry']}"))
        elif lin == "A":
            res.add(Finding("affine", mod, r["function"], f"field={r['field']} is affine in the excitation",
                            "an excitation-free term is added to (or filled into) the result: not linear unless that term is identically zero"))
        elif lin in ("C", "0"):
            res.add(Finding("excitation-free", mod, r["function"], f"field={r['field']} does not depend on the excitation", f"{r['entry']}"))
        elif lin == "N":
            res.undecided.append(f"LINEARITY-UNDECIDED class={r['entry']} field={r['field']}: degree 1 but the derivation uses a nonlinear "
                                 "decomposition of the excitation (magnitude/angles); truly linear or not is not visible to the lattice")
    # sums/stores/comparisons that combine different powers of the excitation (a term lost or gained an excitation factor)
    import re
    seen = set()
    for r in results:
        for fd in r["findings"]:
            if fd.kind not in ("add-mismatch", "store-mismatch", "join-mismatch", "cmp-mismatch", "abs-offset"):
                continue
            ds = re.findall(r"D\(([^)]*)\)", fd.msg)
            xs = [re.search(r"X(\^(-?[\d/]+))?", d) for d in ds]
            px = [("0" if m is None else (m.group(2) or "1")) for m in xs]
            if len(px) >= 2 and len(set(px[:2])) > 1 and fd.key() not in seen:
                seen.add(fd.key())
                res.add(Finding("excitation-mismatch", fd.module + ".py", fd.func, fd.node,
                                f"combines terms of different degree in the excitation ({fd.msg}): the result is not linear", getattr(fd.node, "lineno", None)))
    if errors and not res.new_findings():
        raise AnalysisError("construct outside the modelled fragment: " + " | ".join(errors[:3]))
    res.notes += errors
    res.assumptions += ["zero tests on the excitation (`pol == 0` masks returning 0) are linearity preserving",
                        "summarised callees cel/cel_iter/el3_angle: excitation-free if all arguments are"]
    return {}


MANIFEST = {
    "category": "other",
    "text": "Static decision of the linearity-in-excitation clause: every field function is interpreted with the excitation tagged; B and H must have "
            "excitation degree exactly 1 (a necessary condition whose failure is a violation) and are proved linear where the derivation is a linear "
            "form with excitation-free coefficients (9 of 11 entry points today; Cylinder-diametral and CylinderSegment are reported undecided). "
            "The collection/sumup summation clause quantifies over runtime sizes and is not decided. Round 3: structure of the two summations in getBH_level2 - sumup reduces axis 0 and no pixel aggregation follows it (typestate), the collection loop sums/deletes consistent row slices with the length from the flattener that built the rows, loop-carried row offsets accumulate, superposed sibling calls (hollow cylinder) agree, flattened collection views are not memoised without invalidation. Rounds 4-5: SUM-ORDER for Collections, SUM-LEN, SUM-KIND (plain sum), LIN-COND (no arccos/arcsin on the field path). Round 6-7: see C06 for IDX-SPACE / LOST-WRITE, which also cover the superposition plumbing of the numerical layer.",
    "design_ref": "DESIGN.md §3 C05",
    "note": "Trusted: abstract interpreter + NumPy transfer table; declared excitation parameters (polarization, current, moment).",
    "technique": "static analysis: abstract interpretation with a linearity lattice (Const/Lin/Affine/NonLin) over the dimension lattice",
}
