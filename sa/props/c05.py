"""C05 - superposition: fields are linear in the excitation (the clause decided here).

  necessary   every field function's B and H have excitation degree exactly 1 (DIM X-exponent)            -> VIOLATION if not
  sufficient  LIN class of B and H is `Lin` (linear form with excitation-free coefficients)                -> proved
              `Affine` (an excitation-free term added to a linear one / masked fill with a non-zero const) -> VIOLATION
              `NonLin` with degree 1 (magnitude/angle decompositions)                                      -> undecided, exit 0
Not decided: summation over collection slices and `sumup` index logic in getBH_level2 (sizes and positions of collections
are runtime values) - the part of C05 about collections stays undecided by this technique.
"""
from __future__ import annotations

import dim_rules
from common import AnalysisError, Finding

EXPLANATION = ("abstract interpretation of every registered field function with the excitation tagged: degree of B and H in the excitation "
               "must be exactly 1 (necessary) and the linearity class is computed (Lin proved / Affine violation / NonLin undecided). "
               "Decides linearity in the excitation only; collection summation index logic is not decided.")


def run(repo, res, tier):
    res.rules = ["excitation degree of B,H == 1", "LIN class: Lin proved, Affine violation, NonLin undecided"]
    results = dim_rules.run_fields(fields="BH")
    res.require(len(results) >= 20, f"only {len(results)} runs: registry anchors changed")
    errors = []
    for r in results:
        res.evaluations += r["nexpr"]
        if r["error"]:
            errors.append(f"{r['entry']}/{r['field']}: {r['error']}")
            continue
        xdeg = r["dim"][1] if r["dim"] else None
        ok = xdeg == 1
        lin = r["lin"]
        res.ob(f"deg:{r['entry']}/{r['field']}", ok and lin != "A",
               {"entry": r["entry"], "field": r["field"], "function": r["function"], "excitation_degree": str(xdeg), "lin_class":
                {"L": "Lin (proved)", "N": "NonLin (undecided)", "A": "Affine", "C": "Const", "0": "zero"}.get(lin, lin),
                "typed_expressions": r["nexpr"]})
        mod = r["module"].split(".")[-1] + ".py"
        if not ok:
            res.add(Finding("excitation-degree", mod, r["function"], f"field={r['field']} returns {r['out']}",
                            f"degree in the excitation is {xdeg}, must be 1 for {r['entry']}"))
        elif lin == "A":
            res.add(Finding("affine", mod, r["function"], f"field={r['field']} is affine in the excitation",
                            "an excitation-free term is added to (or filled into) the result: not linear unless that term is identically zero"))
        elif lin in ("C", "0"):
            res.add(Finding("excitation-free", mod, r["function"], f"field={r['field']} does not depend on the excitation", f"{r['entry']}"))
        elif lin == "N":
            res.undecided.append(f"LINEARITY-UNDECIDED class={r['entry']} field={r['field']}: degree 1 but the derivation uses a nonlinear "
                                 "decomposition of the excitation (magnitude/angles); truly linear or not is not visible to the lattice")
    # sums/stores/comparisons that combine different powers of the excitation (a term lost or gained an excitation factor)
    import re
    seen = set()
    for r in results:
        for fd in r["findings"]:
            if fd.kind not in ("add-mismatch", "store-mismatch", "join-mismatch", "cmp-mismatch", "abs-offset"):
                continue
            ds = re.findall(r"D\(([^)]*)\)", fd.msg)
            xs = [re.search(r"X(\^(-?[\d/]+))?", d) for d in ds]
            px = [("0" if m is None else (m.group(2) or "1")) for m in xs]
            if len(px) >= 2 and len(set(px[:2])) > 1 and fd.key() not in seen:
                seen.add(fd.key())
                res.add(Finding("excitation-mismatch", fd.module + ".py", fd.func, fd.node,
                                f"combines terms of different degree in the excitation ({fd.msg}): the result is not linear", getattr(fd.node, "lineno", None)))
    if errors and not res.new_findings():
        raise AnalysisError("construct outside the modelled fragment: " + " | ".join(errors[:3]))
    res.notes += errors
    res.assumptions += ["zero tests on the excitation (`pol == 0` masks returning 0) are linearity preserving",
                        "summarised callees cel/cel_iter/el3_angle: excitation-free if all arguments are"]
    return {}


MANIFEST = {
    "category": "other",
    "text": "Static decision of the linearity-in-excitation clause: every field function is interpreted with the excitation tagged; B and H must have "
            "excitation degree exactly 1 (a necessary condition whose failure is a violation) and are proved linear where the derivation is a linear "
            "form with excitation-free coefficients (9 of 11 entry points today; Cylinder-diametral and CylinderSegment are reported undecided). "
            "The collection/sumup summation clause quantifies over runtime sizes and is not decided.",
    "design_ref": "DESIGN.md §3 C05",
    "note": "Trusted: abstract interpreter + NumPy transfer table; declared excitation parameters (polarization, current, moment).",
    "technique": "static analysis: abstract interpretation with a linearity lattice (Const/Lin/Affine/NonLin) over the dimension lattice",
}
