"""C04 - a Sensor reports the global field at its pixels, in its own frame.

Decided clause: frame discipline in getBH_level2 (E2-FRAME):
  F3  pixel observers are  Rot[sens->G].apply(Vec[sens]) + Pt[G] : Pt[G]  built from the same sensor's orientation and position
      path; the field written back for a rotated sensor is  Rot[sens->G].inv().apply(Vec[G]) : Vec[sens]  on every branch;
      every rotation application in the function is judged
  F4  the handedness branch negates exactly component 0 of the last axis and nothing else
  F5  the `unrotated` / `static orientation` fast-path predicates quantify over the whole orientation path
  F6  the left-handed flip precedes pixel aggregation;  F7 it is reached for every sensor (not nested under the rotation test, not
      after a `continue`);  F8 every pixel block goes through the aggregator whatever its size
  F9  a constant index into a pose path (`_orientation[0]`) is used only under a staticness guard (or as `[-1]` padding)
  F11 the aggregator is the NumPy function of exactly the given name: every `getattr(np, X)` in check_format_pixel_agg has X = the
      parameter itself, and the function returned is bound from such a lookup
  F12 handedness domain: the Sensor.handedness setter stores the value its membership test admitted, and every literal the
      attribute is compared with (field code, display) is a member of the admitted set
  F13 no function gathers the sensors of a collection tree level by level from the typed views (row k of the result is sensors_all[k])
Not decided: pixel slice offsets, the `unrotated`/`static` fast-path predicates, pixel_agg axis arithmetic.
"""
import ast

import frame_rules
import rules_domain
from common import AnalysisError, Finding, norm

EXPLANATION = ("coordinate-frame typing of getBH_level2: pixel placement (rotate local offsets, then add the sensor position) and the back-rotation "
               "of the field into the sensor frame must be well typed on every branch; the left-handed flip is the x component only. "
               "Decides direction/order of the sensor transforms, not slice offsets, fast-path predicates or pixel aggregation.")


def f11(repo, res):
    fn = repo.func("magpylib._src.input_checks", "check_format_pixel_agg")
    rel = "magpylib/_src/input_checks.py"
    p = fn.args.args[0].arg
    looks = [c for c in ast.walk(fn) if isinstance(c, ast.Call) and isinstance(c.func, ast.Name) and c.func.id == "getattr"
             and c.args and ast.unparse(c.args[0]) == "np"]
    res.require(looks, "anchor vanished: getattr(np, <pixel_agg>) lookup in check_format_pixel_agg")
    for c in looks:
        ok = len(c.args) >= 2 and isinstance(c.args[1], ast.Name) and c.args[1].id == p
        res.ob(f"F11:{norm(c)}", ok, {"rule": "F11", "lookup": norm(c), "parameter": p})
        if not ok:
            res.add(Finding("F11", rel, "check_format_pixel_agg", c, f"the aggregation function is looked up under a name other than the given `{p}`: "
                            "the result is not the named NumPy reduction of the pixel values", c.lineno))
    bound = {}
    for s in ast.walk(fn):
        if isinstance(s, ast.Assign) and len(s.targets) == 1 and isinstance(s.targets[0], ast.Name):
            bound.setdefault(s.targets[0].id, []).append(s.value)
    for r in [r for r in ast.walk(fn) if isinstance(r, ast.Return) and r.value is not None]:
        v = r.value
        if isinstance(v, ast.Constant) and v.value is None:
            continue
        ok = isinstance(v, ast.Name) and v.id in bound and all(d in looks for d in bound[v.id])
        res.ob(f"F11:return:{norm(r)}", ok, {"rule": "F11", "return": norm(r)})
        if not ok:
            res.add(Finding("F11", rel, "check_format_pixel_agg", r, "the function returned is not (only) the result of the lookup `getattr(np, <given name>)`", r.lineno))


def f12(repo, res):
    n = rules_domain.checked_is_stored(repo, res, "F12", only=lambda q: q.startswith("Sensor.handedness"))
    res.require(n >= 1, "anchor vanished: membership test in the Sensor.handedness setter")
    inst = [i for i in rules_domain.setter_instances(repo) if i[1].startswith("Sensor.handedness")]
    members = rules_domain.literal_members(inst[0][7], repo, inst[0][0])
    cons = rules_domain.consumer_literals(repo, "handedness")
    res.require(len(cons) >= 2, "anchor vanished: comparisons of the handedness attribute (field code and display)")
    for m, q, c, lit_ in cons:
        ok = members is None or lit_ in members
        res.ob(f"F12:consumer:{q}:{norm(c)}", ok, {"rule": "F12", "consumer": q, "comparison": norm(c), "admitted": sorted(members or [])})
        if not ok:
            res.add(Finding("F12", m.rel, q, c, f"handedness is compared with {lit_!r}, which the setter never admits ({sorted(members)})", c.lineno))


def f14_f16(repo, res):
    """F14 per-sensor bookkeeping in getBH_level2 is by position in the sensor list, never by the Sensor object: the same object may be
        listed twice (`[s, s]`, a Collection plus one of its children); a dict / set keyed by the elements collapses the occurrences
    F15 the pixel aggregator is applied once to a block of pixel values, not to its own result in a loop (a median of medians, std of
        stds, ptp of ptps is not the reduction over all pixels)
    F16 check_format_input_observers builds the sensor list in ONE pass over the input, so mixed lists keep their order"""
    W = "magpylib._src.fields.field_wrap_BH"
    fn = repo.func(W, "getBH_level2")
    rel = "magpylib/_src/fields/field_wrap_BH.py"
    svars = {t.elts[0].id for a_ in ast.walk(fn) if isinstance(a_, ast.Assign) and isinstance(a_.value, ast.Call)
             and getattr(a_.value.func, "id", "") == "check_format_input_observers" for t in a_.targets
             if isinstance(t, ast.Tuple) and t.elts and isinstance(t.elts[0], ast.Name)}
    res.require(svars, "anchor vanished: sensors list returned by check_format_input_observers in getBH_level2")
    bad = []
    for n in ast.walk(fn):
        if isinstance(n, ast.DictComp) or isinstance(n, ast.SetComp):
            key = n.key if isinstance(n, ast.DictComp) else n.elt
            for g in n.generators:
                its = {x.id for x in ast.walk(g.iter) if isinstance(x, ast.Name)}
                tg = {x.id for x in ast.walk(g.target) if isinstance(x, ast.Name)}
                if its & svars and isinstance(key, ast.Name) and key.id in tg:
                    # the key is the element drawn from the sensor list (not an index)
                    elem_names = set()
                    if isinstance(g.iter, ast.Name):
                        elem_names = tg
                    elif isinstance(g.iter, ast.Call) and getattr(g.iter.func, "id", "") in ("zip", "enumerate") and isinstance(g.target, ast.Tuple):
                        args = g.iter.args
                        off = 1 if g.iter.func.id == "enumerate" else 0
                        for e, a in zip(g.target.elts[off:], args):
                            if isinstance(a, ast.Name) and a.id in svars and isinstance(e, ast.Name):
                                elem_names.add(e.id)
                    if key.id in elem_names:
                        bad.append(n)
        if isinstance(n, ast.For):
            its = {x.id for x in ast.walk(n.iter) if isinstance(x, ast.Name)}
            if its & svars:
                tg = n.target.elts[-1].id if isinstance(n.target, ast.Tuple) and isinstance(n.target.elts[-1], ast.Name) else (n.target.id if isinstance(n.target, ast.Name) else None)
                for s_ in ast.walk(n):
                    if isinstance(s_, ast.Assign):
                        for t in s_.targets:
                            if isinstance(t, ast.Subscript) and isinstance(t.slice, ast.Name) and t.slice.id == tg and isinstance(t.value, ast.Name):
                                bad.append(s_)
    res.ob("F14:per-sensor bookkeeping by index", not bad, {"rule": "F14", "sensor_list": sorted(svars), "keyed_by_object": [norm(b) for b in bad]})
    for b in bad:
        res.add(Finding("F14", rel, "getBH_level2", b, "per-sensor data is keyed by the Sensor object: a sensor listed twice among the observers has one entry only, so all but one "
                        "of its occurrences are rotated / flipped with the wrong pixel slice or not at all", b.lineno))
    # ---- F15
    agg = None
    for n in ast.walk(fn):
        if isinstance(n, ast.Assign) and isinstance(n.value, ast.Call) and getattr(n.value.func, "id", "") == "check_format_pixel_agg" and isinstance(n.targets[0], ast.Name):
            agg = n.targets[0].id
    res.require(agg, "anchor vanished: pixel_agg resolver call in getBH_level2")
    nested = []
    for loop in ast.walk(fn):
        if isinstance(loop, (ast.For, ast.While)):
            for s_ in ast.walk(loop):
                if isinstance(s_, ast.Assign) and isinstance(s_.value, ast.Call) and getattr(s_.value.func, "id", "") == agg and s_.value.args \
                        and isinstance(s_.value.args[0], ast.Name) and any(isinstance(t, ast.Name) and t.id == s_.value.args[0].id for t in s_.targets):
                    nested.append(s_)
    res.ob("F15:aggregator not applied to its own result", not nested, {"rule": "F15", "aggregator": agg, "iterated_applications": [norm(x) for x in nested]})
    for x in nested:
        res.add(Finding("F15", rel, "getBH_level2", x, "the pixel aggregator is applied repeatedly to its own result (one pixel axis at a time): for median/std/var/ptp the "
                        "reduction of reductions is not the reduction over all pixels of the sensor", x.lineno))
    # ---- F16
    cf = repo.func("magpylib._src.input_checks", "check_format_input_observers")
    p = cf.args.args[0].arg
    rets = [r for r in ast.walk(cf) if isinstance(r, ast.Return) and isinstance(r.value, ast.Tuple) and r.value.elts and isinstance(r.value.elts[0], ast.Name)]
    names = {r.value.elts[0].id for r in rets}
    passes = []
    for n in ast.walk(cf):
        if isinstance(n, (ast.For, ast.comprehension)) and isinstance(n.iter, ast.Name) and n.iter.id == p:
            body = n if isinstance(n, ast.For) else None
            contributes = False
            if body is not None:
                contributes = any(isinstance(c, ast.Call) and getattr(c.func, "attr", "") in ("append", "extend") and isinstance(c.func.value, ast.Name)
                                  and c.func.value.id in names for c in ast.walk(body))
            else:
                contributes = True     # a comprehension over the input that feeds the result is a pass of its own
            if contributes:
                passes.append(n)
    # comprehensions only count when their value reaches the returned list
    passes = [x for x in passes if isinstance(x, ast.For) or any(
        isinstance(a_, ast.Assign) and any(x is g for c in ast.walk(a_.value) if isinstance(c, (ast.ListComp, ast.GeneratorExp)) for g in c.generators) for a_ in ast.walk(cf))]
    # ... and every loop that appends to the returned list is a pass, whatever it iterates (a list of entries set aside in the first loop
    # and converted in a second one moves those entries behind the others)
    parents_ = {}
    for x in ast.walk(cf):
        for ch in ast.iter_child_nodes(x):
            parents_[id(ch)] = x
    for c in ast.walk(cf):
        if isinstance(c, ast.Call) and getattr(c.func, "attr", "") in ("append", "extend", "insert") and isinstance(c.func.value, ast.Name) and c.func.value.id in names:
            q_, outer = parents_.get(id(c)), None
            while q_ is not None:
                if isinstance(q_, ast.For):
                    outer = q_
                q_ = parents_.get(id(q_))
            if outer is not None and not any(outer is x for x in passes):
                passes.append(outer)
    ok = len(passes) <= 1
    res.ob("F16:observers gathered in one pass", ok, {"rule": "F16", "passes_over_the_input": len(passes)})
    if not ok:
        res.add(Finding("F16", "magpylib/_src/input_checks.py", "check_format_input_observers", passes[1] if isinstance(passes[1], ast.For) else cf,
                        f"the observer list is assembled in {len(passes)} passes over the input: entries of one kind are moved in front of the others, so the sensor "
                        "axis of the result no longer follows the order of a mixed [position, Sensor, Collection] list", getattr(passes[1], "lineno", cf.lineno)))


def f18(repo, res):
    """F18 regrouping keeps positions: where getBH_level2 distributes the entries of a sequence into a dictionary of lists under a computed key
    (`groups.setdefault(key, []).append(x)`), the groups are later taken in key order, not in the order of the sequence; the result keeps
    its row order only if every group also records the positions of its members (the source grouping appends the loop index to `order`
    and writes back by it).  A grouping that records no positions permutes the rows (sensors A, B, C with pixel counts 4, 6, 4 come out A, C, B)."""
    fn = repo.func("magpylib._src.fields.field_wrap_BH", "getBH_level2")
    n = 0
    for loop in ast.walk(fn):
        if not isinstance(loop, ast.For):
            continue
        idx_names = set()
        if isinstance(loop.iter, ast.Call) and getattr(loop.iter.func, "id", "") == "enumerate" and isinstance(loop.target, ast.Tuple) and loop.target.elts \
                and isinstance(loop.target.elts[0], ast.Name):
            idx_names.add(loop.target.elts[0].id)
        groupings = []
        # locals of the loop that stand for one group record: `rec = D.setdefault(k, ..)` / `rec = D[k]` / `a, b = D.setdefault(k, ([], []))`
        alias = {}
        for a_ in ast.walk(loop):
            if isinstance(a_, ast.Assign) and len(a_.targets) == 1:
                v_ = a_.value
                d_ = None
                if isinstance(v_, ast.Call) and isinstance(v_.func, ast.Attribute) and v_.func.attr == "setdefault" and isinstance(v_.func.value, ast.Name) and v_.args \
                        and not isinstance(v_.args[0], ast.Constant):
                    d_ = v_.func.value.id
                elif isinstance(v_, ast.Subscript) and isinstance(v_.value, ast.Name) and not isinstance(v_.slice, (ast.Constant, ast.Slice)):
                    d_ = v_.value.id
                if d_:
                    for t_ in ast.walk(a_.targets[0]):
                        if isinstance(t_, ast.Name):
                            alias[t_.id] = d_
        for c in ast.walk(loop):
            if isinstance(c, ast.Call) and isinstance(c.func, ast.Attribute) and c.func.attr in ("append", "extend"):
                recv = c.func.value
                root_ = recv
                while isinstance(root_, (ast.Attribute, ast.Subscript)):
                    root_ = root_.value
                if isinstance(root_, ast.Name) and root_.id in alias:
                    groupings.append((alias[root_.id], c))
                    continue
                # D.setdefault(k, []).append(x)  /  D[k].append(x)  /  D[k]["name"].append(x)
                base = recv
                while isinstance(base, ast.Subscript):
                    base = base.value
                if isinstance(base, ast.Call) and isinstance(base.func, ast.Attribute) and base.func.attr == "setdefault" and isinstance(base.func.value, ast.Name):
                    key, dname = base.args[0] if base.args else None, base.func.value.id
                elif isinstance(recv, ast.Subscript) and isinstance(base, ast.Name) and base is not recv:
                    inner = recv
                    while isinstance(inner.value, ast.Subscript):
                        inner = inner.value
                    key, dname = inner.slice, base.id
                else:
                    continue
                if key is None or isinstance(key, ast.Constant):
                    continue
                groupings.append((dname, c))
        for dname in sorted({d for d, _c in groupings}):
            n += 1
            calls = [c for d, c in groupings if d == dname]
            keeps = any(any(isinstance(x, ast.Name) and x.id in idx_names for a in c.args for x in ast.walk(a)) for c in calls)
            res.ob(f"F18:{dname}", keeps, {"rule": "F18", "grouping": dname, "appends": [norm(c)[:60] for c in calls], "loop_index_recorded": keeps})
            if not keeps:
                res.add(Finding("F18", "magpylib/_src/fields/field_wrap_BH.py", "getBH_level2", calls[0], f"`{dname}` groups the entries of a sequence under a computed key without "
                                "recording their positions: the groups are consumed in key order, so the rows of the result no longer follow the order of the inputs", calls[0].lineno))
    if n == 0:
        res.undecided.append("F18: no dictionary-of-lists grouping recognised in getBH_level2 (the source grouping may live in a helper): nothing judged")


def f17(repo, res):
    """F17 the pixel grid is flattened and restored in one index order: the output is reshaped back to the pixel shape in C order
    (`B.reshape((.., *pix_shape, 3))`), so every flattening of pixel / observer arrays in the level-2 plumbing must be C order as well.
    An `order=` other than "C" (`"A"`, `"K"`, `"F"`) follows the memory layout of the user's array: a Fortran-ordered pixel grid
    (np.mgrid[..].T) then has its pixels permuted in the result."""
    m = repo.mod("magpylib._src.fields.field_wrap_BH")
    n = 0
    for fname, fn in m.funcs.items():
        for c in ast.walk(fn):
            if not (isinstance(c, ast.Call) and (getattr(c.func, "attr", "") in ("reshape", "ravel", "flatten") or getattr(c.func, "id", "") in ("reshape", "ravel"))):
                continue
            n += 1
            order = next((k.value for k in c.keywords if k.arg == "order"), None)
            if order is None and getattr(c.func, "attr", "") in ("ravel", "flatten") and c.args and isinstance(c.args[0], ast.Constant) and isinstance(c.args[0].value, str):
                order = c.args[0]
            ok = order is None or (isinstance(order, ast.Constant) and order.value == "C")
            res.ob(f"F17:{fname}:{norm(c)[:60]}", ok, {"rule": "F17", "function": fname, "call": norm(c)[:80]} if not ok or n % 7 == 0 else None, nontrivial=not ok)
            if not ok:
                res.add(Finding("F17", m.rel, fname, c, "arrays are flattened in a memory-layout dependent order but restored in C order: for a Fortran-ordered pixel / "
                                "observer array the entries of the result belong to other pixels", c.lineno))
    res.require(n >= 8, f"F17: only {n} reshape / ravel / flatten calls found in the level-2 plumbing")


def run(repo, res, tier):
    res.rules = ["F3 pixel placement / back-rotation typing", "F4 handedness flips component 0 only", "F5 path predicates quantify over the path", "F6 flip before aggregation", "F7 flip reached for every sensor", "F8 aggregation unconditional", "F9 constant path index only under a staticness guard", "F11 aggregator lookup by the given name", "F12 handedness domain", "F13 observer collections flattened in sensors_all order", "F14 per-sensor bookkeeping by index", "F15 aggregator applied once", "F16 observers gathered in one pass", "F17 flatten / restore in one index order", "F18 regrouping records positions"]
    extra = frame_rules.c04(repo, res)
    f11(repo, res)
    f12(repo, res)
    f14_f16(repo, res)
    f17(repo, res)
    f18(repo, res)
    from props import c11
    c11.typed_view_flatten(repo, res, "F13")      # observer collections are flattened in sensors_all order (rows of the result)
    res.assumptions += ["declared types: sens.pixel : Vec[sens], sens._orientation : Rot[sens->G], sens._position : Pt[G]; getBH_level1(...) : Vec[G]"]
    return extra


MANIFEST = {
    "category": "other",
    "text": "Static decision of the frame-discipline clause of C04: in getBH_level2 pixel observers are typed as sensor-orientation applied to local "
            "pixel offsets plus sensor position (a global point) and the field is rotated back with the inverse sensor orientation on the static and "
            "the per-path branch alike; the handedness branch flips x only. Slice offsets, the unrotated/static predicates and pixel_agg are not decided. Also decided: the fast-path predicates quantify over the whole orientation path, the left-handed flip precedes pixel aggregation and is reached for every sensor, aggregation is unconditional in the block size, constant path indices occur only under a staticness guard, and no frame change depends on `field`. Round 3: the aggregator is looked up under exactly the given NumPy name (F11) and the handedness setter stores what its membership test admitted, with every consumer literal inside the admitted set (F12). Rounds 4-5: lossy/tolerance predicates anywhere in the fast-path tests (F5), the flip loop runs over all sensors (F7), observer collections are flattened in sensors_all order (F13), per-sensor bookkeeping by index (F14), the aggregator is applied once (F15), observers are gathered in one pass (F16). Round 6: every reshape / ravel of the level-2 plumbing is C order (F17), a grouping of sensors by pixel shape records the positions of its members (F18), observers are gathered in one pass (F16).",
    "design_ref": "DESIGN.md §3 C04",
    "note": "Trusted: FRAME interpreter (tolerant; every `.apply` site must be judged), type declarations, boundary type getBH_level1 -> Vec[G].",
    "technique": "static analysis: abstract interpretation with a coordinate-frame type lattice + def-use of the handedness branch",
}
