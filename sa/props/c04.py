"""C04 - a Sensor reports the global field at its pixels, in its own frame.

Decided clause: frame discipline in getBH_level2 (E2-FRAME):
  F3  pixel observers are  Rot[sens->G].apply(Vec[sens]) + Pt[G] : Pt[G]  built from the same sensor's orientation and position
      path; the field written back for a rotated sensor is  Rot[sens->G].inv().apply(Vec[G]) : Vec[sens]  on every branch;
      every rotation application in the function is judged
  F4  the handedness branch negates exactly component 0 of the last axis and nothing else
  F5  the `unrotated` / `static orientation` fast-path predicates quantify over the whole orientation path
  F6  the left-handed flip precedes pixel aggregation;  F7 it is reached for every sensor (not nested under the rotation test, not
      after a `continue`);  F8 every pixel block goes through the aggregator whatever its size
  F9  a constant index into a pose path (`_orientation[0]`) is used only under a staticness guard (or as `[-1]` padding)
Not decided: pixel slice offsets, the `unrotated`/`static` fast-path predicates, pixel_agg axis arithmetic.
"""
import frame_rules

EXPLANATION = ("coordinate-frame typing of getBH_level2: pixel placement (rotate local offsets, then add the sensor position) and the back-rotation "
               "of the field into the sensor frame must be well typed on every branch; the left-handed flip is the x component only. "
               "Decides direction/order of the sensor transforms, not slice offsets, fast-path predicates or pixel aggregation.")


def run(repo, res, tier):
    res.rules = ["F3 pixel placement / back-rotation typing", "F4 handedness flips component 0 only", "F5 path predicates quantify over the path", "F6 flip before aggregation", "F7 flip reached for every sensor", "F8 aggregation unconditional", "F9 constant path index only under a staticness guard"]
    extra = frame_rules.c04(repo, res)
    res.assumptions += ["declared types: sens.pixel : Vec[sens], sens._orientation : Rot[sens->G], sens._position : Pt[G]; getBH_level1(...) : Vec[G]"]
    return extra


MANIFEST = {
    "category": "other",
    "text": "Static decision of the frame-discipline clause of C04: in getBH_level2 pixel observers are typed as sensor-orientation applied to local "
            "pixel offsets plus sensor position (a global point) and the field is rotated back with the inverse sensor orientation on the static and "
            "the per-path branch alike; the handedness branch flips x only. Slice offsets, the unrotated/static predicates and pixel_agg are not decided. Also decided: the fast-path predicates quantify over the whole orientation path, the left-handed flip precedes pixel aggregation and is reached for every sensor, aggregation is unconditional in the block size, constant path indices occur only under a staticness guard, and no frame change depends on `field`.",
    "design_ref": "DESIGN.md §3 C04",
    "note": "Trusted: FRAME interpreter (tolerant; every `.apply` site must be judged), type declarations, boundary type getBH_level1 -> Vec[G].",
    "technique": "static analysis: abstract interpretation with a coordinate-frame type lattice + def-use of the handedness branch",
}
