"""C12 - results are invariant under the choice of length unit.

Decided clause (main clause): dimensional homogeneity of the whole numerical layer.  With observers/positions/dimensions : L,
angles : 1, excitation : X, mu0 : M the abstract interpreter types every expression of every registered field function
(4 `field` values each) and of the TriangularMesh geometry helpers:
  (a) B and H have length degree 0 (magnets, triangle sheets), -1 (currents), -3 (dipole) and excitation degree 1
  (b) every comparison / isclose / arctan2 / where-branch / store combines equal dimensions or a literal 0 (masks are scale free)
  (c) no `length +- literal`, no transcendental function of a dimensional argument
  (d) the largest |length exponent| of any intermediate stays <= 16
Soundness: a function all of whose operations respect this algebra is positively homogeneous of the inferred degree
(exactly, up to rounding) and all its masks are scale invariant.
Not decided: rounding-level differences between scales; the CylinderSegment log-defect cancellation (assumption).
"""
from __future__ import annotations

import re

import ast

import dim_rules
import common
from common import AnalysisError, Finding, norm

EXPLANATION = ("dimension-typing abstract interpretation (L, excitation, mu0, log-affine flag) of all registered field functions x "
               "{B,H,J,M} and of the mesh geometry helpers; every comparison, mask, sum and transcendental argument must be dimensionally "
               "homogeneous and the returned degree must be 0/-1/-3 in length and 1 in excitation. Decides exact homogeneity of the "
               "formulas and scale-freeness of every branch decision, not rounding effects.")
MAX_EXP = 16
DIM_KINDS = ("abs-offset", "abs-tol", "add-mismatch", "cmp-mismatch", "arctan2-mismatch", "transcendental-arg", "store-mismatch",
             "join-mismatch", "mod-mismatch", "log-misuse", "path-dependent-dimension")


def collect(res, results, geom, want_fields="BH"):
    """shared with C02/C05: turns interpreter results into obligations/findings; returns per-entry summary"""
    summary = []
    errors = []
    for r in results:
        res.evaluations += r["nexpr"]
        if r["error"]:
            errors.append(f"{r['entry']}/{r['field']}: {r['error']}")
    return errors


# reduced-precision sites confirmed by reading: one line of reason each
REDUCED_PRECISION_TRIAGED = {
    ("get_intersecting_triangles",): "KD-tree candidate search of the self-intersection *diagnostic* (status_selfintersecting); never on the field path",
}

def run(repo, res, tier):
    res.rules = ["(a) return degree per class", "(b) homogeneous comparisons/masks", "(c) no length+-literal, dimensionless transcendental args",
                 f"(d) |length exponent| <= {MAX_EXP}", "(e) no decimal rounding of dimensional data", "(f) no reduced-precision casts on the numerical path", "(g) no absolute thresholds on field values in the wrapper"]
    results = dim_rules.run_fields()
    geom = dim_rules.run_geometry()
    res.require(len(results) >= 40, f"only {len(results)} field-function runs (expected >= 40): registry anchors changed")
    errors = []
    seen = set()
    n_find = 0
    for r in results + geom:
        res.evaluations += r["nexpr"]
        for fd in r["findings"]:
            if fd.key() in seen:
                continue
            seen.add(fd.key())
            n_find += 1
            f_ = Finding(fd.kind, fd.module + ".py", fd.func, fd.node, fd.msg, getattr(fd.node, "lineno", None))
            f_.sig = ",".join(sorted(re.findall(r"D\([^)]*\)", fd.msg)))
            try:
                m_ = repo.mods.get(fd.module if fd.module in repo.mods else "magpylib._src.fields." + fd.module.split("/")[-1])
                fn_ = m_.funcs.get(fd.func) if m_ is not None else None
                if fn_ is not None and isinstance(fd.node, ast.AST):
                    f_.set_alt(common.expand_single_defs(fd.node, fn_))
            except Exception:  # noqa - the alternative spelling is optional
                pass
            res.add(f_)
        if r.get("undecided"):
            u = f"DIM-UNDECIDED {r['entry']}/{r.get('field', '-')}: a construct outside the typed fragment ({r['undecided'][:90]}); the typed remainder was judged, the return dimension is not claimed"
            if u not in res.undecided:
                res.undecided.append(u)
        if r["error"]:
            errors.append(f"{r['entry']}/{r.get('field', '-')}: {r['error']}")
    for r in results:
        if r["field"] in "BH":
            name = f"(a):{r['entry']}/{r['field']}"
            ok = r["ok"] and not r["error"]
            res.ob(name, ok, {"entry": r["entry"], "field": r["field"], "function": r["function"], "inferred": r["out"],
                              "expected_(L,X,mu0)": r["expected"], "typed_expressions": r["nexpr"],
                              "max_length_exponent": str(r["maxexp"]), "log_affine": r["la"]})
            if not ok and not r["error"]:
                res.add(Finding("return-degree", r["module"].split(".")[-1] + ".py", r["function"], f"field={r['field']} returns {r['out']}",
                                f"expected (L,X,mu0) exponents {r['expected']} for {r['entry']}"))
            if r["la"]:
                res.assumptions.append(f"{r['entry']}/{r['field']}: result carries a log-affine defect; that the log terms cancel over the "
                                       "8 corners of the segment is a mathematical identity outside the lattice (assumed)")
        ok_d = r["maxexp"] <= MAX_EXP
        res.ob(f"(d):{r['entry']}/{r['field']}", ok_d, None, nontrivial=False)
        if not ok_d:
            res.add(Finding("exponent-bound", r["module"].split(".")[-1] + ".py", r["function"], f"max |L exponent| {r['maxexp']}",
                            f"exceeds {MAX_EXP}: unit choice alone can overflow"))
    for r in geom:
        res.ob(f"(b,c):geometry:{r['entry']}", not r["error"], {"entry": r["entry"], "typed_expressions": r["nexpr"], "findings": len(r["findings"])})
    # (b),(c): one obligation per typed comparison site is too fine to list; count typed expressions instead
    # (e) no decimal rounding of dimensional data outside the display code (np.round(x, k) quantises in absolute units)
    n_round = 0
    for m, qn, fn, cl in repo.all_functions():
        if any(t in m.name for t in (".display", ".style", ".defaults")):
            continue
        for c in ast.walk(fn):
            if isinstance(c, ast.Call) and (getattr(c.func, "attr", "") in ("round", "around", "round_") or getattr(c.func, "id", "") == "round"):
                dec = c.args[1] if len(c.args) > 1 and getattr(c.func, "attr", "") != "" and isinstance(c.func.value, ast.Name) and c.func.value.id == "np" else \
                    (c.args[0] if c.args and getattr(c.func, "attr", "") and not (isinstance(c.func.value, ast.Name) and c.func.value.id == "np") else
                     (c.args[1] if len(c.args) > 1 else None))
                dec = next((k.value for k in c.keywords if k.arg == "decimals"), dec)
                n_round += 1
                ok = dec is None or (isinstance(dec, ast.Constant) and dec.value in (0, None))
                res.ob(f"(e):{qn}:{norm(c)}", ok, {"rule": "(e)", "function": qn, "rounding": norm(c)})
                if not ok:
                    res.add(Finding("abs-quantisation", m.rel, qn, c, "rounding to a fixed number of decimals quantises lengths/fields in absolute units: "
                                    "results change with the choice of unit", c.lineno))
    res.analysed["rounding_calls_outside_display"] = n_round
    # (f) no reduced-precision casts on the numerical path: single precision keeps 7 digits of the *absolute* coordinates (offsets such
    #     as the fixed ray origin of the inside test included), so small bodies lose their geometry while large ones do not
    n_cast = 0
    for m, qn, fn, cl in repo.all_functions():
        if any(t in m.name for t in (".display", ".style", ".defaults")):
            continue
        for c in ast.walk(fn):
            low = (isinstance(c, ast.Attribute) and c.attr in ("float32", "float16", "half", "single")) or \
                  (isinstance(c, ast.Constant) and c.value in ("float32", "float16", "f4", "f2", "single", "half"))
            if not low:
                continue
            n_cast += 1
            ok = (fn.name, ) in REDUCED_PRECISION_TRIAGED
            res.ob(f"(f):{qn}:{fn.name}", ok, {"rule": "(f)", "function": qn, "triaged": REDUCED_PRECISION_TRIAGED.get((fn.name,), None)})
            if not ok:
                res.add(Finding("reduced-precision", m.rel, qn, c, "single/half precision on the numerical path: coordinates keep ~7 digits in absolute terms, so the "
                                "result depends on the scale of the body relative to fixed offsets", c.lineno))
    res.analysed["reduced_precision_casts"] = n_cast
    # (g) the wrapper between the field functions and the user (field_wrap_BH) applies no absolute threshold to field values: a comparison
    #     of an array with a tiny float literal there is a floor / cut-off in tesla or A/m, which fields at large length factors (B ~ s^-3)
    #     or weak excitations fall below
    wm = repo.mod("magpylib._src.fields.field_wrap_BH")
    n_thr = 0
    for q, fn in wm.funcs.items():
        for c in ast.walk(fn):
            if isinstance(c, ast.Compare) and len(c.ops) == 1 and isinstance(c.ops[0], (ast.Lt, ast.LtE, ast.Gt, ast.GtE)):
                for side in (c.left, c.comparators[0]):
                    if isinstance(side, ast.Constant) and isinstance(side.value, float) and 0 < abs(side.value) < 1e-3:
                        n_thr += 1
                        res.add(Finding("abs-threshold", wm.rel, q, c, f"field values are compared with the absolute constant {side.value!r} in the level-2 wrapper: results "
                                        "below it are altered, which depends on the unit / scale of the problem", c.lineno))
    res.ob("(g):no absolute thresholds on field values in field_wrap_BH", n_thr == 0, {"rule": "(g)", "instances": n_thr}, nontrivial=False)
    res.analysed.update({"field_function_runs": len(results), "geometry_helper_runs": len(geom), "dim_findings_distinct": n_find})
    res.assumptions = sorted(set(res.assumptions))
    res.assumptions += ["declared parameter dimensions (dim_rules.PARAM_DIM) are the specification",
                        "literal annotation: 1e-7 in magnet_cylinder_segment_Hfield stands for mu0/4pi",
                        "summarised callees: cel, cel_iter, el3_angle (dimensionless in, dimensionless out), check_field_input"]
    if errors:
        if not res.new_findings():
            raise AnalysisError("construct outside the modelled fragment: " + " | ".join(errors[:3]))
        res.notes += errors
    return {"unsupported": errors}


MANIFEST = {
    "category": "other",
    "text": "Static decision of the main clause of C12 by dimension typing: every expression in the 11 field functions (each of B,H,J,M) and the "
            "mesh geometry helpers is typed over (length, excitation, mu0); B/H must come out with length degree 0/-1/-3 and excitation degree 1, "
            "and every comparison/mask/offset must be dimensionally homogeneous, which makes the formulas exactly homogeneous and every branch "
            "decision scale-free for all inputs and all scale factors at once. Absolute tolerances on lengths found today are genuine defects "
            "recorded as known findings. Rounding effects and the CylinderSegment log cancellation are not decided. Round 3: no reduced-precision casts on the numerical path ((f), one triaged diagnostic site); known findings are keyed with the dimensions combined, so a different defect at a listed construct is reported. Rounds 4-5: k-d tree radii have the dimension of the points; no absolute thresholds on field values in the level-2 wrapper ((g)).",
    "design_ref": "DESIGN.md §3 C12",
    "note": "Trusted: the abstract interpreter and its NumPy transfer table, the declared parameter dimensions, one literal annotation (1e-7 = mu0/4pi), "
            "summaries of the elliptic-integral routines as dimensionless.",
    "technique": "static analysis: abstract interpretation with a physical-dimension lattice (type-and-effect style units checking)",
}
