"""C11 - the collection tree stays a consistent forest under any history (including calls that raise).

Decided clauses:
  E1  pairing/atomicity typestate over every tree editor: no exit of any kind (return, raise, exceptional edge of a
      call whose callee can raise) while a flag is pending:
        PSNL  parent set, object not (yet) listed in that parent's _children
        LPC   parent cleared while still listed
        UPK   unlisted (removed from _children) but parent kept
        STALE _children written, derived views (_sources/_sensors/_collections) not refreshed
  E2  who-may-write: _parent/_children/_sources/_sensors/_collections are written only inside the editors
  E3  the self/ancestor cycle test precedes every parent assignment in `add`
Not decided: order preservation of *_all flattenings; that `remove` finds what `add` listed (value-level).
"""
from __future__ import annotations

import ast

from callgraph import CallGraph
from common import Finding, norm
from flow import BaseClient, function_exits
from rules_writes import collect_writes

EXPLANATION = ("typestate over the tree editors (BaseCollection.__init__/add/remove, the four list setters, BaseGeo.parent "
               "setter, rec_obj_remover): on every exit incl. exceptional edges of calls that can raise, no parent/child "
               "link is half-made and the derived views are refreshed; who-may-write on the tree attributes; cycle test "
               "dominates parent assignment. Decides consistency of each single edit, not value-level ordering.")

TREE_ATTRS = {"_parent", "_children", "_sources", "_sensors", "_collections"}
# editors: (class or None, function, is_setter)
EDITORS = [("BaseCollection", "__init__", False), ("BaseCollection", "add", False), ("BaseCollection", "remove", False),
           ("BaseCollection", "children", True), ("BaseCollection", "sources", True), ("BaseCollection", "sensors", True),
           ("BaseCollection", "collections", True), ("BaseGeo", "parent", True)]
# other legitimate writers: function -> reason
OTHER_WRITERS = {
    "BaseGeo.__init__": "constructor initialises _parent = None on the fresh object",
    "BaseGeo.copy": "temporary detach for deepcopy; a T1 swap-restore pair decided under C18/K2",
    "BaseCollection._update_src_and_sens": "the view refresh itself",
    "rec_obj_remover": "helper of remove: unlists a known child and refreshes the views of the collection it unlisted from",
}


def txt(n):
    return ast.unparse(n)


class TreeClient(BaseClient):
    def __init__(self, fn, raising):
        self.fn, self.raising = fn, raising
        self.itervar = {}
        for n in ast.walk(fn):
            if isinstance(n, ast.For) and isinstance(n.target, ast.Name):
                self.itervar[n.target.id] = txt(n.iter)

    def call_may_raise(self, call):
        f = call.func
        name = f.attr if isinstance(f, ast.Attribute) else getattr(f, "id", None)
        return name in self.raising

    def exit_loop(self, s, S_before, S_body, S_fix):
        return (S_before or frozenset()) | (S_body if S_body is not None else frozenset()) | (S_fix or frozenset())

    def key(self, recv):
        if isinstance(recv, ast.Name) and recv.id in self.itervar:
            return "elem:" + self.itervar[recv.id]
        return txt(recv)

    def transfer(self, s, S):
        S = set(S)
        if isinstance(s, (ast.Assign, ast.AugAssign)):
            targets = s.targets if isinstance(s, ast.Assign) else [s.target]
            for t in targets:
                if isinstance(t, ast.Attribute) and t.attr == "_parent":
                    k = self.key(t.value)
                    isnone = isinstance(s.value, ast.Constant) and s.value.value is None
                    if isnone:
                        if ("UPK", k) in S:
                            S.discard(("UPK", k))
                        elif ("DETACHED", k) in S:
                            pass
                        else:
                            S.add(("LPC", k))
                    else:
                        S.add(("PSNL", k))
                if isinstance(t, ast.Attribute) and t.attr == "_children":
                    if isinstance(s, ast.AugAssign):
                        S = {f for f in S if f[0] != "PSNL"}
                    else:
                        S = {f for f in S if f[0] != "LPC"}
                    S.add(("STALE", txt(t.value)))
                if isinstance(t, ast.Attribute) and t.attr in ("_sources", "_sensors", "_collections"):
                    # constructor idiom: all lists stored empty together with _children == refreshed
                    if isinstance(s.value, ast.List) and not s.value.elts:
                        S.add(("EMPTYVIEW", t.attr))
                        if {("EMPTYVIEW", a) for a in ("_sources", "_sensors", "_collections")} <= S:
                            S = {x for x in S if x[0] not in ("STALE", "EMPTYVIEW")}
        for c in ast.walk(s):
            if not isinstance(c, ast.Call):
                continue
            f = c.func
            if isinstance(f, ast.Attribute):
                if f.attr == "_update_src_and_sens":
                    S = {x for x in S if not (x[0] == "STALE" and x[1] == txt(f.value))}
                if f.attr in ("remove",) and isinstance(f.value, ast.Attribute) and f.value.attr == "_children" and c.args:
                    k = self.key(c.args[0])
                    S.add(("UPK", k))
                    S.add(("STALE", txt(f.value.value)))
                if f.attr in ("append", "extend", "insert") and isinstance(f.value, ast.Attribute) and f.value.attr == "_children" and c.args:
                    k = self.key(c.args[-1])
                    S = {x for x in S if not (x[0] == "PSNL" and x[1] == k)}
                    S.add(("STALE", txt(f.value.value)))
                if f.attr == "add" and not (isinstance(f.value, ast.Attribute) and f.value.attr.startswith("_")):
                    # callee summary (verified by this very check on `add`): on normal return every argument is
                    # parented+listed and the views of the receiver are fresh
                    S = {x for x in S if not (x[0] == "STALE" and x[1] == txt(f.value))}
                if f.attr == "remove" and not (isinstance(f.value, ast.Attribute) and f.value.attr == "_children"):
                    # Collection.remove(y): on normal return y is unlisted and y._parent is None
                    for a in c.args:
                        S.add(("DETACHED", self.key(a)))
            if isinstance(f, ast.Name) and f.id == "rec_obj_remover" and len(c.args) >= 2:
                S.add(("UPK", self.key(c.args[1])))
        return frozenset(S)


def raising_functions(g: CallGraph):
    """names of repo functions/methods that can (transitively) reach a `raise` statement"""
    direct = {fid for fid, n in g.nodes.items() if any(isinstance(x, ast.Raise) for x in ast.walk(n.node))}
    raising = set(direct)
    changed = True
    while changed:
        changed = False
        for fid, outs in g.edges.items():
            if fid not in raising and outs & raising:
                raising.add(fid)
                changed = True
    names = set()
    for fid in raising:
        nm = fid.split(":")[1].split(".")[-1].replace("[get]", "").replace("[set]", "")
        names.add(nm)
    return names


def find_fn(repo, cls, name, setter):
    c = repo.cls(cls)
    d = c.setters if setter else c.methods
    if name not in d:
        from common import AnalysisError
        raise AnalysisError(f"anchor vanished: {cls}.{name}{' setter' if setter else ''}")
    return c, d[name]


def run(repo, res, tier):
    res.rules = ["E1 tree-edit typestate on all exits", "E2 who-may-write tree attributes", "E3 cycle test dominates parent store"]
    g = CallGraph(repo)
    raising = raising_functions(g)
    # method names that collide with container methods: only the repo meaning counts when the receiver is not a list
    res.analysed["raising_callee_names"] = len(raising)
    # ---- E1
    fns = []
    for cls, name, setter in EDITORS:
        c, fn = find_fn(repo, cls, name, setter)
        fns.append((c.mod, f"{cls}.{name}{' (setter)' if setter else ''}", fn))
    um = repo.mod("magpylib._src.utility")
    if "rec_obj_remover" in um.funcs:
        fns.append((um, "rec_obj_remover", um.funcs["rec_obj_remover"]))
    for mod, qn, fn in fns:
        cl = TreeClient(fn, raising)
        exits, n_st = function_exits(fn, cl)
        res.evaluations += len(exits)
        bad, seen = [], set()
        for k, St, n in exits:
            St = {f for f in St if f[0] not in ("DETACHED", "EMPTYVIEW")}
            if qn == "rec_obj_remover":
                St = {f for f in St if f[0] != "UPK"}  # by contract the caller clears the parent right after
            if St:
                key = (k, norm(n) if not isinstance(n, ast.FunctionDef) else "end", tuple(sorted(St)))
                if key not in seen:
                    seen.add(key)
                    bad.append((k, sorted(St), n))
        res.ob(f"E1:{qn}", not bad, {"rule": "E1", "editor": qn, "exits_examined": len(exits), "pending_exits": len(bad)})
        if bad:
            kinds = sorted({f[0] for _, St, _ in bad for f in St})
            det = " ; ".join(f"{k}@{'end' if isinstance(n, ast.FunctionDef) else norm(n)[:60]} pending={St}" for k, St, n in bad[:5])
            res.add(Finding("E1", mod.rel, qn, f"exit with pending {','.join(kinds)}", det, getattr(bad[0][2], "lineno", None)))
    # ---- E2
    allowed = {qn.replace(" (setter)", "") for _, qn, _ in fns} | set(OTHER_WRITERS)
    classes = set(repo.classes)
    for m, qn, fn, cl in repo.all_functions():
        for w in collect_writes(fn, classes):
            base = w.attr.split(".")[0]
            if base in TREE_ATTRS:
                q = qn.replace(" (setter)", "")
                ok = q in allowed
                res.ob(f"E2:{q}:{w.kind}:{w.recv}.{w.attr}", ok, {"rule": "E2", "writer": q, "write": f"{w.kind} {w.recv}.{w.attr}"})
                if not ok:
                    res.add(Finding("E2", m.rel, q, f"{w.kind} {w.recv}.{w.attr}: {norm(w.stmt)}",
                                    "tree attribute written outside the tree editors", getattr(w.stmt, "lineno", None)))
        # setattr(obj, "_parent", ...) with a dynamic name is covered: collect_writes reports '<dynamic>' setattr
    # ---- E3
    c, add = find_fn(repo, "BaseCollection", "add", False)
    stores, guards = [], []
    loops = {}
    for n in ast.walk(add):
        if isinstance(n, ast.For):
            for x in ast.walk(n):
                loops.setdefault(id(x), []).append(n)
    for n in ast.walk(add):
        if isinstance(n, ast.Assign) and any(isinstance(t, ast.Attribute) and t.attr == "_parent" for t in n.targets) \
                and not (isinstance(n.value, ast.Constant) and n.value.value is None):
            stores.append(n)
        if isinstance(n, ast.If) and any(isinstance(x, ast.Raise) for x in n.body):
            t = txt(n.test)
            if "is self" in t and ("collections_all" in t or "children_all" in t):
                guards.append(n)
    res.require(stores, "BaseCollection.add no longer assigns _parent (anchor changed)")

    def loop_iter(n):
        # the collection iterated over, modulo enumerate()/zip() wrappers
        ls = loops.get(id(n), [])
        if not ls:
            return None
        return frozenset(x.id for x in ast.walk(ls[-1].iter) if isinstance(x, ast.Name)) - {"enumerate", "zip", "reversed", "list"}
    ok = bool(guards) and all(any(gd.lineno < st.lineno and loop_iter(gd) == loop_iter(st) for gd in guards) for st in stores)
    res.ob("E3:add:cycle-test", ok, {"rule": "E3", "guards": [norm(x.test) for x in guards], "parent_stores": [norm(s) for s in stores]})
    if not ok:
        res.add(Finding("E3", c.mod.rel, "BaseCollection.add", "parent assignment not dominated by the self/ancestor cycle test",
                        f"guards={[norm(x.test) for x in guards]}", stores[0].lineno))
    res.assumptions += ["container operations (list.remove/append) and isinstance do not raise on the paths examined",
                        "callee summaries: Collection.add (complete on normal return), Collection.remove (detaches on normal return) - "
                        "both are themselves editors checked by this rule"]
    return {}


MANIFEST = {
    "category": "other",
    "text": "Static typestate over the tree editors: on every exit of add/remove/the four list setters/the parent setter/rec_obj_remover - "
            "including exceptional edges of callees that can raise - no parent link is half-made and the typed views are refreshed; tree "
            "attributes are written nowhere else; the cycle test precedes parent assignment. Decides that each single edit keeps the forest "
            "consistent whether it returns or raises (hence any history of edits does), not value-level ordering of the flattenings.",
    "design_ref": "DESIGN.md §3 C11",
    "note": "Trusted: python ast; callee summaries for Collection.add/remove (both are themselves checked editors); list operations and isinstance assumed not to raise.",
    "technique": "static analysis: typestate over a structured CFG with exceptional exits + who-may-write query",
}
