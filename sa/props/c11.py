"""C11 - the collection tree stays a consistent forest under any history (including calls that raise).

Decided clauses:
  E1  pairing/atomicity typestate over every tree editor: no exit of any kind (return, raise, exceptional edge of a
      call whose callee can raise) while a flag is pending:
        PSNL  parent set, object not (yet) listed in that parent's _children
        LPC   parent cleared while still listed
        UPK   unlisted (removed from _children) but parent kept
        STALE _children written, derived views (_sources/_sensors/_collections) not refreshed
  E2  who-may-write: _parent/_children/_sources/_sensors/_collections are written only inside the editors
  E3  the self/ancestor cycle test precedes every parent assignment in `add`
  E5  the four *_all getters are one traversal with a kind filter (or filters of children_all); flattenings assembled from the typed
      direct views are a violation (order of interleaved children lost)
Not decided: that `remove` finds what `add` listed (value-level).
"""
from __future__ import annotations

import ast

from callgraph import CallGraph
from common import Finding, norm
from flow import BaseClient, function_exits
from rules_writes import collect_writes

EXPLANATION = ("typestate over the tree editors (BaseCollection.__init__/add/remove, the four list setters, BaseGeo.parent "
               "setter, rec_obj_remover): on every exit incl. exceptional edges of calls that can raise, no parent/child "
               "link is half-made and the derived views are refreshed; who-may-write on the tree attributes; cycle test "
               "dominates parent assignment. Decides consistency of each single edit, not value-level ordering.")

TREE_ATTRS = {"_parent", "_children", "_sources", "_sensors", "_collections"}
# editors: (class or None, function, is_setter)
EDITORS = [("BaseCollection", "__init__", False), ("BaseCollection", "add", False), ("BaseCollection", "remove", False),
           ("BaseCollection", "children", True), ("BaseCollection", "sources", True), ("BaseCollection", "sensors", True),
           ("BaseCollection", "collections", True), ("BaseGeo", "parent", True)]
# other legitimate writers: function -> reason
OTHER_WRITERS = {
    "BaseGeo.__init__": "constructor initialises _parent = None on the fresh object",
    "BaseGeo.copy": "temporary detach for deepcopy; a T1 swap-restore pair decided under C18/K2",
    "BaseCollection._update_src_and_sens": "the view refresh itself",
    "rec_obj_remover": "helper of remove: unlists a known child and refreshes the views of the collection it unlisted from",
}


def txt(n):
    return ast.unparse(n)


REMOVERS = {}       # name -> index of the child argument among the call's arguments (receiver excluded); filled by find_removers()
REMOVER_CLEARS = set()   # removers that clear the parent link of the child they unlist themselves (`child._parent = None` after the unlisting)


def find_removers(repo):
    """the unlisting helper of `remove`, whatever it is called and wherever it lives (module function `f(parent, child)` or method
    `parent.f(child)`; searching the tree itself or through a search helper): a function that does
    `<collection>._children.remove(<child parameter>)` and refreshes the views of the collection it unlisted from.  Contract (checked as E1 of the helper itself): it unlists at most the given child and leaves the
    child's parent link to the caller."""
    REMOVERS.clear()
    REMOVER_CLEARS.clear()
    found = []
    for m, qn, fn, cl in repo.all_functions():
        params = [a.arg for a in fn.args.posonlyargs + fn.args.args]
        child = None
        for c in ast.walk(fn):
            if isinstance(c, ast.Call) and isinstance(c.func, ast.Attribute) and c.func.attr == "remove" and isinstance(c.func.value, ast.Attribute) \
                    and c.func.value.attr == "_children" and len(c.args) == 1 and isinstance(c.args[0], ast.Name) and c.args[0].id in params:
                child = c.args[0].id
        rec = any(isinstance(c, ast.Call) and ((isinstance(c.func, ast.Name) and c.func.id == fn.name) or (isinstance(c.func, ast.Attribute) and c.func.attr == fn.name))
                  for c in ast.walk(fn))
        refresh = any(isinstance(c, ast.Call) and isinstance(c.func, ast.Attribute) and c.func.attr == "_update_src_and_sens" for c in ast.walk(fn))
        if child and refresh and fn.name not in ("remove", "add") and not any(d for d in fn.decorator_list):
            idx = params.index(child) - (1 if cl is not None else 0)
            REMOVERS[fn.name] = idx
            found.append((m, qn, fn))
            # does the helper orphan the child itself?  (a store `child._parent = None` that follows the unlisting in the same block or function tail)
            if any(isinstance(a_, ast.Assign) and len(a_.targets) == 1 and isinstance(a_.targets[0], ast.Attribute) and a_.targets[0].attr == "_parent"
                   and isinstance(a_.targets[0].value, ast.Name) and a_.targets[0].value.id == child and isinstance(a_.value, ast.Constant) and a_.value.value is None
                   for a_ in ast.walk(fn)):
                REMOVER_CLEARS.add(fn.name)
    return found


def _remover_name(c):
    f_ = c.func
    return f_.id if isinstance(f_, ast.Name) else (f_.attr if isinstance(f_, ast.Attribute) else None)


def _remover_call(c):
    """-> the child argument of a call to the unlisting helper, or None"""
    f_ = c.func
    name = f_.id if isinstance(f_, ast.Name) else (f_.attr if isinstance(f_, ast.Attribute) else None)
    if name in REMOVERS:
        i = REMOVERS[name] if isinstance(f_, ast.Attribute) else REMOVERS[name]
        if isinstance(f_, ast.Name) and 0 <= i < len(c.args):
            return c.args[i]
        if isinstance(f_, ast.Attribute) and 0 <= i < len(c.args):
            return c.args[i]
    return None


class TreeClient(BaseClient):
    """state = frozenset of *worlds*; a world is a frozenset of facts/flags.  Joins are unions of world sets, i.e. the
    analysis is path-sensitive over the (small, finite) set of distinct flag combinations.

    pending flags:  PSNL LPC UPK STALE DUP      facts (never pending):  DETACHED PARENT_NONE EMPTYVIEW
    """
    NONPENDING = ("DETACHED", "PARENT_NONE", "EMPTYVIEW", "WAS_PARENTLESS", "REMOVER_DECIDED", "EMPTIED")

    def __init__(self, fn, raising):
        self.fn, self.raising = fn, raising
        self.itervar = {}
        for n in ast.walk(fn):
            if isinstance(n, ast.For):
                for x in ast.walk(n.target):
                    if isinstance(x, ast.Name):
                        self.itervar[x.id] = txt(n.iter)

    def call_may_raise(self, call):
        f = call.func
        name = f.attr if isinstance(f, ast.Attribute) else getattr(f, "id", None)
        return name in self.raising

    def exit_loop(self, s, S_before, S_body, S_fix):
        out = frozenset()
        for x in (S_before, S_body, S_fix):
            if x is not None:
                out |= x
        return out

    def key(self, recv):
        if isinstance(recv, ast.Name) and recv.id in self.itervar:
            return "elem:" + self.itervar[recv.id]
        return txt(recv)

    # ---- branch refinement
    def assume(self, test, branch, S):
        out = set()
        for w in S:
            out |= self._assume1(test, branch, w)
        return frozenset(out)

    def _assume1(self, test, branch, w):
        w = set(w)
        if isinstance(test, ast.UnaryOp) and isinstance(test.op, ast.Not):
            return self._assume1(test.operand, not branch, frozenset(w))
        if isinstance(test, ast.BoolOp):
            conj = isinstance(test.op, ast.And)
            if conj == branch:   # (A and B) true  /  (A or B) false : every operand has that outcome
                ws = {frozenset(w)}
                for v in test.values:
                    nxt = set()
                    for x in ws:
                        nxt |= self._assume1(v, branch, x)
                    ws = nxt
                return ws
            return {frozenset(w)}  # disjunctive information: no refinement
        # a local bound once to `X._parent` / `X.parent` stands for it in the test (`old = obj._parent; if old is not None: old.remove(obj)`)
        if isinstance(test, ast.Compare) and len(test.ops) == 1 and isinstance(test.left, ast.Name):
            defs = [a.value for a in ast.walk(self.fn) if isinstance(a, ast.Assign) and any(isinstance(t, ast.Name) and t.id == test.left.id for t in a.targets)]
            if len(defs) == 1 and isinstance(defs[0], ast.Attribute) and defs[0].attr in ("_parent", "parent"):
                test = ast.Compare(left=defs[0], ops=test.ops, comparators=test.comparators)
        # X._parent is None / is not None
        if isinstance(test, ast.Compare) and len(test.ops) == 1 and isinstance(test.left, ast.Attribute) \
                and test.left.attr in ("_parent", "parent") and isinstance(test.comparators[0], ast.Constant) \
                and test.comparators[0].value is None:
            is_none = isinstance(test.ops[0], ast.Is) == branch if isinstance(test.ops[0], (ast.Is, ast.IsNot)) else None
            if is_none is True:
                w.add(("PARENT_NONE", self.key(test.left.value)))
            return {frozenset(w)}
        # truthiness of rec_obj_remover(parent, child): True iff child was unlisted
        if isinstance(test, ast.Call) and _remover_call(test) is not None:
            if branch and _remover_name(test) not in REMOVER_CLEARS:
                w.add(("UPK", self.key(_remover_call(test))))
            w.add(("REMOVER_DECIDED", txt(test)))
            return {frozenset(w)}
        return {frozenset(w)}

    def _excludes_cleared(self, v):
        """does a new value of `_children` provably drop the children whose parent link was cleared?  Yes for the empty list and for a
        filtering list comprehension (directly or through a local bound once to one); a positional slice / concatenation / call result
        says nothing about *which* children remain"""
        if isinstance(v, ast.List) and not v.elts:
            return True
        if isinstance(v, ast.ListComp):
            return True
        if isinstance(v, ast.Name):
            defs = [a.value for a in ast.walk(self.fn) if isinstance(a, ast.Assign) and any(isinstance(t, ast.Name) and t.id == v.id for t in a.targets)]
            return len(defs) >= 1 and all(isinstance(d, ast.ListComp) or (isinstance(d, ast.List) and not d.elts) for d in defs)
        return False

    # ---- statements
    def transfer(self, s, S):
        out = set()
        for w in S:
            out |= self._transfer1(s, w)
        return frozenset(out)

    def _transfer1(self, s, w):
        worlds = [set(w)]

        def each(f):
            nonlocal worlds
            nw = []
            for x in worlds:
                r = f(x)
                nw += r if isinstance(r, list) else [r]
            worlds = nw

        if isinstance(s, (ast.Assign, ast.AugAssign)):
            targets = s.targets if isinstance(s, ast.Assign) else [s.target]
            for t in targets:
                if isinstance(t, ast.Attribute) and t.attr == "_parent":
                    k = self.key(t.value)
                    isnone = isinstance(s.value, ast.Constant) and s.value.value is None

                    def f(S, k=k, isnone=isnone):
                        if isnone:
                            if ("UPK", k) in S:
                                S.discard(("UPK", k))
                            elif ("DETACHED", k) in S or ("PARENT_NONE", k) in S:
                                pass
                            elif any(x[0] == "EMPTIED" for x in S):
                                pass        # the children list was replaced by an empty one before: nothing this collection lists loses its parent
                                #             (E7 makes sure the object was drawn from the old direct listing)
                            else:
                                S.add(("LPC", k))
                            S.add(("PARENT_NONE", k))
                        else:
                            S.add(("PSNL", k))
                            if ("PARENT_NONE", k) in S:
                                S.add(("WAS_PARENTLESS", k))
                            S.discard(("PARENT_NONE", k))
                        return S
                    each(f)
                if isinstance(t, ast.Attribute) and t.attr == "_children":
                    def f(S, t=t):
                        if isinstance(s, ast.AugAssign):
                            S = {x for x in S if x[0] != "PSNL"}
                        elif self._excludes_cleared(s.value):
                            S = {x for x in S if x[0] != "LPC"}
                        S = {x for x in S if x[0] != "EMPTIED"}
                        if isinstance(s, ast.Assign) and isinstance(s.value, ast.List) and not s.value.elts:
                            S.add(("EMPTIED", txt(t.value)))
                        S.add(("STALE", txt(t.value)))
                        return S
                    each(f)
                if isinstance(t, ast.Attribute) and t.attr in ("_sources", "_sensors", "_collections"):
                    if isinstance(s.value, ast.List) and not s.value.elts:
                        def f(S, t=t):
                            S.add(("EMPTYVIEW", t.attr))
                            if {("EMPTYVIEW", a) for a in ("_sources", "_sensors", "_collections")} <= S:
                                S = {x for x in S if x[0] not in ("STALE", "EMPTYVIEW")}
                            return S
                        each(f)
        for c in ast.walk(s):
            if not isinstance(c, ast.Call):
                continue
            f_ = c.func
            if isinstance(f_, ast.Attribute):
                if f_.attr == "_update_src_and_sens":
                    each(lambda S, r=txt(f_.value): {x for x in S if not (x[0] == "STALE" and x[1] == r)})
                if f_.attr == "remove" and isinstance(f_.value, ast.Attribute) and f_.value.attr == "_children" and c.args:
                    def f(S, k=self.key(c.args[0]), r=txt(f_.value.value)):
                        S.add(("UPK", k)); S.add(("STALE", r)); return S
                    each(f)
                if f_.attr in ("append", "extend", "insert") and isinstance(f_.value, ast.Attribute) and f_.value.attr == "_children" and c.args:
                    def f(S, k=self.key(c.args[-1]), r=txt(f_.value.value)):
                        # listing requires the object to be listed nowhere: freshly detached, or it had no parent
                        # (by the forest invariant) before this call set one
                        if not (("DETACHED", k) in S or ("WAS_PARENTLESS", k) in S):
                            S.add(("DUP", k))
                        S = {x for x in S if not (x[0] == "PSNL" and x[1] == k)}
                        S.add(("STALE", r))
                        return S
                    each(f)
                if f_.attr == "add" and not (isinstance(f_.value, ast.Attribute) and f_.value.attr.startswith("_")):
                    each(lambda S, r=txt(f_.value): {x for x in S if not (x[0] == "STALE" and x[1] == r)})
                if f_.attr == "remove" and not (isinstance(f_.value, ast.Attribute) and f_.value.attr == "_children"):
                    def f(S, args=[self.key(a) for a in c.args]):
                        for k in args:
                            S.add(("DETACHED", k)); S.discard(("PARENT_NONE", k))
                        return S
                    each(f)
            if _remover_call(c) is not None:
                k = self.key(_remover_call(c))
                if any(("REMOVER_DECIDED", txt(c)) in x for x in worlds):
                    continue  # outcome already fixed by the branch this call is the condition of
                # result not inspected: the child may or may not have been found and unlisted
                def f(S, k=k, clears=_remover_name(c) in REMOVER_CLEARS):
                    a, b = set(S), set(S)
                    if not clears:
                        a.add(("UPK", k))
                    return [a, b]
                each(f)
        # remember "had no parent" at the moment a parent is set (PARENT_NONE is dropped by the store)
        out = set()
        for x in worlds:
            out.add(frozenset(x))
        return out


def raising_functions(g: CallGraph):
    """names of repo functions/methods that can (transitively) reach a `raise` statement"""
    direct = {fid for fid, n in g.nodes.items() if any(isinstance(x, ast.Raise) for x in ast.walk(n.node))}
    raising = set(direct)
    changed = True
    while changed:
        changed = False
        for fid, outs in g.edges.items():
            if fid not in raising and outs & raising:
                raising.add(fid)
                changed = True
    names = set()
    for fid in raising:
        nm = fid.split(":")[1].split(".")[-1].replace("[get]", "").replace("[set]", "")
        names.add(nm)
    return names


def find_fn(repo, cls, name, setter):
    c = repo.cls(cls)
    d = c.setters if setter else c.methods
    if name not in d:
        from common import AnalysisError
        raise AnalysisError(f"anchor vanished: {cls}.{name}{' setter' if setter else ''}")
    return c, d[name]


def e5(repo, res):
    """E5 the typed flattenings agree with children_all: every `*_all` getter is the same traversal (one flattener called with the
    receiver and a literal kind filter) or a filter over `self.children_all`.  A flattening assembled from the typed direct views
    (`_sources`, `_sensors`, `_collections`) groups by type and cannot keep the interleaved order of the children."""
    c = repo.cls("BaseCollection")
    alls = {k: v for k, v in c.getters.items() if k.endswith("_all")}
    res.require(len(alls) >= 4, f"anchor vanished: only {len(alls)} *_all getters on BaseCollection")
    forms = {}
    for name, fn in alls.items():
        rets = [r for r in ast.walk(fn) if isinstance(r, ast.Return) and r.value is not None]
        form = None
        from repo import ret_value
        rv = ret_value(fn, rets[0]) if len(rets) == 1 else None
        if isinstance(rv, ast.Call) and isinstance(rv.func, ast.Name) and rv.args and ast.unparse(rv.args[0]) == "self":
            lits = [a for a in list(rv.args[1:]) + [k.value for k in rv.keywords] if isinstance(a, ast.Constant) and isinstance(a.value, str)]
            form = ("flattener", rv.func.id, lits[0].value if lits else None)
        elif any(isinstance(x, ast.Attribute) and x.attr == "children_all" for x in ast.walk(fn)):
            form = ("filter of children_all", None, None)
        typed_views = sorted({x.attr for x in ast.walk(fn) if isinstance(x, ast.Attribute) and isinstance(x.value, ast.Name) and x.value.id == "self"
                              and x.attr.lstrip("_") in ("sources", "sensors", "collections")})
        forms[name] = (form, typed_views, fn)
    callees = {f[0][1] for f in forms.values() if f[0] and f[0][0] == "flattener"}
    for name, (form, typed_views, fn) in forms.items():
        kind = name[: -len("_all")]
        ok = form is not None and not typed_views
        if form and form[0] == "flattener":
            ok = ok and len(callees) == 1 and form[2] is not None and (kind == "children" or kind in form[2].split("+"))
        res.ob(f"E5:{name}", ok or (form is None and not typed_views), {"rule": "E5", "getter": name, "form": form[0] if form else "unrecognised", "filter": form[2] if form else None,
                                                                       "typed_views_read": typed_views})
        if typed_views:
            res.add(Finding("E5", c.mod.rel, f"BaseCollection.{name} (getter)", fn, f"the flattening is assembled from the typed direct views {typed_views}: objects of this kind that sit "
                            "behind a child collection come out before that collection's members, unlike in children_all", fn.lineno))
        elif form is None:
            res.undecided.append(f"E5: BaseCollection.{name} is neither the common flattener call nor a filter of children_all; its order is not decided")
        elif not ok:
            res.add(Finding("E5", c.mod.rel, f"BaseCollection.{name} (getter)", fn, f"uses {form[1]}({form[2]!r}): not the traversal/kind of the sibling *_all getters", fn.lineno))


def typed_view_flatten(repo, res, rule):
    """a flat list of the sensors (sources) of a collection tree assembled from the typed direct views - `x.sensors` plus `sub.sensors`
    for every `sub` in `x.collections_all` / `x.collections` - lists level by level; the documented order (`sensors_all`, the order
    of the rows of every field result) is the pre-order walk of `children`.  Found anywhere outside the typed getters themselves."""
    n = 0
    for m, q, fn, cl in repo.all_functions():
        for kind in ("sensors", "sources"):
            direct = [x for x in ast.walk(fn) if isinstance(x, ast.Attribute) and x.attr in (kind, "_" + kind) and isinstance(x.ctx, ast.Load)]
            if not direct:
                continue
            for loop in ast.walk(fn):
                if not (isinstance(loop, (ast.For, ast.comprehension)) and isinstance(loop.target, ast.Name)):
                    continue
                it = loop.iter
                if not (isinstance(it, ast.Attribute) and it.attr.lstrip("_") in ("collections", "collections_all")):
                    continue
                body = loop if isinstance(loop, ast.For) else fn
                inner = [x for x in ast.walk(body) if isinstance(x, ast.Attribute) and x.attr in (kind, "_" + kind) and isinstance(x.value, ast.Name)
                         and x.value.id == loop.target.id]
                outer = [x for x in direct if ast.unparse(x.value) == ast.unparse(it.value)]
                if inner and outer:
                    n += 1
                    res.add(Finding(rule, m.rel, q, loop if isinstance(loop, ast.For) else inner[0], f"the {kind} of a collection tree are gathered level by level ({norm(outer[0])}, then "
                                    f"{norm(inner[0])} for each sub-collection): a direct {kind[:-1]} behind a child collection comes out before that collection's members, "
                                    f"unlike in `{kind}_all` / the pre-order walk that orders the rows of every result", getattr(loop, "lineno", inner[0].lineno)))
    res.ob(f"{rule}:no level-by-level flattening from typed views", n == 0, {"rule": rule, "instances": n}, nontrivial=False)
    return n


DIRECT_LISTS = ("_children", "children", "_sources", "_sensors", "_collections", "sources", "sensors", "collections")


def e7(repo, res):
    """E7 a parent link is cleared only for an object that is unlisted from the list that holds it: in the collection classes, `x._parent = None`
    (x not `self`, not a parameter) is either guarded by the unlisting helper called with x, or x runs over a *direct* listing of this
    collection (`self._children`, a typed view, a copy / alias of one) - never over a flattened listing (`*_all`, `format_obj_input(self, ..)`,
    `check_format_input_obj(self, ..)` without recursive=False): members of sub-collections would lose their parent link while their owner
    still lists them."""
    n = 0
    for m, qn, fn, cl in repo.all_functions():
        if cl is None or not m.name.endswith("class_Collection"):
            continue
        params = {a.arg for a in fn.args.posonlyargs + fn.args.args + fn.args.kwonlyargs}
        defs = {}
        for a in ast.walk(fn):
            if isinstance(a, ast.Assign) and len(a.targets) == 1 and isinstance(a.targets[0], ast.Name):
                defs.setdefault(a.targets[0].id, []).append(a.value)
        parents = {}
        for x in ast.walk(fn):
            for ch in ast.iter_child_nodes(x):
                parents[id(ch)] = x

        def direct(e, depth=0):
            if isinstance(e, ast.Name) and len(defs.get(e.id, [])) == 1 and depth < 3:
                return direct(defs[e.id][0], depth + 1)
            if isinstance(e, ast.Attribute) and isinstance(e.value, ast.Name) and e.value.id == "self":
                return e.attr in DIRECT_LISTS
            if isinstance(e, ast.Call) and len(e.args) == 1 and not e.keywords and getattr(e.func, "id", "") in ("list", "tuple", "reversed", "sorted"):
                return direct(e.args[0], depth)
            if isinstance(e, ast.Call) and isinstance(e.func, ast.Attribute) and e.func.attr == "copy" and not e.args:
                return direct(e.func.value, depth)
            if isinstance(e, ast.Subscript) and isinstance(e.slice, ast.Slice):
                return direct(e.value, depth)
            if isinstance(e, (ast.ListComp, ast.GeneratorExp)) and len(e.generators) == 1 and isinstance(e.elt, ast.Name) \
                    and isinstance(e.generators[0].target, ast.Name) and e.elt.id == e.generators[0].target.id:
                return direct(e.generators[0].iter, depth)          # a filtered copy of a direct listing
            return False
        for st in ast.walk(fn):
            if not (isinstance(st, ast.Assign) and len(st.targets) == 1 and isinstance(st.targets[0], ast.Attribute) and st.targets[0].attr == "_parent"
                    and isinstance(st.targets[0].value, ast.Name) and isinstance(st.value, ast.Constant) and st.value.value is None):
                continue
            x = st.targets[0].value.id
            if x == "self" or x in params:
                continue
            n += 1
            ok, why = False, ""
            cur = st
            while id(cur) in parents:
                cur = parents[id(cur)]
                if isinstance(cur, ast.If) and any(isinstance(c_, ast.Call) and isinstance(_remover_call(c_), ast.Name) and _remover_call(c_).id == x for c_ in ast.walk(cur.test)):
                    ok, why = True, "guarded by the unlisting helper"
                    break
                if isinstance(cur, (ast.For, ast.comprehension)) and any(isinstance(t_, ast.Name) and t_.id == x for t_ in ast.walk(cur.target)):
                    ok = direct(cur.iter)
                    why = f"runs over {norm(cur.iter)}"
                    break
            res.ob(f"E7:{qn}:{norm(st)}", ok, {"rule": "E7", "function": qn, "store": norm(st), "object": why})
            if not ok:
                res.add(Finding("E7", m.rel, qn, st, f"`{x}` {why or 'is not drawn from a direct listing of this collection'}: a parent link is cleared for an object that is "
                                "not unlisted from the collection that holds it (members of sub-collections keep being listed by their owner)", st.lineno))
    res.require(n >= 4, f"E7: only {n} parent-link clearing stores found in the collection classes")


def e6(repo, res):
    """E6 the view refresh itself is unconditional: `_update_src_and_sens` (the call that discharges STALE in E1) stores all three typed
    views on every path from its entry to every exit - an early return (`if not self._children: return`) leaves the views of an emptied
    collection listing the departed children."""
    c, fn = find_fn(repo, "BaseCollection", "_update_src_and_sens", False)
    views = ("_sources", "_sensors", "_collections")

    def literal_rows(it):
        """the literal tuple / list a loop runs over (directly or through a local bound once to it), or None"""
        if isinstance(it, ast.Name):
            ds = [a.value for a in ast.walk(fn) if isinstance(a, ast.Assign) and len(a.targets) == 1 and isinstance(a.targets[0], ast.Name) and a.targets[0].id == it.id]
            it = ds[0] if len(ds) == 1 else it
        return it if isinstance(it, (ast.Tuple, ast.List)) and it.elts else None
    table_names = set()
    for lp in ast.walk(fn):
        if isinstance(lp, ast.For) and literal_rows(lp.iter) is not None:
            table_names |= {x.value for x in ast.walk(literal_rows(lp.iter)) if isinstance(x, ast.Constant) and isinstance(x.value, str)}

    class Cl(BaseClient):
        def call_may_raise(self, call):
            return False

        def exit_loop(self, s_, S_before, S_body, S_fix):
            if isinstance(s_, ast.For) and literal_rows(s_.iter) is not None and S_body is not None:
                return S_body            # a loop over a non-empty literal table runs at least once
            return BaseClient.exit_loop(self, s_, S_before, S_body, S_fix)

        def transfer(self, s_, S):
            for a in ast.walk(s_):
                if isinstance(a, ast.Assign):
                    for t in a.targets:
                        for t1 in (t.elts if isinstance(t, ast.Tuple) else [t]):
                            if isinstance(t1, ast.Attribute) and isinstance(t1.value, ast.Name) and t1.value.id == "self" and t1.attr in views:
                                S = frozenset(S - {("TODO", t1.attr)})
                if isinstance(a, ast.Call) and isinstance(a.func, ast.Name) and a.func.id == "setattr" and len(a.args) == 3 and isinstance(a.args[0], ast.Name) \
                        and a.args[0].id == "self":
                    k = a.args[1]
                    if isinstance(k, ast.Constant) and k.value in views:
                        S = frozenset(S - {("TODO", k.value)})
                    elif not isinstance(k, ast.Constant):
                        S = frozenset(x for x in S if not (x[0] == "TODO" and x[1] in table_names))    # setattr(self, <name from the literal table>, ..)
            return S
    exits, _n = function_exits(fn, Cl(), frozenset({("TODO", v) for v in views}))
    bad = [(k, St, n) for k, St, n in exits if k in ("return", "fall", "end") and any(x[0] == "TODO" for x in St)]
    bad = bad or [(k, St, n) for k, St, n in exits if k not in ("raise", "exc") and any(x[0] == "TODO" for x in St)]
    res.ob("E6:_update_src_and_sens refreshes all views on every path", not bad, {"rule": "E6", "exits_examined": len(exits), "exits_without_a_full_refresh": len(bad)})
    if bad:
        k, St, n = bad[0]
        res.add(Finding("E6", c.mod.rel, "BaseCollection._update_src_and_sens", n if not isinstance(n, ast.FunctionDef) else fn,
                        f"a path leaves the refresh without storing {sorted(x[1] for x in St if x[0] == 'TODO')}: the typed views keep listing children that are gone "
                        "(e.g. after the last child was removed)", getattr(n, "lineno", fn.lineno)))


def run(repo, res, tier):
    res.rules = ["E1 tree-edit typestate on all exits", "E2 who-may-write tree attributes", "E3 cycle test dominates parent store", "E4 copy restores the parent link", "E5 typed flattenings share the traversal of children_all", "E5b no level-by-level flattening from typed views", "E6 the view refresh is unconditional", "E7 parent links are cleared for direct members only"]
    g = CallGraph(repo)
    raising = raising_functions(g)
    # method names that collide with container methods: only the repo meaning counts when the receiver is not a list
    res.analysed["raising_callee_names"] = len(raising)
    # ---- E1
    fns = []
    for cls, name, setter in EDITORS:
        c, fn = find_fn(repo, cls, name, setter)
        fns.append((c.mod, f"{cls}.{name}{' (setter)' if setter else ''}", fn))
    removers = find_removers(repo)
    remover_q = set()
    for m_, qn_, fn_ in removers:
        fns.append((m_, qn_, fn_))
        remover_q.add(qn_)
    res.analysed["unlisting_helpers"] = sorted(remover_q)
    for mod, qn, fn in fns:
        cl = TreeClient(fn, raising)
        exits, n_st = function_exits(fn, cl, frozenset({frozenset()}))
        res.evaluations += len(exits)
        bad, seen = [], set()
        for k, worlds, n in exits:
            for St in worlds:
                St = {f for f in St if f[0] not in TreeClient.NONPENDING}
                if qn in remover_q:
                    St = {f for f in St if f[0] != "UPK"}  # by contract the caller clears the parent of the unlisted child
                if St:
                    key = (k, norm(n) if not isinstance(n, ast.FunctionDef) else "end", tuple(sorted(St)))
                    if key not in seen:
                        seen.add(key)
                        bad.append((k, sorted(St), n))
        res.ob(f"E1:{qn}", not bad, {"rule": "E1", "editor": qn, "exits_examined": len(exits), "pending_exits": len(bad)})
        if bad:
            kinds = sorted({f[0] for _, St, _ in bad for f in St})
            det = " ; ".join(f"{k}@{'end' if isinstance(n, ast.FunctionDef) else norm(n)[:60]} pending={St}" for k, St, n in bad[:5])
            res.add(Finding("E1", mod.rel, qn, f"exit with pending {','.join(kinds)}", det, getattr(bad[0][2], "lineno", None)))
    # ---- E2
    allowed = {qn.replace(" (setter)", "") for _, qn, _ in fns} | set(OTHER_WRITERS)
    classes = set(repo.classes)
    for m, qn, fn, cl in repo.all_functions():
        for w in collect_writes(fn, classes):
            base = w.attr.split(".")[0]
            if base in TREE_ATTRS:
                q = qn.replace(" (setter)", "")
                ok = q in allowed
                res.ob(f"E2:{q}:{w.kind}:{w.recv}.{w.attr}", ok, {"rule": "E2", "writer": q, "write": f"{w.kind} {w.recv}.{w.attr}"})
                if not ok:
                    res.add(Finding("E2", m.rel, q, f"{w.kind} {w.recv}.{w.attr}: {norm(w.stmt)}",
                                    "tree attribute written outside the tree editors", getattr(w.stmt, "lineno", None)))
        # setattr(obj, "_parent", ...) with a dynamic name is covered: collect_writes reports '<dynamic>' setattr
    # ---- E4: copy() detaches the object for the duration of deepcopy; the parent link must be back on every exit
    import rules_t1
    geo = repo.cls("BaseGeo")
    if "copy" in geo.methods:
        t1 = rules_t1.analyse(geo.methods["copy"])
        det = [n for n in ast.walk(geo.methods["copy"]) if isinstance(n, ast.Assign) and any(
            isinstance(t, ast.Attribute) and t.attr == "_parent" and isinstance(t.value, ast.Name) and t.value.id == "self" for t in n.targets)]
        ok = (t1 is not None and not t1["bad"]) or (t1 is None and not det)
        res.ob("E4:BaseGeo.copy:parent link restored on all exits", ok, {"rule": "E4", "exits_examined": t1["exits"] if t1 else 0})
        if not ok:
            where = t1["bad"][0][2] if t1 and t1["bad"] else det[0]
            res.add(Finding("E4", geo.mod.rel, "BaseGeo.copy", "temporary overwrite of _parent", "a failing deepcopy leaves the object without parent while its "
                            "collection still lists it", where.lineno))
    # ---- E3
    c, add = find_fn(repo, "BaseCollection", "add", False)
    stores, guards = [], []
    loops = {}
    for n in ast.walk(add):
        if isinstance(n, ast.For):
            for x in ast.walk(n):
                loops.setdefault(id(x), []).append(n)
    for n in ast.walk(add):
        if isinstance(n, ast.Assign) and any(isinstance(t, ast.Attribute) and t.attr == "_parent" for t in n.targets) \
                and not (isinstance(n.value, ast.Constant) and n.value.value is None):
            stores.append(n)
        if isinstance(n, ast.If) and any(isinstance(x, ast.Raise) for x in n.body):
            t = txt(n.test)
            if "is self" in t and ("collections_all" in t or "children_all" in t):
                guards.append(n)
    res.require(stores, "BaseCollection.add no longer assigns _parent (anchor changed)")

    def loop_iter(n):
        # the collection iterated over, modulo enumerate()/zip() wrappers
        ls = loops.get(id(n), [])
        if not ls:
            return None
        return frozenset(x.id for x in ast.walk(ls[-1].iter) if isinstance(x, ast.Name)) - {"enumerate", "zip", "reversed", "list"}
    # the guard itself must be reached for every collection among the new children: the only condition allowed around it is the
    # type test `isinstance(obj, Collection)` (extra conjuncts such as `and obj._collections` skip the `obj is self` test)
    parents_ = {}
    for x in ast.walk(add):
        for ch in ast.iter_child_nodes(x):
            parents_[id(ch)] = x
    weak = []
    for gd in guards:
        p_ = parents_.get(id(gd))
        while p_ is not None and not isinstance(p_, (ast.For, ast.FunctionDef)):
            if isinstance(p_, ast.If) and gd is not p_:
                t_ = p_.test
                plain = isinstance(t_, ast.Call) and getattr(t_.func, "id", "") == "isinstance" and len(t_.args) == 2 and "Collection" in ast.unparse(t_.args[1])
                if not plain and any(gd is y for b in p_.body for y in ast.walk(b)):
                    weak.append(p_)
            p_ = parents_.get(id(p_))
    for w_ in weak:
        res.add(Finding("E3", c.mod.rel, "BaseCollection.add", w_.test, "the self/ancestor cycle test is only reached under an extra condition: collections for which the condition "
                        "is false (e.g. one without sub-collections) can be added to themselves", w_.lineno))
    ok = bool(guards) and not weak and all(any(gd.lineno < st.lineno and loop_iter(gd) == loop_iter(st) for gd in guards) for st in stores)
    res.ob("E3:add:cycle-test", ok, {"rule": "E3", "guards": [norm(x.test) for x in guards], "parent_stores": [norm(s) for s in stores]})
    if not ok:
        res.add(Finding("E3", c.mod.rel, "BaseCollection.add", "parent assignment not dominated by the self/ancestor cycle test",
                        f"guards={[norm(x.test) for x in guards]}", stores[0].lineno))
    e5(repo, res)
    e6(repo, res)
    e7(repo, res)
    typed_view_flatten(repo, res, 'E5b')
    res.assumptions += ["container operations (list.remove/append) and isinstance do not raise on the paths examined",
                        "callee summaries: Collection.add (complete on normal return), Collection.remove (detaches on normal return) - "
                        "both are themselves editors checked by this rule"]
    return {}


MANIFEST = {
    "category": "other",
    "text": "Static typestate over the tree editors: on every exit of add/remove/the four list setters/the parent setter/rec_obj_remover - "
            "including exceptional edges of callees that can raise - no parent link is half-made and the typed views are refreshed; tree "
            "attributes are written nowhere else; the cycle test precedes parent assignment. Decides that each single edit keeps the forest "
            "consistent whether it returns or raises (hence any history of edits does), not value-level ordering of the flattenings. Round 3: the typed flattenings share the traversal of children_all (E5) and a positional slice of _children does not discharge cleared parent links. Rounds 4-5: no level-by-level flattening from typed views (E5b); the cycle test is reached under the type test only (E3). Rounds 6-7: the view refresh stores all three views on every path (E6); a parent link is cleared only for direct members or under the unlisting helper (E7).",
    "design_ref": "DESIGN.md §3 C11",
    "note": "Trusted: python ast; callee summaries for Collection.add/remove (both are themselves checked editors); list operations and isinstance assumed not to raise.",
    "technique": "static analysis: typestate over a structured CFG with exceptional exits + who-may-write query",
}
