"""C03 - fields are covariant under rigid motion of the whole setup.

Decided clause: frame discipline of the transform into the source frame and back (E2-FRAME):
  F1  getBH_level1: the observers handed to any field function are (global point - source position) rotated by the
      *inverse* source orientation (a vector in the source frame) and the returned field is the forward rotation of the
      function's result (a vector in the global frame)
  F2  get_src_dict hands level 1 each source's own global position path, its own local->global orientation path and the
      global observers; no part of a pose array is overwritten with a constant
  F2b (= C07/W4) position and orientation paths are tiled by the same pipeline, so each row pairs a pose's position with its own orientation
  F2c (LAYOUT, lay_rules.py) row alignment: positions, orientations, observers and per-source parameters handed to level 1 all
      enumerate (group source, path index, pixel) in this order; level 1 pairs them row by row; level 2 re-splits the result in
      the same order and stacks the sensor rotations like the block they are applied to
Not decided: covariance of the closed forms themselves (numerical).
"""
import frame_rules

EXPLANATION = ("coordinate-frame typing (points/vectors/rotations with from->to frames) of getBH_level1 and get_src_dict: every rotation "
               "application, composition and point arithmetic must be well typed under the declared types of _position/_orientation and the "
               "field-function contract. Decides the direction and order of the frame change, not index alignment or numerical covariance.")


def pose_copy_by_operation(repo, res, rule="F2d"):
    """F2d a derived object is given another object's pose by *assignment* (`x.position = self.position`), never by `move` / `rotate`
    with the other object's path as argument: array input to move/rotate is merged into / appended to the path (a path of n steps
    becomes 2n+1 steps starting at the origin), so the derived object is placed elsewhere and its field is no longer the original's."""
    import ast
    from common import Finding, norm
    n = 0
    for m, q, fn_, cl in repo.all_functions():
        for c in ast.walk(fn_):
            if isinstance(c, ast.Call) and isinstance(c.func, ast.Attribute) and c.func.attr in ("move", "rotate") and c.args:
                a = c.args[0]
                if isinstance(a, ast.Attribute) and a.attr in ("position", "_position", "orientation", "_orientation") and isinstance(a.value, ast.Name):
                    n += 1
                    res.add(Finding(rule, m.rel, q, c, f"the pose path `{norm(a)}` of another object is handed to .{c.func.attr}(): for a path this appends/merges instead of "
                                    "placing the receiver like that object (assign position / orientation instead)", c.lineno))
    res.ob(f"{rule}:no pose copied through move/rotate", n == 0, {"rule": rule, "instances": n}, nontrivial=False)


def run(repo, res, tier):
    res.rules = ["F1 level-1 transform in/out", "F2 level-1 inputs built from the sources' own poses; no literal overwrite of poses", "F2b sibling tiling", "F2c axis-layout typing (row alignment)", "F2d poses copied by assignment"]
    extra = frame_rules.c03(repo, res)
    from props import c07
    import lay_rules
    lay_rules.run(res, "F2c")
    pose_copy_by_operation(repo, res)
    c07.w4(repo, res)     # F2b: position and orientation rows are tiled identically (row alignment of the two pose paths)
    res.assumptions += ["declared types: X._position : Pt[G], X._orientation : Rot[X->G]; field function: Vec[S] -> Vec[S]",
                        "SciPy Rotation semantics: apply(v, inverse=True) == inv().apply(v); (p*q).apply(v) == p.apply(q.apply(v))"]
    return extra


MANIFEST = {
    "category": "other",
    "text": "Static decision of the frame-discipline clause of C03: under the declared frame types the observers reaching every field function are "
            "provably `inverse source rotation applied to (global point - source position)` and the value returned to level 2 is the forward rotation "
            "of the result, for every source class at once (all go through getBH_level1); get_src_dict provably passes each source's own pose paths. "
            "Index alignment of tiled rows and the covariance of the closed forms themselves are not decided. Round 3: axis-layout typing (F2c) decides the row alignment of positions, orientations, observers and per-source parameters through get_src_dict, getBH_level1 and getBH_level2. Rounds 4-5: a pose is copied by assignment, never by move/rotate with a path argument (F2d).",
    "design_ref": "DESIGN.md §3 C03",
    "note": "Trusted: the FRAME abstract interpreter (tolerant mode, every rotation site must be judged), 10 lines of type declarations, SciPy Rotation algebra.",
    "technique": "static analysis: abstract interpretation with a coordinate-frame type lattice",
}
