"""C19 - show() draws each object where it is and does not alter it.

Decided clauses:
  D1  every temporary overwrite reachable from show (style_temp_edit -> _style, make_TriangularMesh -> _faces,
      getBH_level2 tiling for 2D sensor output) is restored on every exit
  D2  every write to an attribute of an object/style/defaults class on a non-fresh receiver, in a function reachable
      from show, either (a) lies in a function reached *only* through the body of `with style_temp_edit(..)`
      (where obj.style is a temporary copy) and targets the style, or (b) is a D1 pair, or (c) is a triaged
      derived-data cache / lazy initialisation.  default_settings is only read.
  D3  placement algebra (E2-FRAME): model vertices are rotated by the object's orientation, then translated by its
      position (see frame_rules.c19_d3)
Not decided: that drawn vertices lie on the body and span it (geometry of the model generators); backend conversion.
"""
from __future__ import annotations

import ast
import re

from callgraph import CallGraph
from common import Finding, norm
import rules_t1
from rules_writes import collect_writes, fresh_locals, root_name, MUTATORS

EXPLANATION = ("non-mutation of objects, styles and defaults by show(): swap-restore on all exits for temporary overwrites, "
               "who-may-write over the call graph with dominance by the style_temp_edit region, defaults read-only; plus frame "
               "typing of the placement of model vertices. Decides non-mutation and placement order, not the geometry of the 3D models.")

ROOTS = ["magpylib._src.display.display:show", "magpylib._src.display.display:_show",
         "magpylib._src.display.display:show_context"]
STATE_ROOT_CLASSES = {"BaseGeo", "BaseCollection", "BaseDisplayRepr", "BaseTransform", "MagicProperties"}
LAZY_INIT = {
    "magpylib._src.obj_classes.class_BaseGeo:BaseGeo.style[get]":
        "creates _style from _style_kwargs on first read; value-preserving lazy initialisation",
}
# triaged caches: (class, attr prefix) -> reason
CACHES = {("TriangularMesh", "_status_"): "memoised mesh status / status data computed from vertices+faces (derived data, idempotent)"}


STYLE_MODULES = ("magpylib._src.style", "magpylib._src.defaults.defaults_classes", "magpylib._src.defaults.defaults_utility")


def is_state_class(repo, c):
    return c.mod.name in STYLE_MODULES or any(b.name in STATE_ROOT_CLASSES for b in repo.mro(c))


def state_names(repo):
    names = set()
    for c in repo.cls_by_key.values():
        if not is_state_class(repo, c):
            continue
        names |= set(c.getters) | set(c.setters)
        for f in list(c.methods.values()) + list(c.setters.values()) + list(c.getters.values()):
            for x in ast.walk(f):
                if isinstance(x, ast.Attribute) and isinstance(x.ctx, ast.Store) and isinstance(x.value, ast.Name) and x.value.id == "self":
                    names.add(x.attr)
    return names


def fresh_returning(g: CallGraph, classes):
    """names of repo functions all of whose returns are fresh locals / fresh expressions"""
    from rules_writes import is_fresh_expr
    out = set()
    for fid, n in g.nodes.items():
        rets = [r for r in ast.walk(n.node) if isinstance(r, ast.Return) and r.value is not None]
        if not rets:
            continue
        fl = fresh_locals(n.node, classes)
        if all(is_fresh_expr(r.value, fl, classes) for r in rets):
            out.add(n.node.name)
    return out


def run(repo, res, tier):
    res.rules = ["D1 swap-restore on all exits", "D2 who-may-write with style_temp_edit dominance", "D2b default_settings read-only",
                 "D3 placement frame algebra", "D3d placement homogeneous in model/object/display units", "D5 SI prefix table", "D6 animation frame index = labelled path index", "D7 path line keeps the path order", "D8 path index selection clamps"]
    g = CallGraph(repo)
    roots = [r for r in ROOTS if r in g.nodes]
    res.require("magpylib._src.display.display:show" in g.nodes, "anchor vanished: display.show")
    classes = set(repo.classes)
    snames = state_names(repo)
    fresh_fns = fresh_returning(g, classes)
    res.require("get_style" in fresh_fns, "get_style no longer returns a fresh copy on every path (anchor of D2)")
    stop = {f for f in g.nodes if f.endswith(".__init__")} | set(LAZY_INIT)
    # ---- the temp-style region: calls lexically inside `with style_temp_edit(...)` bodies
    temp_callees, n_with = set(), 0
    # who-may-write over pre-existing objects: a setter reached only through an assignment on an object created in the calling function
    # (copy(): `obj_copy.parent = ..`) runs on that new object
    g.edges = g.edges_for_preexisting()
    outside_edges = {fid: set(v) for fid, v in g.edges.items()}
    for fid, n in g.nodes.items():
        for w in ast.walk(n.node):
            if isinstance(w, ast.With) and any(isinstance(it.context_expr, ast.Call) and getattr(it.context_expr.func, "id", getattr(it.context_expr.func, "attr", "")) == "style_temp_edit" for it in w.items):
                n_with += 1
                copy_true = all(_kw_true(it.context_expr, "copy") for it in w.items if isinstance(it.context_expr, ast.Call))
                inner = set()
                for c in ast.walk(ast.Module(body=w.body, type_ignores=[])):
                    if isinstance(c, ast.Call):
                        nm = c.func.id if isinstance(c.func, ast.Name) else getattr(c.func, "attr", None)
                        for t in g.edges[fid]:
                            if t.split(":")[1].split(".")[-1] == nm:
                                inner.add(t)
                if copy_true:
                    temp_callees |= inner
                    # calls made only inside the with-body do not count as "outside" edges
                    outer_calls = set()
                    for s in ast.walk(n.node):
                        if isinstance(s, ast.Call) and not any(s is x for x in ast.walk(ast.Module(body=w.body, type_ignores=[]))):
                            nm = s.func.id if isinstance(s.func, ast.Name) else getattr(s.func, "attr", None)
                            outer_calls.add(nm)
                    outside_edges[fid] = {t for t in outside_edges[fid] if not (t in inner and t.split(":")[1].split(".")[-1] not in outer_calls)}
                else:
                    res.add(Finding("D2", n.mod.rel, fid.split(":")[1], norm(w.items[0].context_expr),
                                    "style_temp_edit without copy=True: edits inside the block reach the stored style", w.lineno))
    res.require(n_with >= 1, "no `with style_temp_edit(...)` region found (anchor of D2 vanished)")
    g_out = CallGraph.__new__(CallGraph)
    g_out.__dict__.update(g.__dict__)
    g_out.edges = outside_edges
    seen_all, parent = g.reachable(roots, stop=stop)
    seen_out, parent_out = g_out.reachable(roots, stop=stop)
    temp_only = seen_all - seen_out
    res.analysed.update({"reachable_from_show": len(seen_all), "reachable_outside_temp_style_region": len(seen_out),
                         "only_inside_temp_style_region": len(temp_only), "style_temp_edit_regions": n_with})
    # ---- D1 + D2
    helpers = rules_t1.repo_helpers(repo)
    accounted = {}      # helper name -> attributes whose overwrite/restore is judged in a caller's D1 analysis (as in C08)
    for fid in sorted(seen_all):
        t1h = rules_t1.analyse(g.nodes[fid].node, helpers)
        if t1h and not t1h["bad"] and t1h.get("helper_calls"):
            for c_ in ast.walk(g.nodes[fid].node):
                if isinstance(c_, ast.Call) and isinstance(c_.func, ast.Name) and c_.func.id in helpers:
                    accounted.setdefault(c_.func.id, set()).update(t1h["attrs"])
    for fid in sorted(seen_all):
        n = g.nodes[fid]
        fn, fname = n.node, fid.split(":")[1]
        if n.kind == "setter" and n.cls is not None and n.cls.mod.name in STYLE_MODULES:
            continue  # style property setters write self._x; judged at the store site in the caller
        if n.cls is not None and not is_state_class(repo, n.cls):
            own_self = True   # methods of helper classes (DisplayContext, RegisteredBackend): `self` is not an object/style
        else:
            own_self = False
        glob_helpers = set()
        for gname, gv in n.mod.assigns.items():
            if isinstance(gv, ast.Call) and isinstance(gv.func, ast.Name):
                r0 = repo.resolve_name(n.mod, gv.func.id)
                if r0 and r0[0] == "class" and not is_state_class(repo, r0[1]):
                    glob_helpers.add(gname)
        if fname in ("MagicProperties.update", "MagicProperties.__setattr__"):
            continue  # judged at the call site (receiver decides)
        t1 = rules_t1.analyse(fn, helpers)
        paired = set(accounted.get(fn.name, ()))
        if t1:
            res.evaluations += t1["exits"]
            paired |= set(t1["attrs"])
            res.ob(f"D1:{fname}:{','.join(t1['attrs'])}", not t1["bad"],
                   {"rule": "D1", "function": fname, "attrs": t1["attrs"], "exits_examined": t1["exits"], "unrestored": len(t1["bad"])})
            if t1["bad"]:
                exits = [f"{k}@{norm(nd)[:60]}" for k, a, nd in t1["bad"]]
                res.add(Finding("D1", n.mod.rel, fname, f"temporary overwrite of {','.join(t1['attrs'])}",
                                f"not restored on {len(exits)} exit(s): " + " ; ".join(exits[:5]), t1["bad"][0][2].lineno,
                                path=g.path_to(parent, fid)))
        fl = _fresh_with_calls(fn, classes, fresh_fns)
        for w in collect_writes(fn, classes):
            base = w.attr.split(".")[0]
            rn = w.recv.split(".")[0].split("[")[0]
            if rn in fl or (own_self and rn == "self") or rn in glob_helpers:
                continue
            if any(isinstance(h, ast.ExceptHandler) and h.name == rn for h in ast.walk(fn)):
                continue
            # which attribute is being written: for chains obj.style.magnetization.mode the last one
            if base not in snames and not (w.kind == "setattr"):
                continue
            ok, why = False, ""
            if w.kind == "store" and base in paired:
                ok, why = True, "D1 pair"
            elif n.cls is not None and any(n.cls.name == c and base.startswith(p) for (c, p) in CACHES) and rn == "self":
                ok, why = True, "triaged cache"
            elif fid in temp_only and _targets_style(w, fn):
                ok, why = True, "temporary style (inside style_temp_edit region only)"
            elif n.kind == "method" and n.node.name == "__init__" and rn == "self":
                ok, why = True, "constructor"
            elif n.kind == "getter" and rn == "self" and w.kind == "store" and _is_lazy_memo(fn, w):
                ok, why = True, "lazy memo of a getter (stored only while the attribute is None; coherence is C07/W6)"
            res.ob(f"D2:{fname}:{w.kind}:{w.recv}.{w.attr}", ok, {"rule": "D2", "function": fname, "write": f"{w.kind} {w.recv}.{w.attr}", "accepted_as": why})
            if not ok:
                res.add(Finding("D2", n.mod.rel, fname, f"{w.kind} {w.recv}.{w.attr}: {norm(w.stmt)}",
                                "show() path writes to the state of an object/style outside the temporary-style region"
                                if fid not in temp_only else "write inside the temporary-style region that does not target the temporary style",
                                getattr(w.stmt, "lineno", None), path=(g_out if fid in seen_out else g).path_to(parent_out if fid in seen_out else parent, fid)))
        # ---- D2b defaults read-only
        aliases = {"default_settings", "defaults"}
        for s in ast.walk(fn):
            if isinstance(s, ast.Assign) and root_name(s.value) in aliases and not isinstance(s.value, ast.Call):
                for t in s.targets:
                    if isinstance(t, ast.Name):
                        aliases.add(t.id)
        bad_def = []
        for s in ast.walk(fn):
            ts = []
            if isinstance(s, ast.Assign):
                ts = s.targets
            elif isinstance(s, ast.AugAssign):
                ts = [s.target]
            for t in ts:
                if isinstance(t, (ast.Attribute, ast.Subscript)) and root_name(t) in aliases and not isinstance(t, ast.Name):
                    bad_def.append(s)
            if isinstance(s, ast.Call) and isinstance(s.func, ast.Attribute) and s.func.attr in (MUTATORS | {"reset"}) and root_name(s.func.value) in aliases:
                bad_def.append(s)
        if any(root_name(x) in aliases for x in ast.walk(fn) if isinstance(x, ast.Attribute)):
            res.ob(f"D2b:{fname}", not bad_def, {"rule": "D2b", "function": fname, "reads_defaults": True, "writes": len(bad_def)})
        for s in bad_def:
            res.add(Finding("D2b", n.mod.rel, fname, norm(s), "global defaults modified on the show() path", s.lineno))
    extra = {}
    import origin_rules
    origin_rules.display_mutations(repo, res, rule="D2c")
    d3(repo, res)
    d3d(repo, res)
    d5(repo, res)
    d6(repo, res)
    d7(repo, res)
    d8(repo, res)
    d9(repo, res)
    d10(repo, res)
    res.assumptions += [f"triaged lazy initialisation (not traversed): {k} - {v}" for k, v in LAZY_INIT.items()]
    res.assumptions += [f"triaged cache {c}.{p}*: {v}" for (c, p), v in CACHES.items()]
    return extra


SI_PREFIX = {"y": -24, "z": -21, "a": -18, "f": -15, "p": -12, "n": -9, "µ": -6, "μ": -6, "u": -6, "m": -3, "c": -2, "d": -1, "": 0,
             "da": 1, "h": 2, "k": 3, "M": 6, "G": 9, "T": 12, "P": 15, "E": 18, "Z": 21, "Y": 24}
ORDER_DESTROYING = {"unique", "sort", "sorted", "argsort", "lexsort", "set", "frozenset", "flip", "flipud", "fliplr", "shuffle", "permutation", "roll", "reversed"}


def d5(repo, res):
    """D5 the unit announced on the axes: every (prefix symbol, power of ten) pair the package uses to scale lengths is the SI one
    (table cross-check against the declared SI prefixes; `c`/`d` are added inline in get_unit_factor)"""
    um = repo.mod("magpylib._src.utility")
    n = 0
    tab = um.assigns.get("_UNIT_PREFIX")
    res.require(isinstance(tab, ast.Dict) and len(tab.keys) >= 10, "anchor vanished: utility._UNIT_PREFIX table")
    pairs = [(v, k, tab) for k, v in zip(tab.keys, tab.values)]
    fn = um.funcs.get("get_unit_factor")
    res.require(fn is not None, "anchor vanished: utility.get_unit_factor")
    inline = 0
    for d in ast.walk(fn):
        if isinstance(d, ast.Dict):
            for k, v in zip(d.keys, d.values):
                if isinstance(k, ast.Constant) and isinstance(k.value, str) and len(k.value) <= 2:
                    pairs.append((k, v, d)); inline += 1
    res.require(inline >= 2, "anchor vanished: deci/centi entries in get_unit_factor")
    for sym, power, node in pairs:
        try:
            s_, p_ = ast.literal_eval(sym), ast.literal_eval(power)
        except Exception:
            continue
        if not isinstance(s_, str) or not isinstance(p_, int):
            continue
        n += 1
        ok = SI_PREFIX.get(s_) == p_
        res.ob(f"D5:prefix {s_!r}", ok, {"rule": "D5", "prefix": s_, "power_of_ten": p_, "SI": SI_PREFIX.get(s_)}, nontrivial=False)
        if not ok:
            res.add(Finding("D5", um.rel, "get_unit_factor" if node is not tab else "_UNIT_PREFIX", f"{s_!r}: {p_}",
                            f"the prefix {s_!r} stands for 10^{SI_PREFIX.get(s_)} in SI, the table says 10^{p_}: coordinates drawn in this unit are off by a power of ten "
                            "while the axes announce it", getattr(sym, "lineno", None)))
    res.require(n >= 15, f"D5: only {n} prefix entries examined")
    # the factor is 10**(-power): the scaling expression uses the looked-up power with a negative sign / reciprocal
    scal = [b for b in ast.walk(fn) if isinstance(b, ast.BinOp) and isinstance(b.op, ast.Pow) and isinstance(b.left, ast.Constant) and b.left.value == 10]
    res.require(scal, "anchor vanished: 10**power in get_unit_factor")


def d6(repo, res):
    """D6 an animation frame is drawn at the path index it is labelled with: in get_frames' loop over the (downsampled) path indices the
    index handed to the drawing code (`style_path_frames`) and the index shown in the title are the same loop element - not the
    enumeration counter, which only coincides with it when no downsampling takes place"""
    m = repo.mod("magpylib._src.display.traces_generic")
    fn = m.funcs.get("get_frames")
    res.require(fn is not None, "anchor vanished: get_frames")
    found = 0
    for loop in ast.walk(fn):
        if not (isinstance(loop, ast.For) and isinstance(loop.iter, ast.Call) and getattr(loop.iter.func, "id", "") == "enumerate"
                and isinstance(loop.target, ast.Tuple) and len(loop.target.elts) == 2 and all(isinstance(e, ast.Name) for e in loop.target.elts)):
            continue
        cnt, elem = loop.target.elts[0].id, loop.target.elts[1].id
        stores = [s_ for s_ in ast.walk(loop) if isinstance(s_, ast.Assign) and any(isinstance(t, ast.Subscript) and isinstance(t.slice, ast.Constant)
                                                                                    and t.slice.value == "style_path_frames" for t in s_.targets)]
        if not stores:
            continue
        found += 1
        for s_ in stores:
            used = {x.id for x in ast.walk(s_.value) if isinstance(x, ast.Name)}
            ok = elem in used and cnt not in used
            res.ob(f"D6:{norm(s_)}", ok, {"rule": "D6", "store": norm(s_), "loop_element": elem, "loop_counter": cnt})
            if not ok:
                res.add(Finding("D6", m.rel, "get_frames", s_, f"the frame is drawn at `{norm(s_.value)}`: the path index of the frame is the loop element `{elem}`; the counter "
                                f"`{cnt}` differs from it as soon as the path is downsampled to the frame budget", s_.lineno))
        labels = [j for j in ast.walk(loop) if isinstance(j, ast.JoinedStr) and "path index" in ast.unparse(j)]
        for j in labels:
            used = {x.id for x in ast.walk(j) if isinstance(x, ast.Name)}
            ok = elem in used and cnt not in used
            res.ob(f"D6:label:{norm(j)[:40]}", ok, {"rule": "D6", "label": norm(j)[:80]})
            if not ok:
                res.add(Finding("D6", m.rel, "get_frames", j, f"the frame label does not show the loop element `{elem}` (the path index being drawn)", j.lineno))
    res.require(found >= 1, "anchor vanished: loop over the path indices storing style_path_frames in get_frames")


def d9(repo, res):
    """D9 one path index per construction: where display code takes constant entries of an object's pose paths (`_position[k]`,
    `_orientation[k]`, `_barycenter[k]`) to build a local model that is placed along the path later, all of them are the *same* entry -
    a local offset computed from entry -1 and un-rotated with the orientation of entry 0 puts the model at a mixed pose on rotating paths"""
    POSE = ("_position", "_orientation", "_barycenter")
    n = 0
    for modname in sorted(k for k in repo.mods if k.startswith("magpylib._src.display.")):
        m = repo.mods[modname]
        for fname, fn in m.funcs.items():
            idx = {}
            for x in ast.walk(fn):
                if isinstance(x, ast.Subscript) and isinstance(x.slice, (ast.Constant, ast.UnaryOp)) and isinstance(x.ctx, ast.Load):
                    v = x.value
                    is_pose = (isinstance(v, ast.Attribute) and v.attr in POSE) or (isinstance(v, ast.Call) and getattr(v.func, "id", "") == "getattr"
                                                                                    and len(v.args) >= 2 and isinstance(v.args[1], ast.Constant) and v.args[1].value in POSE)
                    if is_pose:
                        root = ast.unparse(v.value if isinstance(v, ast.Attribute) else v.args[0])
                        idx.setdefault(root, {}).setdefault(ast.unparse(x.slice), []).append(x)
            for root, by in idx.items():
                if sum(len(v) for v in by.values()) < 2:
                    continue
                n += 1
                ok = len(by) == 1
                res.ob(f"D9:{fname}:{root}", ok, {"rule": "D9", "function": fname, "object": root, "indices_used": {k: [norm(x) for x in v] for k, v in by.items()}})
                if not ok:
                    minority = min(by.values(), key=len)[0]
                    res.add(Finding("D9", m.rel, fname, minority, f"pose-path entries {sorted(by)} of `{root}` are combined in one construction: on a path whose orientation "
                                    "changes the local model is built from two different poses", minority.lineno))
    res.require(n >= 1, "anchor vanished: no display function combining constant pose-path entries (make_mag_arrows confirmed by hand)")


def d10(repo, res):
    """D10 merging traces keeps every vertex: in merge_scatter3d / merge_mesh3d the merged coordinate arrays are the concatenation of the
    inputs' coordinates (plus separators); no slice is taken of a merged coordinate array afterwards - dropping "the dangling separator"
    with `[:-1]` drops the last vertex of the last line instead (separators are put in front of each trace)."""
    m = repo.mod("magpylib._src.display.traces_utility")
    n = 0
    for fname in ("merge_scatter3d", "merge_mesh3d"):
        fn = m.funcs.get(fname)
        if fn is None:
            continue
        n += 1
        merged = {t.value.id for a in ast.walk(fn) if isinstance(a, ast.Assign) for t in a.targets if isinstance(t, ast.Subscript) and isinstance(t.value, ast.Name)
                  and isinstance(a.value, ast.Call) and getattr(a.value.func, "attr", "") in ("hstack", "concatenate", "vstack")}
        cuts = [x for x in ast.walk(fn) if isinstance(x, ast.Subscript) and isinstance(x.slice, ast.Slice) and isinstance(x.value, ast.Subscript)
                and isinstance(x.value.value, ast.Name) and x.value.value.id in merged and isinstance(x.ctx, ast.Load)]
        res.ob(f"D10:{fname}", not cuts, {"rule": "D10", "function": fname, "merged_containers": sorted(merged), "slices_of_merged_coordinates": [norm(c) for c in cuts]})
        for c in cuts:
            res.add(Finding("D10", m.rel, fname, c, "a slice of a merged coordinate array drops vertices of the merged traces (the separators precede each trace, so the "
                            "last entry is a vertex): the last segment of the last line is not drawn", c.lineno))
    res.require(n >= 1, "anchor vanished: merge_scatter3d / merge_mesh3d")


def d7(repo, res):
    """D7 the path line runs through the path positions in path order: in make_path nothing that reorders or de-duplicates rows
    (unique/sort/set/flip/...) is applied to values derived from the object's position"""
    m = repo.mod("magpylib._src.display.traces_generic")
    fn = m.funcs.get("make_path")
    res.require(fn is not None, "anchor vanished: make_path")
    tainted = set()
    reads = [x for x in ast.walk(fn) if isinstance(x, ast.Attribute) and x.attr in ("position", "_position")]
    res.require(reads, "anchor vanished: make_path no longer reads the object's position")
    changed = True
    while changed:
        changed = False
        for s_ in ast.walk(fn):
            if isinstance(s_, ast.Assign):
                src = any((isinstance(x, ast.Attribute) and x.attr in ("position", "_position")) or (isinstance(x, ast.Name) and x.id in tainted) for x in ast.walk(s_.value))
                if src:
                    for t in s_.targets:
                        for x in ast.walk(t):
                            if isinstance(x, ast.Name) and x.id not in tainted:
                                tainted.add(x.id); changed = True
    bad = []
    for c in ast.walk(fn):
        if isinstance(c, ast.Call):
            nm = getattr(c.func, "attr", getattr(c.func, "id", ""))
            if nm in ORDER_DESTROYING and any((isinstance(x, ast.Attribute) and x.attr in ("position", "_position")) or (isinstance(x, ast.Name) and x.id in tainted)
                                              for a in list(c.args) + [c.func] for x in ast.walk(a)):
                bad.append(c)
        if isinstance(c, ast.Subscript) and isinstance(c.slice, ast.Slice) and isinstance(c.slice.step, ast.UnaryOp) and \
                any((isinstance(x, ast.Attribute) and x.attr in ("position", "_position")) or (isinstance(x, ast.Name) and x.id in tainted) for x in ast.walk(c.value)):
            bad.append(c)
    res.ob("D7:make_path keeps the path order", not bad, {"rule": "D7", "position_derived_names": sorted(tainted), "reordering_operations": [norm(b) for b in bad]})
    for b in bad:
        res.add(Finding("D7", m.rel, "make_path", b, "the path positions are reordered / de-duplicated before the path line is drawn: the line no longer passes through "
                        "the object's path positions in path order", b.lineno))


def d8(repo, res):
    """D8 displayed path indices beyond the end of an object's path show its last pose (the convention of every padded path): in
    get_rot_pos_from_path the selection is clamped to path_len - 1 and never reduced modulo the path length (which would show an
    unrelated earlier pose under the requested index)"""
    m = repo.mod("magpylib._src.display.traces_utility")
    fn = m.funcs.get("get_rot_pos_from_path")
    res.require(fn is not None, "anchor vanished: get_rot_pos_from_path")
    lens = {t.id for s_ in ast.walk(fn) if isinstance(s_, ast.Assign) and "shape[0]" in ast.unparse(s_.value) or (isinstance(s_, ast.Assign) and ast.unparse(s_.value).startswith("len("))
            for t in s_.targets if isinstance(t, ast.Name)}
    res.require(lens, "anchor vanished: path length variable in get_rot_pos_from_path")
    # names computed from the length by +/- a constant (`last = path_len - 1`) stand for it as well
    for _ in range(3):
        for s_ in ast.walk(fn):
            if isinstance(s_, ast.Assign) and len(s_.targets) == 1 and isinstance(s_.targets[0], ast.Name) and isinstance(s_.value, ast.BinOp) \
                    and isinstance(s_.value.op, (ast.Add, ast.Sub)) and isinstance(s_.value.left, ast.Name) and s_.value.left.id in lens and isinstance(s_.value.right, ast.Constant):
                lens.add(s_.targets[0].id)
    mods = [b for b in ast.walk(fn) if (isinstance(b, ast.BinOp) and isinstance(b.op, ast.Mod) and any(isinstance(x, ast.Name) and x.id in lens for x in ast.walk(b.right)))
            or (isinstance(b, ast.Call) and getattr(b.func, "attr", "") in ("mod", "remainder", "fmod") and any(isinstance(x, ast.Name) and x.id in lens for x in ast.walk(b)))]
    clamps = [s_ for s_ in ast.walk(fn) if (isinstance(s_, ast.Assign) and isinstance(s_.targets[0], ast.Subscript) and isinstance(s_.targets[0].slice, ast.Compare)
                                            and any(isinstance(x, ast.Name) and x.id in lens for x in ast.walk(s_.targets[0].slice))
                                            and any(isinstance(x, ast.Name) and x.id in lens for x in ast.walk(s_.value)))
              or (isinstance(s_, ast.Call) and getattr(s_.func, "attr", "") in ("clip", "minimum") and any(isinstance(x, ast.Name) and x.id in lens for x in ast.walk(s_)))]
    ok = bool(clamps) and not mods
    res.ob("D8:path index selection clamps, never wraps", ok, {"rule": "D8", "clamps": [norm(c) for c in clamps], "modular_reductions": [norm(x) for x in mods]})
    for x in mods:
        res.add(Finding("D8", m.rel, "get_rot_pos_from_path", x, "path indices are reduced modulo the path length: an index beyond the path end shows an earlier pose instead of the "
                        "last one (and negative indices lose their from-the-end meaning after np.unique)", x.lineno))
    if not clamps and not mods:
        res.add(Finding("D8", m.rel, "get_rot_pos_from_path", fn, "indices beyond the path end are no longer clamped to the last pose", fn.lineno))


def d3d(repo, res):
    """D3d placement in units: typed with three length units - model units (the trace's own coordinates), object units (metre, the unit
    of `position`) and display units (what the axes announce) - `scale` converts model -> object and `length_factor` object -> display.
    Every sum must be homogeneous (`vertices * scale + position`, never `vertices + position`) and the coordinates written back are
    display lengths.  Reuses the DIM lattice with its three exponents read as (model, object, display)."""
    import common
    from absint import ARepo, Interp, Const as AConst, Unknown as AUnknown, FuncRef, Seq as ASeq
    from dimdom import D, DimDomain
    arepo = ARepo(common.REPO)
    mod = arepo.module("magpylib._src.display.traces_utility")
    if mod is None or "place_and_orient_model3d" not in mod.funcs:
        from common import AnalysisError
        raise AnalysisError("anchor vanished: traces_utility.place_and_orient_model3d")
    fn = mod.funcs["place_and_orient_model3d"]
    dom = DimDomain()
    dom.repo_summaries = {"get_vertices_from_model": lambda d, a, k, n: ASeq([D(l=1), AUnknown("coordsargs"), AUnknown("useargs")], "py")}
    it = Interp(arepo, dom)
    it.tolerant = True
    reshaped = []
    orig = dom.call_external

    def spy(q, args, kwargs, node):
        if q.endswith("reshape") and args:
            reshaped.append((node, args[0]))
        return orig(q, args, kwargs, node)
    dom.call_external = spy
    have = {a.arg for a in fn.args.args + fn.args.kwonlyargs}
    params = dict(model_kwargs=AUnknown("model"), model_args=AConst(None), orientation=AConst(None), position=D(x=1), coordsargs=AConst(None),
                  scale=D(l=-1, x=1), return_model_args=AConst(False), return_coordsargs=AConst(False), length_factor=D(x=-1, m=1))
    params = {k: v for k, v in params.items() if k in have}
    res.require({"position", "scale", "length_factor"} <= set(params), "anchor vanished: position/scale/length_factor parameters of place_and_orient_model3d")
    it.call_func(FuncRef(mod, fn), [], params, fn)
    mism = [f for f in dom.findings if f.kind in ("add-mismatch", "store-mismatch", "join-mismatch")]
    last = reshaped[-1][1] if reshaped else None
    out_ok = isinstance(last, D) and tuple(last.dim) == (0, 0, 1)
    res.evaluations += dom.nexpr
    res.ob("D3d:placement is homogeneous in (model, object, display) units", not mism and out_ok,
           {"rule": "D3d", "typed_expressions": dom.nexpr, "written_back": repr(last), "mismatches": [f.msg for f in mism]})
    for f in mism:
        res.add(Finding("D3d", "magpylib/_src/display/traces_utility.py", "place_and_orient_model3d", f.node, f"adds lengths of different units ({f.msg}; exponents are "
                        "model, object, display units): the model's own `scale` / the unit factor is applied to the wrong summand, so a custom model on an "
                        "off-origin object is drawn at a scaled position", getattr(f.node, "lineno", None)))
    if not mism and not out_ok and last is not None and isinstance(last, D):
        res.add(Finding("D3d", "magpylib/_src/display/traces_utility.py", "place_and_orient_model3d", reshaped[-1][0], f"the coordinates written back are typed {last!r}, "
                        "not display lengths: a unit conversion (scale / length_factor) is missing or applied twice", getattr(reshaped[-1][0], "lineno", None)))
    elif not mism and last is None:
        res.undecided.append("D3d: the coordinates written back by place_and_orient_model3d were not followed")


def d3(repo, res):
    """placement: rotate local model vertices by the object's orientation, then add its position; the unit factor multiplies
    the sum; a placed model is never placed again (D3b)"""
    import frame_rules
    from frame_rules import FD, run_fn, Rot, Pt, Vec, Unknown, Const, Seq
    U = "magpylib._src.display.traces_utility"
    rel = "magpylib/_src/display/traces_utility.py"
    summ = {"get_vertices_from_model": lambda d, a, k, n: Seq([Vec("model"), Unknown("coordsargs"), Unknown("useargs")], "py")}
    params = dict(model_kwargs=Unknown("model"), model_args=Const(None), orientation=Rot("model", "G"), position=Pt("G", "G"), coordsargs=Const(None),
                  scale=Unknown("scale"), return_model_args=Const(False), return_coordsargs=Const(False), length_factor=Unknown("lf"))
    out, dom, it, node, mod = run_fn(U, "place_and_orient_model3d", params, summaries=summ)
    res.evaluations += len(dom.judged)
    for kind, fn, nd, msg in dom.flist:
        res.add(Finding(f"D3:{kind}", rel, "place_and_orient_model3d", nd, msg, getattr(nd, "lineno", None)))
    kinds = [k for k, _ in dom.judged.values()]
    ok = not dom.flist and kinds.count("apply") >= 1 and kinds.count("addsub") >= 1
    res.ob("D3:place_and_orient_model3d: R.apply(vec_local)*scale + pt_G", ok, {"rule": "D3", "judged_sites": sorted(t for _, t in dom.judged.values())})
    if not ok and not dom.flist:
        from common import AnalysisError
        raise AnalysisError(f"D3: placement sites not judged: {kinds}; skipped={getattr(it, 'skipped', [])[:3]}")
    # unit factor: must multiply the sum (vertices and position alike) - def-use on the expression that adds `position`
    adds = [n for n in ast.walk(node) if isinstance(n, ast.BinOp) and isinstance(n.op, ast.Add) and "position" in ast.unparse(n.right) + ast.unparse(n.left)]
    for a in adds:
        lf_inside = any(isinstance(x, ast.Name) and x.id == "length_factor" for x in ast.walk(a))
        res.ob(f"D3:unit-factor:{norm(a)}", not lf_inside, {"rule": "D3", "sum": norm(a), "length_factor_inside_sum": lf_inside})
        if lf_inside:
            res.add(Finding("D3:unit", rel, "place_and_orient_model3d", a, "the length-unit factor is applied to one operand of `vertices + position` only; "
                            "it must scale the placed coordinates as a whole", a.lineno))
    used_lf = any(isinstance(x, ast.Name) and x.id == "length_factor" and isinstance(x.ctx, ast.Load) for x in ast.walk(node)
                  if not isinstance(x, ast.arg))
    lf_mult = [n for n in ast.walk(node) if isinstance(n, ast.BinOp) and isinstance(n.op, ast.Mult) and "length_factor" in ast.unparse(n.right) + ast.unparse(n.left)]
    res.ob("D3:unit-factor-applied", bool(lf_mult), {"rule": "D3", "multiplications_by_length_factor": [norm(x) for x in lf_mult]})
    if not lf_mult:
        res.add(Finding("D3:unit", rel, "place_and_orient_model3d", "length_factor unused", "coordinates are not converted to the announced length unit"))
    # ---- D3c: the displayed poses are position and orientation of the SAME object at the SAME path indices
    um = repo.mod(U)
    gfn = um.funcs.get("get_rot_pos_from_path")
    if gfn is None:
        from common import AnalysisError
        raise AnalysisError("anchor vanished: traces_utility.get_rot_pos_from_path")
    gdefs = {}
    for n in ast.walk(gfn):
        if isinstance(n, ast.Assign) and len(n.targets) == 1 and isinstance(n.targets[0], ast.Name):
            gdefs.setdefault(n.targets[0].id, []).append(n.value)
    from repo import ret_value
    grets = [ret_value(gfn, r) for r in ast.walk(gfn) if isinstance(r, ast.Return)]
    grets = [v for v in grets if isinstance(v, ast.Tuple) and len(v.elts) >= 2]
    okc, detail = bool(grets), {}
    for rv in grets:
        a, b = rv.elts[0], rv.elts[1]

        def one(e):
            if isinstance(e, ast.Name) and len(gdefs.get(e.id, [])) == 1:
                e = gdefs[e.id][0]
            if isinstance(e, ast.Subscript):
                base = e.value
                if isinstance(base, ast.Name) and len(gdefs.get(base.id, [])) == 1:
                    base = gdefs[base.id][0]
                return ast.unparse(base), ast.unparse(e.slice)
            return ast.unparse(e), None
        (ba, ia), (bb, ib) = one(a), one(b)
        detail = {"orientations": f"{ba}[{ia}]", "positions": f"{bb}[{ib}]"}
        recv_a, recv_b = ba.rsplit(".", 1)[0], bb.rsplit(".", 1)[0]
        okc = okc and ia is not None and ia == ib and recv_a == recv_b and ba.endswith("_orientation") and bb.endswith("_position")
    res.ob("D3c:displayed poses pair position and orientation of one object at the same indices", okc, {"rule": "D3c", **detail})
    if not okc:
        res.add(Finding("D3c", rel, "get_rot_pos_from_path", grets[0] if grets else gfn, f"orientations and positions handed to the placement are not "
                        f"`obj._orientation[i]` / `obj._position[i]` of one object with one index array: {detail}"))
    # ---- D4: every object of a (nested) collection is drawn: display code reaches children through children_all or a recursive helper
    for m, qn, fn, cl in repo.all_functions():
        if not m.name.startswith("magpylib._src.display"):
            continue
        recursive = any(isinstance(c, ast.Call) and isinstance(c.func, ast.Name) and c.func.id == fn.name for c in ast.walk(fn))
        def direct_children(e):
            t = ast.unparse(e)
            return bool(re.search(r"\.children\b", t) or re.search(r"getattr\([^,]+, ['\"]children['\"]", t)) and "children_all" not in t
        direct_names = {t_.id for a_ in ast.walk(fn) if isinstance(a_, ast.Assign) and direct_children(a_.value) for t_ in a_.targets if isinstance(t_, ast.Name)}
        # a list that is filled with the direct children (`xs.extend(obj.children)`, `xs += obj.children`, `xs.append(c) for c in obj.children`)
        for a_ in ast.walk(fn):
            if isinstance(a_, ast.Call) and isinstance(a_.func, ast.Attribute) and a_.func.attr in ("extend", "append", "insert") and isinstance(a_.func.value, ast.Name) \
                    and any(direct_children(x) for x in a_.args):
                direct_names.add(a_.func.value.id)
            if isinstance(a_, ast.AugAssign) and isinstance(a_.target, ast.Name) and direct_children(a_.value):
                direct_names.add(a_.target.id)
        for n_ in ast.walk(fn):
            it_ = n_.iter if isinstance(n_, (ast.For, ast.comprehension)) else None
            if it_ is None:
                continue
            hit = direct_children(it_) or any(isinstance(x, ast.Name) and x.id in direct_names for x in ast.walk(it_))
            # `getattr(obj, "children", None) is not None` style type tests are not iterations and never reach here
            if hit:
                res.ob(f"D4:{qn}:{norm(it_)}", recursive, {"rule": "D4", "function": qn, "iterates": norm(it_), "function_is_recursive": recursive})
                if not recursive:
                    res.add(Finding("D4", m.rel, qn, it_, "a non-recursive display function iterates over the direct children only: members of nested "
                                    "collections would not be drawn", it_.lineno))
    import rules_recfwd
    rules_recfwd.recursive_forwarding(repo, res, "D4-fwd", lambda name: name.startswith("magpylib._src.display"))
    # ---- D3b: a placed model must not be placed again
    from flow import BaseClient, function_exits
    n_sites = 0
    for m, qn, fn, cl in repo.all_functions():
        if not m.name.startswith("magpylib._src.display"):
            continue
        calls = [c for c in ast.walk(fn) if isinstance(c, ast.Call) and getattr(c.func, "id", "") == "place_and_orient_model3d"
                 and any(k.arg in ("orientation", "position") for k in c.keywords)]
        if not calls:
            continue
        n_sites += len(calls)
        hits = []

        class PC(BaseClient):
            def call_may_raise(self, call):
                return False

            def transfer(self, s, S):
                out = set()
                for w in S:
                    w = set(w)
                    for c in ast.walk(s):
                        if isinstance(c, ast.Call) and getattr(c.func, "id", "") == "place_and_orient_model3d" and any(k.arg in ("orientation", "position") for k in c.keywords):
                            a0 = c.args[0] if c.args else next((k.value for k in c.keywords if k.arg == "model_kwargs"), None)
                            if isinstance(a0, ast.Name) and ("PLACED", a0.id) in w:
                                hits.append((s, a0.id))
                    if isinstance(s, ast.Assign):
                        v = s.value
                        placed = isinstance(v, ast.Call) and getattr(v.func, "id", "") == "place_and_orient_model3d" and any(k.arg in ("orientation", "position") for k in v.keywords)
                        for t in s.targets:
                            for x in ast.walk(t):
                                if isinstance(x, ast.Name):
                                    (w.add if placed else w.discard)(("PLACED", x.id))
                    out.add(frozenset(w))
                return frozenset(out)

            def enter_loop(self, s):
                pass

            def exit_loop(self, s, S_before, S_body, S_fix):
                o = frozenset()
                for x in (S_before, S_body, S_fix):
                    if x is not None:
                        o |= x
                return o
        # loop targets re-bind (for tr in ...): handled because the loop variable assignment is not an ast.Assign -> clear explicitly
        cl_ = PC()
        function_exits(fn, cl_, frozenset({frozenset()}))
        uniq = {(norm(s), v) for s, v in hits}
        res.ob(f"D3b:{qn}", not uniq, {"rule": "D3b", "function": qn, "placing_calls": len(calls), "re-placed": sorted(x[0] for x in uniq)})
        for s, v in hits[:1]:
            res.add(Finding("D3b", m.rel, qn, s, f"`{v}` already holds a placed (global) model and is placed again: successive path indices would be "
                            "transformed on top of each other", s.lineno))
    res.analysed["placing_call_sites"] = n_sites
    if n_sites < 5:
        from common import AnalysisError
        raise AnalysisError(f"D3b: only {n_sites} placing call sites found")


def _is_lazy_memo(fn, w):
    """`if self._x is None: self._x = <value>` inside a property getter: first-use materialisation of a private attribute"""
    for iff in ast.walk(fn):
        if isinstance(iff, ast.If) and any(w.stmt is x for x in ast.walk(iff)):
            t = iff.test
            if isinstance(t, ast.Compare) and isinstance(t.ops[0], ast.Is) and isinstance(t.comparators[0], ast.Constant) and t.comparators[0].value is None \
                    and ast.unparse(t.left) in (f"self.{w.attr}", f"getattr(self, '{w.attr}', None)") and w.attr.startswith("_"):
                return True
    return False


def _kw_true(call, name):
    for k in call.keywords:
        if k.arg == name:
            return isinstance(k.value, ast.Constant) and k.value.value is True
    # positional third argument or default copy=True
    if len(call.args) >= 3:
        return isinstance(call.args[2], ast.Constant) and call.args[2].value is True
    return True


def _fresh_with_calls(fn, classes, fresh_fns):
    return fresh_locals(fn, set(classes) | set(fresh_fns))


def _targets_style(w, fn):
    """the written location is (part of) obj.style: receiver chain contains `.style`, or a local bound from it"""
    if ".style" in w.recv or w.recv.endswith("style") or w.recv == "style":
        return True
    rn = w.recv.split(".")[0]
    for s in ast.walk(fn):
        if isinstance(s, ast.Assign) and any(isinstance(t, ast.Name) and t.id == rn for t in s.targets):
            v = ast.unparse(s.value)
            if "style" in v:
                return True
    return False


MANIFEST = {
    "category": "other",
    "text": "Static decision of the non-mutation clause of show(): every temporary overwrite reachable from show is restored on all exits, every "
            "other write to object/style state lies in code reached only through the style_temp_edit(copy=True) region and targets the temporary "
            "style (or is a triaged cache), defaults are only read; plus frame typing of the vertex placement. Does not decide the geometry of the models. Also decided by alias analysis and def-use: no in-place write on arrays held by displayed objects, a placed model is never placed again, displayed poses pair one object's position and orientation at the same indices, nested collections are flattened recursively. Round 3: the SI prefix table (D5), animation frames drawn at the path index they are labelled with (D6), the path line keeps the path order (D7), displayed path indices clamp and never wrap (D8). Rounds 4-5: placement typed in model/object/display units (D3d); in-place writes to object arrays in every display function that is handed an object (D2c). Rounds 6-7: constant pose-path entries combined in one display construction are the same entry (D9), no slice of a merged coordinate array (D10), member lists built with extend / append / += reach nested members (D4; one defect repaired, d222257).",
    "design_ref": "DESIGN.md §3 C19",
    "note": "Trusted: python ast; name-based call graph; triaged TriangularMesh status caches and lazy style initialisation.",
    "technique": "static analysis: call-graph dominance (who-may-write), swap-restore typestate, frame-type abstract interpretation",
}
