"""C10 - operations on a Collection keep every child's pose relative to it.

Decided clauses:
  A1  position setter: every child gets  new_parent_pos + (child_pos - old_parent_pos)   (E2-FRAME: Pt[G] + (Pt[G] - Pt[G]))
  A2  orientation setter: every child is rotated by  new o old^-1 : Rot[G->G]  about anchor = the collection's own position, from path index 0
  M1  (E3-ORIGIN) in the pose setters / apply_move / apply_rotation the only arrays written in place are the pose paths of the object being
      updated: no in-place write on a child's path or on a caller-owned value
  V1  the validators feeding pose updates return independent copies (an anchor that aliases a position would be corrupted by `pos -= anchor`)
  A3  recursion coverage: move(), _rotate() and both setters iterate over *all* children and apply the same operation with the same
      arguments (displacement/rotation, anchor, start); _rotate forwards the top-level parent's position path as implicit anchor to
      every descendant (parent_path is passed on unchanged when it is given); reset_path goes through the setters
Not decided: per-index padding of child paths, numeric invariance of the relative pose.
"""
from __future__ import annotations

import ast

import frame_rules
from flow import BaseClient, Flow
from common import AnalysisError, Finding, norm

EXPLANATION = ("transform algebra of the compound setters by frame typing, and structural coverage of the recursion over children in move/_rotate/"
               "setters (same arguments forwarded, top-level anchor path forwarded through nested collections). Decides that children are carried "
               "by the same rigid motion as the collection; per-index path padding of the compound setters is decided on a finite case abstraction (LEN-PATH).")


FULL_FORMS = ("getattr(self, 'children', [])", "self.children", "self._children")


def children_aliases(fn):
    """locals bound exactly once to the complete children list of self"""
    binds = {}
    for a in ast.walk(fn):
        if isinstance(a, ast.Assign) and len(a.targets) == 1 and isinstance(a.targets[0], ast.Name):
            binds.setdefault(a.targets[0].id, []).append(a.value)
    return {n for n, vs in binds.items() if len(vs) == 1 and ast.unparse(vs[0]) in FULL_FORMS}


def is_full(fn, it):
    return ast.unparse(it) in FULL_FORMS or (isinstance(it, ast.Name) and it.id in children_aliases(fn))


def child_loops(fn):
    out = []
    al = children_aliases(fn)
    for n in ast.walk(fn):
        if isinstance(n, ast.For) and isinstance(n.target, ast.Name):
            it = ast.unparse(n.iter)
            if "children" in it or (isinstance(n.iter, ast.Name) and n.iter.id in al):
                out.append(n)
    return out


def _emptiness_guard(fn, test):
    """a test that only asks whether self has children at all (`if children:` / `if not children:` / `len(children) > 0`)"""
    t = test
    while isinstance(t, ast.UnaryOp) and isinstance(t.op, ast.Not):
        t = t.operand
    if isinstance(t, ast.Compare) and len(t.ops) == 1 and isinstance(t.left, ast.Call) and getattr(t.left.func, "id", "") == "len" and t.left.args \
            and isinstance(t.comparators[0], ast.Constant) and t.comparators[0].value in (0, 1):
        t = t.left.args[0]
    return is_full(fn, t)


def _enclosing_ifs(fn, node):
    """[(if node, True if `node` is in its body else False)] from the innermost outwards"""
    parents = {}
    for x in ast.walk(fn):
        for ch in ast.iter_child_nodes(x):
            parents[id(ch)] = x
    out, ch, p = [], node, parents.get(id(node))
    while p is not None:
        if isinstance(p, ast.If) and ch is not p.test:
            out.append((p, any(ch is b for b in p.body)))
        ch, p = p, parents.get(id(p))
    return out


def a3(repo, res):
    bt = repo.cls("BaseTransform")
    rel = bt.mod.rel
    # ---- move
    fn = bt.methods.get("move")
    res.require(fn is not None, "anchor vanished: BaseTransform.move")
    loops = child_loops(fn)
    ok, why = False, "no loop over children"
    for lp in loops:
        full = is_full(fn, lp.iter) and all(_emptiness_guard(fn, g.test) for g, _b in _enclosing_ifs(fn, lp))
        calls = [c for c in ast.walk(lp) if isinstance(c, ast.Call) and isinstance(c.func, ast.Attribute) and c.func.attr == "move"
                 and isinstance(c.func.value, ast.Name) and c.func.value.id == lp.target.id]
        if full and calls:
            c = calls[0]
            args = {**{p: a for p, a in zip(("displacement", "start"), c.args)}, **{k.arg: k.value for k in c.keywords}}
            fw = all(isinstance(args.get(p), ast.Name) and args[p].id == p for p in ("displacement", "start"))
            cond = any(isinstance(x, (ast.If, ast.Break, ast.Continue)) for x in ast.walk(lp) if x is not lp)
            ok, why = fw and not cond, ("" if fw and not cond else "child.move does not receive (displacement, start) unchanged for every child")
    res.ob("A3:move", ok, {"rule": "A3", "method": "move", "loops": [norm(l) for l in loops]})
    if not ok:
        res.add(Finding("A3", rel, "BaseTransform.move", fn if not loops else loops[0], f"children are not moved together with the collection: {why}", fn.lineno))
    # ---- _rotate
    fn = bt.methods.get("_rotate")
    res.require(fn is not None, "anchor vanished: BaseTransform._rotate")
    loops = child_loops(fn)
    ok, why = False, "no loop over children"
    covered = set()         # which outcomes of `parent_path is None` have a complete, correct children loop
    for lp in loops:
        full = is_full(fn, lp.iter)
        calls = [c for c in ast.walk(lp) if isinstance(c, ast.Call) and isinstance(c.func, ast.Attribute) and c.func.attr == "_rotate"
                 and isinstance(c.func.value, ast.Name) and c.func.value.id == lp.target.id]
        if not (full and calls):
            continue
        # the loop may sit under `if children:` and under one arm of a test of parent_path against None (one loop per arm)
        ctx, foreign = None, False
        for g, in_body in _enclosing_ifs(fn, lp):
            t_ = ast.unparse(g.test)
            if _emptiness_guard(fn, g.test):
                continue
            if t_ in ("parent_path is None", "parent_path is not None"):
                ctx = "none" if (t_ == "parent_path is None") == in_body else "given"
            else:
                foreign = True
        if foreign:
            why = "conditional recursion"
            continue
        c = calls[0]
        args = {**{p: a for p, a in zip(("rotation", "anchor", "start", "parent_path"), c.args)}, **{k.arg: k.value for k in c.keywords}}
        fw = all(isinstance(args.get(p), ast.Name) and args[p].id == p for p in ("rotation", "anchor", "start"))
        pp = args.get("parent_path")
        pp_ok = False
        # resolve a local bound once inside the loop / function
        if isinstance(pp, ast.Name) and pp.id != "parent_path":
            defs = [s for s in ast.walk(lp) if isinstance(s, ast.Assign) and any(isinstance(t, ast.Name) and t.id == pp.id for t in s.targets)] or \
                   [s for s in ast.walk(fn) if isinstance(s, ast.Assign) and any(isinstance(t, ast.Name) and t.id == pp.id for t in s.targets)]
            if len(defs) == 1:
                pp = defs[0].value
        if ctx == "none" and pp is not None and ast.unparse(pp) in ("self._position", "self.position"):
            pp_ok = True
        if ctx == "given" and isinstance(pp, ast.Name) and pp.id == "parent_path":
            pp_ok = True
        if isinstance(pp, ast.IfExp):
            t, b, o = ast.unparse(pp.test), ast.unparse(pp.body), ast.unparse(pp.orelse)
            if t == "parent_path is None" and b in ("self._position", "self.position") and o == "parent_path":
                pp_ok = True
            if t == "parent_path is not None" and o in ("self._position", "self.position") and b == "parent_path":
                pp_ok = True
        # statement form of the same choice:  if parent_path is None: v = self._position  else: v = parent_path
        allowed_ifs = set()
        if not pp_ok and isinstance(args.get("parent_path"), ast.Name):
            v = args["parent_path"].id
            for x in ast.walk(lp):
                if isinstance(x, ast.If) and len(x.body) == 1 and len(x.orelse) == 1 and all(
                        isinstance(b, ast.Assign) and len(b.targets) == 1 and isinstance(b.targets[0], ast.Name) and b.targets[0].id == v
                        for b in (x.body[0], x.orelse[0])):
                    t, b, o = ast.unparse(x.test), ast.unparse(x.body[0].value), ast.unparse(x.orelse[0].value)
                    if (t == "parent_path is None" and b in ("self._position", "self.position") and o == "parent_path") or \
                            (t == "parent_path is not None" and o in ("self._position", "self.position") and b == "parent_path"):
                        pp_ok = True
                        allowed_ifs.add(id(x))
        cond = any(isinstance(x, (ast.If, ast.Break, ast.Continue)) and id(x) not in allowed_ifs for x in ast.walk(lp) if x is not lp)
        if fw and pp_ok and not cond:
            covered |= {"none", "given"} if ctx is None else {ctx}
        ok = covered == {"none", "given"}
        why = "" if ok else ("rotation/anchor/start not forwarded unchanged" if not fw else
                             "parent_path is not `self._position if parent_path is None else parent_path`: descendants of nested collections "
                             "would rotate about an inner collection instead of the top-level one" if not pp_ok else "conditional recursion")
    res.ob("A3:_rotate", ok, {"rule": "A3", "method": "_rotate", "loops": [norm(l) for l in loops]})
    if not ok:
        res.add(Finding("A3", rel, "BaseTransform._rotate", fn if not loops else loops[0], f"children are not rotated together with the collection: {why}", fn.lineno))
    # own pose is updated too, with the same arguments
    for meth, helper, argnames in (("move", "apply_move", ("displacement", "start")), ("_rotate", "apply_rotation", ("rotation", "anchor", "start", "parent_path"))):
        fn = bt.methods[meth]
        calls = [c for c in ast.walk(fn) if isinstance(c, ast.Call) and isinstance(c.func, ast.Name) and c.func.id == helper]
        ok = len(calls) == 1 and calls[0].args and ast.unparse(calls[0].args[0]) == "self"
        if ok:
            c = calls[0]
            args = {**{p: a for p, a in zip(argnames, c.args[1:])}, **{k.arg: k.value for k in c.keywords}}
            ok = all(isinstance(args.get(p), ast.Name) and args[p].id == p for p in argnames)
        res.ob(f"A3:{meth}:own-pose", ok, {"rule": "A3", "method": meth, "helper_calls": [norm(c) for c in calls]})
        if not ok:
            res.add(Finding("A3", rel, f"BaseTransform.{meth}", calls[0] if calls else fn, f"{helper}(self, ...) must receive the caller's arguments unchanged"))
    # ---- reset_path via setters
    geo = repo.cls("BaseGeo")
    fn = geo.methods.get("reset_path")
    res.require(fn is not None, "anchor vanished: BaseGeo.reset_path")
    stores = {t.attr for s in ast.walk(fn) if isinstance(s, ast.Assign) for t in s.targets if isinstance(t, ast.Attribute)}
    ok = {"position", "orientation"} <= stores and not ({"_position", "_orientation"} & stores)
    res.ob("A3:reset_path", ok, {"rule": "A3", "stores": sorted(stores)})
    if not ok:
        res.add(Finding("A3", geo.mod.rel, "BaseGeo.reset_path", fn, "reset_path must assign through the position/orientation setters (which carry the children)"))
    # ---- setters loop over all children
    for prop in ("position", "orientation"):
        fn = geo.setters.get(prop)
        res.require(fn is not None, f"anchor vanished: BaseGeo.{prop} setter")
        loops = child_loops(fn)
        full = [lp for lp in loops if is_full(fn, lp.iter) and all(_emptiness_guard(fn, g.test) for g, _b in _enclosing_ifs(fn, lp))]
        # every path through the loop body performs the child update (a branch that only selects how is fine; one that skips is not)
        cond = any(not _body_always_updates(lp, prop) for lp in full)
        # a return before the loop is fine only as `if not children: return` (nothing to carry)
        early = [x for x in ast.walk(fn) if isinstance(x, ast.Return) and full and x.lineno < full[0].lineno
                 and not any(_emptiness_guard(fn, g.test) for g, _b in _enclosing_ifs(fn, x)[:1])]
        cond = cond or bool(early)
        ok = bool(full) and not cond
        res.ob(f"A3:{prop}-setter:all-children", ok, {"rule": "A3", "setter": prop, "loops": [norm(l) for l in loops]})
        if not ok:
            res.add(Finding("A3", geo.mod.rel, f"BaseGeo.{prop} (setter)", fn, "the setter must update every child unconditionally (no early return before, no condition inside the children loop): "
                            "children also have to follow a change of the path LENGTH"))


class _UpdClient(BaseClient):
    def __init__(self, var, prop):
        self.var, self.prop = var, prop

    def call_may_raise(self, call):
        return False

    def transfer(self, s, S):
        for n in ast.walk(s):
            if self.prop == "position" and isinstance(n, ast.Assign) and any(
                    isinstance(t, ast.Attribute) and t.attr == "position" and ast.unparse(t.value) == self.var for t in n.targets):
                return frozenset()
            if self.prop == "orientation" and isinstance(n, ast.Call) and isinstance(n.func, ast.Attribute) and n.func.attr in ("rotate", "_rotate") \
                    and ast.unparse(n.func.value) == self.var:
                return frozenset()
        return S


def _body_always_updates(loop, prop):
    """must-pass-through: from the head of the children loop every path to the end of the body (or a continue / break) passes the
    child's update"""
    var = ast.unparse(loop.target)
    S, exits = Flow(_UpdClient(var, prop)).block(loop.body, frozenset({"NOUPD"}))
    if S:
        return False
    return not any(St for k, St, n in exits if k in ("continue", "break", "return"))


def a4(repo, res):
    """the position getter hands out a fresh array: with a view, `col.position += d` changes the path in place before the setter runs,
    the setter then computes a zero displacement and the children stay behind"""
    import origin_rules
    from origin_rules import O, org_of, run_node
    geo = repo.cls("BaseGeo")
    fn = geo.getters.get("position")
    res.require(fn is not None, "anchor vanished: BaseGeo.position getter")
    out, dom, it = run_node(geo.mod.name, fn, dict(self=O({"A:self"})), name="BaseGeo.position[get]")
    alias = sorted(o for o in org_of(out) if o.startswith("A:self"))
    res.ob("A4:position getter returns a fresh array", not alias, {"rule": "A4", "returns": repr(out)})
    if alias:
        res.add(Finding("A4", geo.mod.rel, "BaseGeo.position (getter)", f"returns a value aliasing {alias}",
                        "an augmented assignment through the getter (`col.position += d`) edits the internal path before the setter runs; "
                        "the compound setter then sees no displacement and leaves the children behind", fn.lineno))


def a5(repo, res):
    """A5 LEN-PATH for the compound setters: on an object with children of other path lengths, the position / orientation setter leaves the
    object and every child with position and orientation paths of the new length, and combines no stacks of different lengths on the way
    (length evaluation over the cases of own length, new length and children's lengths - lenpath.py)"""
    import lenpath
    geo = repo.cls("BaseGeo")
    mods = [geo.mod, repo.mod("magpylib._src.obj_classes.class_BaseTransform")]

    def resolve(name):
        for m_ in mods:
            r = repo.resolve_name(m_, name)
            if r and r[0] == "func":
                return r[2]
        return None
    records = {}
    for m_ in mods:
        for c_ in m_.tree.body:
            if isinstance(c_, ast.ClassDef) and any(ast.unparse(b).endswith("NamedTuple") for b in c_.bases):
                records[c_.name] = [st.target.id for st in c_.body if isinstance(st, ast.AnnAssign) and isinstance(st.target, ast.Name)]
    n, probs, und = lenpath.run_setters(geo.getters, geo.setters, resolve, records)
    res.evaluations += n
    if und:
        res.ob("A5:setters", True, {"rule": "A5", "undecided": und}, nontrivial=False)
        res.undecided.append(f"A5 LEN-PATH: a construct outside the length fragment ({und}); path lengths after the setters not decided")
        return
    res.ob("A5:setters keep every path at the new length", not probs, {"rule": "A5", "cases_evaluated": n, "inconsistent_cases": [f"{s_}: {t_}" for s_, _n, t_ in probs[:5]]})
    seen = set()
    for sample, node, txt in probs:
        key = (norm(node)[:80] if not isinstance(node, ast.FunctionDef) else node.name, txt.split(" of ")[0][:40])
        if key in seen:
            continue
        seen.add(key)
        res.add(Finding("A5", geo.mod.rel, "BaseGeo setters", node if not isinstance(node, ast.FunctionDef) else f"{node.name} setter: path lengths", f"{txt} - for {sample}",
                        getattr(node, "lineno", None)))


def recipes_a5b(repo, res):
    """A5b row recipes: for every case of lenpath.py, how each row of the resulting position / orientation paths is computed from the
    rows of the inputs (`position[1] = rot(i[0], c[1] - p[1]) + p[1]`).  The recipes of the current tree are compared with those recorded
    from the reference tree (sa/lenpath_golden.json): the lengths may all agree while a row is taken from another index (anchor from the tail
    of the parent path, subtraction before padding instead of after).  Independent of the code shape: only the evaluated recipe counts."""
    import json
    import lenpath
    rec, und = lenpath.all_recipes(repo)
    gold = json.load(open(lenpath.GOLDEN))
    mine = [k for k in gold if k.startswith(('set|',))]
    if und:
        res.undecided.append("A5b: row recipes not evaluated (" + "; ".join(und)[:160] + ")")
        return
    diff = [k for k in mine if k in rec and rec[k] != gold[k]]
    res.evaluations += len(mine)
    res.ob("A5b:row recipes equal the reference", not diff, {"rule": "A5b", "cases_compared": sum(1 for k in mine if k in rec), "cases_that_differ": len(diff)})
    if diff:
        k = diff[0]
        line = next((a + "   [reference: " + b + "]") for a, b in zip(rec[k], gold[k]) if a != b)
        res.add(Finding("A5b", "magpylib/_src/obj_classes", "path plumbing", "row recipe: " + k.split("|", 1)[0],
                        f"{len(diff)} of {len(mine)} cases compute a row of the resulting path from other input rows than the reference tree, e.g. {k.split('|', 1)[1]}: {line[:400]}"))


def run(repo, res, tier):
    res.rules = ["A1 position setter algebra", "A2 orientation setter algebra", "A3 recursion coverage / argument forwarding", "A4 position getter returns a fresh array", "A5 LEN-PATH: setters keep every path at the new length", "M1 in-place pose writes only on the updated object", "V1 pose validators return copies"]
    frame_rules.c10_algebra(repo, res)
    a3(repo, res)
    a4(repo, res)
    a5(repo, res)
    recipes_a5b(repo, res)
    import origin_rules
    origin_rules.pose_mutations(repo, res, rule="M1")
    origin_rules.validators_fresh(repo, res, rule="V1", only=("check_format_input_anchor", "check_format_input_vector", "check_format_input_orientation", "make_float_array"))
    res.assumptions += ["declared types: X._position : Pt[G], X._orientation : Rot[X->G]; pad_slice_path returns its second argument re-sliced"]
    return {}


MANIFEST = {
    "category": "other",
    "text": "Static decision of the structural clauses of C10: the compound position/orientation setters apply the typed rigid-motion algebra to the "
            "children (translation by the collection's displacement; rotation by new*old^-1 about the collection's position), and move/_rotate/setters/"
            "reset_path recurse over all children with the same arguments, forwarding the top-level anchor path through nested collections. "
            "Numeric invariance is not decided (per-index padding of child paths: see rounds 6-7 at the end). Also decided: in-place pose writes only on the updated object, pose validators and the position getter hand out fresh arrays (alias analysis), no early return before the children loops. Round 3: if/else lanes that build differently typed rotations are each judged at the child.rotate call (Alt values), and the children loop of the setters is a must-pass-through check (a lane selection is fine, a skipping branch is not). Rounds 6-7: the compound setters are evaluated on lengths and row recipes for 120 cases (object and every child end with both paths at the new length, each row computed from the same input rows as in the reference tree; A5, A5b).",
    "design_ref": "DESIGN.md §3 C10",
    "note": "Trusted: FRAME interpreter + declarations; summaries of validators and pad_slice_path.",
    "technique": "static analysis: frame-type abstract interpretation + structural recursion/forwarding check over the syntax tree",
}
