"""C09 - move/rotate and the pose setters follow the documented path semantics.

Decided clauses:
  P1  (E2-FRAME on apply_rotation / apply_move) new orientation is `rotation o old` (Rot[G->G] * Rot[L->G]); positions are moved by
      `rotation.apply(pt - anchor) + anchor` on one and the same slice; displacement is added to the position path
  P2  delegation: every rotate_from_* returns self.rotate(R.from_*(user args...), anchor, start) with anchor and start forwarded
      unchanged and `degrees` forwarded where the scipy constructor has it
  P3  reject-before-mutate: in apply_move, apply_rotation and both pose setters every validator call on a user-derived value precedes
      the first store to the object's pose and the first in-place write through an alias of it
  P4  paired writes: every function that stores _position also stores _orientation (and vice versa); the writers of either attribute
      are exactly the triaged set
  P4b both pose paths stored by apply_move/apply_rotation derive from the one path_padding(...) result (same padding for both)
  P6  every path extension in the pose code is np.pad(..., "edge"); no cyclic np.resize; sibling pads use the same widths
  P5  (E3-ORIGIN) the only arrays written in place by the pose operations are the pose paths of the object being updated
Not decided: the padding arithmetic of path_padding_param over unbounded integers, edge-padding content, operation sequences.
"""
from __future__ import annotations

import ast

import frame_rules
from callgraph import CallGraph
from repo import call_name, ret_value
from common import AnalysisError, Finding, norm
from flow import function_exits
from props.c17 import S1Client, is_validator_call
from rules_writes import collect_writes

EXPLANATION = ("frame typing of the rotation/translation update (composition order, anchoring), structural delegation of all rotate_from_* forms to "
               "rotate(), validate-before-mutate ordering including in-place writes through aliases of the pose arrays, and who-may-write/pairing of "
               "_position/_orientation. Decides the algebra and ordering of pose updates; the integer padding arithmetic is decided on a finite case abstraction (LEN-PATH: lengths and per-row recipes).")

T = "magpylib._src.obj_classes.class_BaseTransform"
POSE_WRITERS = {
    "BaseGeo._init_position_orientation": "constructor: both paths padded to equal length from validated input",
    "BaseGeo.position": "setter: orientation end-sliced/edge-padded to the new position length",
    "BaseGeo.orientation": "setter: position end-sliced/edge-padded to the new orientation length",
    "apply_move": "stores _position always and _orientation when the path was padded",
    "apply_rotation": "stores both paths",
    "getBH_level2": "temporary tiling with swap-restore (decided under C08/T1)",
}
# scipy Rotation constructors that accept `degrees`
HAS_DEGREES = {"from_rotvec", "from_euler"}


class P3Client(S1Client):
    """S1 taint client + in-place writes through aliases of target._position/_orientation count as 'stored'"""

    def __init__(self, fn, params, hook, target):
        super().__init__(fn, params, hook)
        self.target = target
        self.alias = set()
        for n in ast.walk(fn):
            if isinstance(n, ast.Assign):
                v = ast.unparse(n.value)
                if f"{target}._position" in v or f"{target}._orientation" in v or "path_padding(" in v:
                    for t in n.targets:
                        for x in ast.walk(t):
                            if isinstance(x, ast.Name):
                                self.alias.add(x.id)

    def transfer(self, s, S):
        S = super().transfer(s, S)
        hit = False
        if isinstance(s, (ast.Assign, ast.AugAssign)):
            for t in (s.targets if isinstance(s, ast.Assign) else [s.target]):
                if isinstance(t, ast.Subscript):
                    b = t.value
                    while isinstance(b, ast.Subscript):
                        b = b.value
                    if isinstance(b, ast.Name) and b.id in self.alias:
                        hit = True
                if isinstance(t, ast.Attribute) and isinstance(t.value, ast.Name) and t.value.id == self.target and t.attr in ("_position", "_orientation"):
                    hit = True
        if hit:
            S = frozenset(w | {("STORED",)} for w in S)
        return S


FORMAT_CONVERSIONS = {"array", "asarray", "make_float_array", "reshape", "copy", "astype", "float", "int", "tuple", "list", "atleast_1d", "atleast_2d",
                      "squeeze", "ascontiguousarray"}


def validator_preserves(repo, mod, call):
    """does the validator called here hand back its argument *as a value* - the argument itself or a format conversion of it (array,
    float, reshape, copy)?  `return inp.lower()`, a slice or arithmetic on it is a different value.  None = cannot tell (not a repo
    function / form not recognised)."""
    r = repo.resolve_name(mod, call_name(call) or "")
    if not r or r[0] != "func":
        return None
    vfn = r[2]
    if not vfn.args.args:
        return None
    p = vfn.args.args[0].arg
    binds = {}
    for s_ in ast.walk(vfn):
        if isinstance(s_, ast.Assign) and len(s_.targets) == 1 and isinstance(s_.targets[0], ast.Name):
            binds.setdefault(s_.targets[0].id, []).append(s_.value)

    def ok_expr(e, depth=0):
        if depth > 6:
            return None
        if isinstance(e, ast.Constant):
            return True
        if isinstance(e, ast.Name):
            if e.id == p and e.id not in binds:
                return True
            if e.id in binds:
                rs = [ok_expr(v, depth + 1) for v in binds[e.id]]
                return False if any(x is False for x in rs) else (True if all(x is True for x in rs) else None)
            return None
        if isinstance(e, ast.IfExp):
            rs = [ok_expr(e.body, depth + 1), ok_expr(e.orelse, depth + 1)]
            return False if any(x is False for x in rs) else (True if all(x is True for x in rs) else None)
        if isinstance(e, ast.Call):
            nm = call_name(e) or ""
            uses_p = [a for a in list(e.args) + [k.value for k in e.keywords] + ([e.func.value] if isinstance(e.func, ast.Attribute) else [])
                      if any(isinstance(x, ast.Name) and (x.id == p or x.id in binds) for x in ast.walk(a))]
            if not uses_p:
                return None
            if nm in FORMAT_CONVERSIONS or nm.startswith(("check_", "validate_")):
                return ok_expr(uses_p[0], depth + 1)
            return False            # some other function / method of the value: lower(), strip(), sorted(), ...
        if isinstance(e, ast.Tuple):
            rs = [ok_expr(x, depth + 1) for x in e.elts]
            return False if any(x is False for x in rs) else None
        if isinstance(e, (ast.BinOp, ast.Subscript, ast.UnaryOp)):
            return False if any(isinstance(x, ast.Name) and (x.id == p or x.id in binds) for x in ast.walk(e)) else None
        return None
    rets = [ret_value(vfn, r_) for r_ in ast.walk(vfn) if isinstance(r_, ast.Return) and r_.value is not None]
    rs = [ok_expr(v) for v in rets]
    return False if any(x is False for x in rs) else (True if rs and all(x is True for x in rs) else None)


def p2(repo, res):
    c = repo.cls("BaseTransform")
    names = [n for n in c.methods if n.startswith("rotate_from_")]
    res.require(len(names) >= 6, f"only {len(names)} rotate_from_* methods found")
    for n in names:
        fn = c.methods[n]
        rets = [r for r in ast.walk(fn) if isinstance(r, ast.Return)]
        problems = []
        if len(rets) != 1:
            problems.append(f"{len(rets)} return statements")
        for r in rets:
            call = ret_value(fn, r)
            if not (isinstance(call, ast.Call) and isinstance(call.func, ast.Attribute) and call.func.attr in ("rotate", "_rotate")
                    and isinstance(call.func.value, ast.Name) and call.func.value.id == "self"):
                problems.append("does not return self.rotate(...)")
                continue
            bound = {}
            for p, a in zip(("rotation", "anchor", "start"), call.args):
                bound[p] = a
            for k in call.keywords:
                bound[k.arg] = k.value
            for p in ("anchor", "start"):
                if p not in bound or not (isinstance(bound[p], ast.Name) and bound[p].id == p):
                    problems.append(f"`{p}` is not forwarded unchanged")
            # the parameter must not be re-bound before the call
            for p in ("anchor", "start"):
                for s in ast.walk(fn):
                    if isinstance(s, (ast.Assign, ast.AugAssign)):
                        for t in (s.targets if isinstance(s, ast.Assign) else [s.target]):
                            if isinstance(t, ast.Name) and t.id == p:
                                problems.append(f"`{p}` is re-bound before delegation")
            rot = bound.get("rotation")
            ctor = None
            if isinstance(rot, ast.Name):
                defs = [s for s in ast.walk(fn) if isinstance(s, ast.Assign) and any(isinstance(t, ast.Name) and t.id == rot.id for t in s.targets)]
                if len(defs) == 1:
                    ctor = defs[0].value
            elif isinstance(rot, ast.Call):
                ctor = rot
            if not (isinstance(ctor, ast.Call) and isinstance(ctor.func, ast.Attribute) and ctor.func.attr.startswith("from_")
                    and isinstance(ctor.func.value, ast.Name) and ctor.func.value.id == "R"):
                problems.append("rotation is not built by a scipy Rotation.from_* constructor")
            else:
                suffix = n[len("rotate_from_"):]
                expected_ctor = {"angax": "from_rotvec"}.get(suffix, "from_" + suffix)
                if ctor.func.attr != expected_ctor:
                    problems.append(f"built with R.{ctor.func.attr}, expected R.{expected_ctor}")
                params = [a.arg for a in fn.args.args]
                if "degrees" in params and ctor.func.attr in HAS_DEGREES and n != "rotate_from_angax":
                    dk = next((k.value for k in ctor.keywords if k.arg == "degrees"), None)
                    if not (isinstance(dk, ast.Name) and dk.id == "degrees"):
                        problems.append("`degrees` is not forwarded to the scipy constructor")
                if n != "rotate_from_angax":
                    # "rotate_from_X(v) == rotate(R.from_X(v))": the constructor receives the method's own parameters as they came in
                    # (a `.lower()` on an Euler sequence turns intrinsic axes into extrinsic ones, a transpose inverts a matrix, ...)
                    for a in list(ctor.args) + [k.value for k in ctor.keywords]:
                        if not (isinstance(a, ast.Name) and a.id in params):
                            problems.append(f"`{norm(a)}` is handed to R.{ctor.func.attr} instead of the caller's own argument")
                        else:
                            for s_ in ast.walk(fn):
                                if not (isinstance(s_, (ast.Assign, ast.AugAssign)) and any(isinstance(t, ast.Name) and t.id == a.id
                                        for t in (s_.targets if isinstance(s_, ast.Assign) else [s_.target]))):
                                    continue
                                if isinstance(s_, ast.Assign) and isinstance(s_.value, ast.Call) and (call_name(s_.value) or "").startswith(("check_", "validate_")):
                                    # re-binding through a validator is fine as long as the validator hands the value back unchanged
                                    if validator_preserves(repo, c.mod, s_.value) is False:
                                        problems.append(f"`{a.id}` passes through {call_name(s_.value)}(), which returns a transformed value, before it reaches R.{ctor.func.attr}")
                                    continue
                                problems.append(f"`{a.id}` is re-bound before it reaches R.{ctor.func.attr}")
                if n == "rotate_from_angax":
                    # degrees handled by hand: the conversion must be conditional on `degrees`
                    # (an `if`, a conditional expression, or the flag handed on to a helper / NumPy: any read that is not the type check)
                    checked = {id(x) for c_ in ast.walk(fn) if isinstance(c_, ast.Call) and (call_name(c_) or "").startswith(("check_", "validate_"))
                               for x in ast.walk(c_)}
                    conv = [x for x in ast.walk(fn) if isinstance(x, ast.Name) and x.id == "degrees" and isinstance(x.ctx, ast.Load) and id(x) not in checked]
                    if not conv:
                        problems.append("`degrees` flag is not consulted")
        res.ob(f"P2:{n}", not problems, {"rule": "P2", "method": n, "returns": norm(rets[0]) if rets else None, "problems": problems})
        for p in problems:
            res.add(Finding("P2", c.mod.rel, f"BaseTransform.{n}", rets[0] if rets else fn, p, (rets[0] if rets else fn).lineno))
    # rotate itself delegates to _rotate with the same three arguments
    fn = c.methods.get("rotate")
    res.require(fn is not None, "anchor vanished: BaseTransform.rotate")
    rets = [r for r in ast.walk(fn) if isinstance(r, ast.Return)]
    rv = ret_value(fn, rets[0]) if len(rets) == 1 else None
    ok = len(rets) == 1 and isinstance(rv, ast.Call) and ast.unparse(rv.func) == "self._rotate" and \
        {k.arg: ast.unparse(k.value) for k in rv.keywords} == {"rotation": "rotation", "anchor": "anchor", "start": "start"}
    res.ob("P2:rotate->_rotate", ok, {"rule": "P2", "returns": norm(rets[0]) if rets else None})
    if not ok:
        res.add(Finding("P2", c.mod.rel, "BaseTransform.rotate", rets[0] if rets else fn, "rotate() must forward rotation, anchor, start unchanged to _rotate()"))


def p3(repo, res):
    m = repo.mod(T)
    geo = repo.cls("BaseGeo")
    items = [(m, "apply_move", m.funcs.get("apply_move"), "target_object"), (m, "apply_rotation", m.funcs.get("apply_rotation"), "target_object"),
             (geo.mod, "BaseGeo.position (setter)", geo.setters.get("position"), "self"),
             (geo.mod, "BaseGeo.orientation (setter)", geo.setters.get("orientation"), "self")]
    for mod, qn, fn, target in items:
        res.require(fn is not None, f"anchor vanished: {qn}")
        params = [a.arg for a in fn.args.args + fn.args.kwonlyargs if a.arg not in ("self", "target_object")]
        events = []

        def hook(kind, s, problem, attr=None, events=events):
            events.append((kind, s, problem))
        cl = P3Client(fn, params, hook, target)
        exits, nst = function_exits(fn, cl, frozenset({frozenset()}))
        res.evaluations += len(exits)
        nval = sum(1 for c in ast.walk(fn) if is_validator_call(c))
        bad = {(norm(s), p) for k, s, p in events if k == "order"}
        res.ob(f"P3:{qn}", not bad, {"rule": "P3", "function": qn, "validator_calls": nval, "pose_aliases": sorted(cl.alias), "late_validations": sorted(x[0] for x in bad)})
        for k, s, p in events:
            if k == "order":
                res.add(Finding("P3", mod.rel, qn, s, p + " (a rejected call would leave the pose partly changed)", s.lineno))
        if qn.startswith("apply_") and nval < 2:
            raise AnalysisError(f"P3: {qn} has {nval} validator calls (expected >= 2): anchors changed")
        # validators' arguments must not depend on the target object (so the first leaf of a collection decides for all)
        for c in ast.walk(fn):
            if is_validator_call(c) and qn.startswith("apply_"):
                dep = [x for x in ast.walk(c) if isinstance(x, ast.Name) and x.id == target]
                res.ob(f"P3:{qn}:indep:{norm(c)[:40]}", not dep, None, nontrivial=False)
                if dep:
                    res.add(Finding("P3", mod.rel, qn, c, "validator argument depends on the target object: with a collection, children processed "
                                    "earlier would already be modified when a later one is rejected", c.lineno))


def p4(repo, res):
    classes = set(repo.classes)
    writers = {}
    from props.c19 import STYLE_MODULES
    for m, qn, fn, cl in repo.all_functions():
        if m.name in STYLE_MODULES:
            continue   # style classes have unrelated `orientation` display properties
        for w in collect_writes(fn, classes):
            if w.kind == "store" and w.attr in ("_position", "_orientation"):
                writers.setdefault(qn.replace(" (setter)", ""), {"mod": m, "fn": fn, "attrs": set(), "first": w})["attrs"].add(w.attr)
    import rules_t1
    for q, info in sorted(writers.items()):
        known = q in POSE_WRITERS
        both = info["attrs"] == {"_position", "_orientation"}
        if not known:
            # a helper all of whose pose stores are self-slices (`obj._position = obj._position[:m0]`) only trims paths back to what they
            # were: the restoring half of the level-2 tiling extracted into a function, not a new pose writer
            try:
                h = rules_t1.helper_summary(info["fn"])
            except RecursionError:
                h = {"restores": set(), "overwrites": {"?"}}
            if not h["overwrites"] and info["attrs"] <= (h["restores"] | set(h.get("param_restores", {}))):
                res.ob(f"P4:{q}", both, {"rule": "P4", "writer": q, "writes": sorted(info["attrs"]), "triaged": "pure restoring helper (self-slices only)"})
                if both:
                    continue
        res.ob(f"P4:{q}", known and both, {"rule": "P4", "writer": q, "writes": sorted(info["attrs"]), "triaged": POSE_WRITERS.get(q)})
        if not known:
            res.add(Finding("P4", info["mod"].rel, q, info["first"].stmt, "pose attribute written outside the triaged set of pose writers", info["first"].stmt.lineno))
        elif not both:
            res.add(Finding("P4", info["mod"].rel, q, info["first"].stmt, f"writes {sorted(info['attrs'])} but not the other path: "
                            "position and orientation paths must be updated together", info["first"].stmt.lineno))
    missing = set(POSE_WRITERS) - set(writers)
    res.analysed["pose_writers"] = sorted(writers)
    if missing - {"getBH_level2"}:
        raise AnalysisError(f"P4: triaged pose writers vanished: {sorted(missing)}")


def p4b(repo, res):
    """both pose paths must come out of ONE padding computation: where a function obtains a padded position path from
    path_padding(...), the orientation it stores derives from the quaternion path returned by the same call (or from np.pad with
    the very same padding variable).  Independent padding can pad one path in front and the other behind."""
    m = repo.mod(T)
    for fname in ("apply_move", "apply_rotation"):
        fn = m.funcs.get(fname)
        res.require(fn is not None, f"anchor vanished: {fname}")
        pp = [s for s in ast.walk(fn) if isinstance(s, ast.Assign) and isinstance(s.value, ast.Call) and getattr(s.value.func, "id", "") == "path_padding"
              and isinstance(s.targets[0], ast.Tuple)]
        if not pp:
            res.notes.append(f"P4b: {fname} does not use path_padding")
            continue
        elts = pp[0].targets[0].elts
        res.require(len(elts) >= 2, f"{fname}: path_padding result no longer unpacked")
        pvar = elts[0].id if isinstance(elts[0], ast.Name) else None
        ovar = elts[1].id if isinstance(elts[1], ast.Name) else None
        defs = {}
        for s in ast.walk(fn):
            if isinstance(s, ast.Assign) and len(s.targets) == 1 and isinstance(s.targets[0], ast.Name):
                defs.setdefault(s.targets[0].id, []).append(s.value)

        def derives(e, var, depth=0):
            if var is None:
                return False
            for x in ast.walk(e):
                if isinstance(x, ast.Name):
                    if x.id == var:
                        return True
                    if depth < 4 and x.id in defs and x.id not in (pvar, ovar):
                        if any(derives(v, var, depth + 1) for v in defs[x.id]):
                            return True
            return False
        for st in ast.walk(fn):
            if not isinstance(st, ast.Assign):
                continue
            for t in st.targets:
                if isinstance(t, ast.Attribute) and isinstance(t.value, ast.Name) and t.value.id == "target_object" and t.attr in ("_position", "_orientation"):
                    want = pvar if t.attr == "_position" else ovar
                    ok = derives(st.value, want) and want not in ("_", None)
                    res.ob(f"P4b:{fname}:{t.attr}", ok, {"rule": "P4b", "function": fname, "store": norm(st), "must_derive_from": want})
                    if not ok:
                        res.add(Finding("P4b", m.rel, fname, st, f"the stored {t.attr[1:]} path does not derive from the path returned by the common "
                                        "path_padding(...) call: position and orientation may be padded differently (front vs. behind)", st.lineno))


def p6(repo, res):
    """edge padding: every extension of a path-like array in the pose code uses np.pad(..., "edge") (hold the first/last entry);
    np.resize (cyclic repetition) and constant/wrap/reflect pad modes are never a path extension.  Position and orientation are
    padded by sibling calls with identical padding widths."""
    mods = [repo.mod(T), repo.mod("magpylib._src.obj_classes.class_BaseGeo")]
    n = 0
    for m in mods:
        for mm, qn, fn, cl in repo.all_functions():
            if mm is not m:
                continue
            pads = []
            for c in ast.walk(fn):
                if isinstance(c, ast.Call) and isinstance(c.func, ast.Attribute) and isinstance(c.func.value, ast.Name) and c.func.value.id == "np":
                    if c.func.attr == "pad":
                        n += 1
                        mode = c.args[2] if len(c.args) > 2 else next((k.value for k in c.keywords if k.arg == "mode"), None)
                        ok = isinstance(mode, ast.Constant) and mode.value == "edge"
                        res.ob(f"P6:{qn}:{norm(c)[:60]}", ok, {"rule": "P6", "function": qn, "pad": norm(c)})
                        pads.append(c)
                        if not ok:
                            res.add(Finding("P6", m.rel, qn, c, "a path is extended with a pad mode other than 'edge': the documented semantics is to hold "
                                            "the first/last pose", c.lineno))
                    elif c.func.attr == "resize":
                        res.ob(f"P6:{qn}:{norm(c)[:60]}", False)
                        res.add(Finding("P6", m.rel, qn, c, "np.resize repeats the data cyclically: a path (or per-step anchor list) must be continued "
                                        "with its last entry (np.pad(..., 'edge'))", c.lineno))
            # sibling pads in one function (position/orientation) use the same widths
            widths = {ast.unparse(c.args[1]) for c in pads if len(c.args) > 1}
            if len(pads) >= 2 and qn.endswith("path_padding"):
                ok = len(widths) == 1
                res.ob(f"P6:{qn}:same widths", ok, {"rule": "P6", "function": qn, "pad_widths": sorted(widths)})
                if not ok:
                    res.add(Finding("P6", m.rel, qn, pads[0], f"position and orientation are padded with different widths {sorted(widths)}", pads[0].lineno))
    res.require(n >= 6, f"P6: only {n} np.pad calls found in the pose code")


def _rank(e, env):
    """('quat', rank) / ('rot', 'single'|'stack') / None for an expression of the None branch (SciPy/NumPy construction table)"""
    if isinstance(e, ast.Name):
        return env.get(e.id)
    if isinstance(e, (ast.Tuple, ast.List)):
        if e.elts and all(isinstance(x, (ast.Constant, ast.UnaryOp)) for x in e.elts):
            return ("quat", 1)
        inner = [_rank(x, env) for x in e.elts]
        if inner and all(i and i[0] == "quat" for i in inner):
            return ("quat", inner[0][1] + 1)
        return None
    if isinstance(e, ast.Call) and isinstance(e.func, ast.Attribute):
        a, base = e.func.attr, e.func.value
        if a in ("array", "asarray") and e.args:
            return _rank(e.args[0], env)
        if a == "from_quat" and e.args:
            r = _rank(e.args[0], env)
            return ("rot", "single" if r[1] == 1 else "stack") if r and r[0] == "quat" else None
        if a == "identity" and ast.unparse(base) in ("Rotation", "R"):
            none_arg = not e.args and not e.keywords or (e.args and isinstance(e.args[0], ast.Constant) and e.args[0].value is None)
            return ("rot", "single" if none_arg else "stack")
        if a == "as_quat":
            r = _rank(base, env)
            return ("quat", 1 if r[1] == "single" else 2) if r and r[0] == "rot" else None
    return None


def p6b(repo, res):
    """P6b the constructor makes both pose paths equally long for every ordering of their lengths: the padding branches of
    `_init_position_orientation` compare the two lengths with each other (finite orderings <, =, >) and cover both `>` and `<`;
    a branch on a literal length (`len_ori == 1`) leaves 1 < len_ori < len_pos unpadded"""
    geo = repo.cls("BaseGeo")
    fn = geo.methods.get("_init_position_orientation")
    res.require(fn is not None, "anchor vanished: BaseGeo._init_position_orientation")
    # first the length evaluator (lengths.py): the two path lengths for every ordering of the input lengths, whatever the code shape
    import lengths

    def resolve(name):
        r = repo.resolve_name(geo.mod, name)
        return r[2] if r and r[0] == "func" else None
    params = [a.arg for a in fn.args.args][1:3]
    if len(params) == 2:
        verdict, detail = lengths.equal_lengths_after(fn, resolve, params[0], params[1])
        if verdict is not None:
            res.ob("P6b:constructor pads for both orderings of the path lengths", verdict, {"rule": "P6b", "method": "length evaluation over the orderings of the two input lengths",
                                                                                            "samples": lengths.SAMPLES, "unequal": detail})
            if not verdict:
                res.add(Finding("P6b", geo.mod.rel, "BaseGeo._init_position_orientation", fn,
                                f"the padding does not cover every ordering of position-path length vs orientation-path length ({detail}): "
                                "for the uncovered ordering the object is created with unequal path lengths", fn.lineno))
            return
        res.notes.append(f"P6b: length evaluation undecided ({detail}); falling back to the branch-shape rule")
    lens = {}
    for s_ in ast.walk(fn):
        if isinstance(s_, ast.Assign) and len(s_.targets) == 1:
            pairs = [(s_.targets[0], s_.value)]
            if isinstance(s_.targets[0], ast.Tuple) and isinstance(s_.value, ast.Tuple) and len(s_.targets[0].elts) == len(s_.value.elts):
                pairs = list(zip(s_.targets[0].elts, s_.value.elts))         # `len_pos, len_ori = pos.shape[0], oriQ.shape[0]`
            for tg, val in pairs:
                t = ast.unparse(val)
                if isinstance(tg, ast.Name) and (t.endswith(".shape[0]") or t.startswith("len(")):
                    lens[tg.id] = t
    covered = set()
    lit_branches = []
    for iff in ast.walk(fn):
        if isinstance(iff, ast.If) and isinstance(iff.test, ast.Compare) and len(iff.test.ops) == 1:
            a, b, op = iff.test.left, iff.test.comparators[0], iff.test.ops[0]
            def pad_call(c, depth=1):
                if not isinstance(c, ast.Call):
                    return False
                if getattr(c.func, "attr", "") in ("pad", "tile", "repeat", "concatenate"):
                    return True
                if depth and isinstance(c.func, ast.Name):        # a padding helper of the package (pad_slice_path)
                    r = repo.resolve_name(geo.mod, c.func.id)
                    return bool(r and r[0] == "func" and any(pad_call(x, depth - 1) for x in ast.walk(r[2])))
                return False
            pads = any(pad_call(c) for c in ast.walk(ast.Module(body=iff.body, type_ignores=[])))
            if not pads:
                continue
            if isinstance(a, ast.Name) and isinstance(b, ast.Name) and {a.id, b.id} <= set(lens):
                if isinstance(op, (ast.Gt, ast.Lt, ast.NotEq)):
                    first = min(lens)      # canonical order of the two names
                    if isinstance(op, ast.NotEq):
                        covered |= {"<", ">"}
                    else:
                        gt = isinstance(op, ast.Gt)
                        covered.add(">" if (gt == (a.id == first)) else "<")
            elif (isinstance(a, ast.Name) and a.id in lens and isinstance(b, ast.Constant)) or (isinstance(b, ast.Name) and b.id in lens and isinstance(a, ast.Constant)):
                lit_branches.append(iff)
    res.require(len(lens) >= 2, "anchor vanished: the two path lengths in _init_position_orientation")
    ok = covered == {"<", ">"}
    res.ob("P6b:constructor pads for both orderings of the path lengths", ok, {"rule": "P6b", "lengths": lens, "orderings_padded": sorted(covered), "branches_on_literal_lengths": len(lit_branches)})
    if not ok:
        res.add(Finding("P6b", geo.mod.rel, "BaseGeo._init_position_orientation", lit_branches[0] if lit_branches else fn,
                        f"the padding branches cover only the orderings {sorted(covered)} of position-path length vs orientation-path length"
                        + (" (a branch tests a literal length instead)" if lit_branches else "") + ": for the uncovered ordering the object is created with unequal path lengths",
                        (lit_branches[0] if lit_branches else fn).lineno))


def p7(repo, res):
    """P7: `rotate(None)` / `orientation=None` is the *single* identity rotation: in check_format_input_orientation the quaternion
    returned on the None path has rank 1 (a stack of one rotation is a path operation: it appends instead of applying to the whole path).
    The function body is evaluated under the assumption `inp is None`: tests of the parameter against None (directly or through a flag
    bound to such a test) are decided, if statements and conditional expressions follow the decided branch."""
    fn = repo.func("magpylib._src.input_checks", "check_format_input_orientation")
    rel = "magpylib/_src/input_checks.py"
    p = fn.args.args[0].arg
    env, flags, decided, rets = {}, {}, [], []

    def truth(t):
        """value of a test under `p is None`, or None when it does not depend on that alone"""
        if isinstance(t, ast.UnaryOp) and isinstance(t.op, ast.Not):
            v = truth(t.operand)
            return None if v is None else not v
        if isinstance(t, ast.Compare) and len(t.ops) == 1 and isinstance(t.ops[0], (ast.Is, ast.IsNot)) and ast.unparse(t.left) == p \
                and isinstance(t.comparators[0], ast.Constant) and t.comparators[0].value is None:
            return isinstance(t.ops[0], ast.Is)
        if isinstance(t, ast.Name) and t.id in flags:
            return flags[t.id]
        return None

    def value(e):
        if isinstance(e, ast.IfExp):
            v = truth(e.test)
            if v is not None:
                decided.append(e)
                return value(e.body if v else e.orelse)
            return None
        return e

    def block(stmts):
        for s_ in stmts:
            if isinstance(s_, ast.If):
                v = truth(s_.test)
                if v is not None:
                    decided.append(s_)
                    block(s_.body if v else s_.orelse)
                continue            # a branch on something else (init_format): both arms return, handled through the returns below
            if isinstance(s_, ast.Assign) and len(s_.targets) == 1 and isinstance(s_.targets[0], ast.Name):
                t_ = truth(s_.value)
                if t_ is not None:
                    flags[s_.targets[0].id] = t_
                    continue
                v = value(s_.value)
                if v is not None:
                    env[s_.targets[0].id] = _rank(v, env)
    block(fn.body)
    res.require(decided, "anchor vanished: no test of the input against None in check_format_input_orientation")
    for r in ast.walk(fn):
        if isinstance(r, ast.Return):
            v = ret_value(fn, r)
            if isinstance(v, ast.Tuple) and len(v.elts) == 2:
                rets.append(v)
    res.require(rets, "anchor vanished: `return <rotation>, <quaternion>` in check_format_input_orientation")
    q = value(rets[0].elts[1])
    r = _rank(q, env) if q is not None else None
    ok = r == ("quat", 1)
    res.ob("P7:None is the single identity rotation", ok or r is None, {"rule": "P7", "quaternion_on_None_path": repr(r), "bindings": {k: repr(v) for k, v in env.items()}})
    if r is None:
        res.undecided.append("P7: rank of the quaternion returned for orientation=None not determined from the construction table")
    elif not ok:
        iff = decided[0]
        res.add(Finding("P7", rel, "check_format_input_orientation", iff, f"for None the validator returns a quaternion of rank {r[1]} (a stack of rotations): "
                        "rotate(None) is then treated as vector input and appended to the path instead of being applied to the whole path", iff.lineno))


def p9(repo, res):
    """P9 LEN-PATH: length consistency of the path plumbing behind move / rotate, by length evaluation over the cases of (path length,
    scalar / vector input and its length, start, anchor form, parent path length) - see lenpath.py"""
    import lenpath
    m = repo.mod("magpylib._src.obj_classes.class_BaseTransform")

    def resolve(name):
        r = repo.resolve_name(m, name)
        return r[2] if r and r[0] == "func" else None
    for fname, runner in (("apply_move", lenpath.run_move), ("apply_rotation", lenpath.run_rotation)):
        fn = m.funcs.get(fname)
        res.require(fn is not None, f"anchor vanished: {fname}")
        records = {c.name: [st.target.id for st in c.body if isinstance(st, ast.AnnAssign) and isinstance(st.target, ast.Name)]
                   for c in m.tree.body if isinstance(c, ast.ClassDef) and any(ast.unparse(b).endswith("NamedTuple") for b in c.bases)}
        n, probs, und = runner(fn, resolve, records)
        res.evaluations += n
        if und:
            res.ob(f"P9:{fname}", True, {"rule": "P9", "function": fname, "undecided": und}, nontrivial=False)
            res.undecided.append(f"P9 LEN-PATH: {fname}: a construct outside the length fragment ({und}); lengths not decided")
            continue
        res.ob(f"P9:{fname}:lengths consistent for every case", not probs, {"rule": "P9", "function": fname, "cases_evaluated": n,
                                                                         "inconsistent_cases": [f"{s_}: {t_}" for s_, _n, t_ in probs[:5]]})
        seen = set()
        for sample, node, txt in probs:
            key = (norm(node)[:80] if not isinstance(node, ast.FunctionDef) else fname, txt.split(":")[0])
            if key in seen:
                continue
            seen.add(key)
            res.add(Finding("P9", m.rel, fname, node if not isinstance(node, ast.FunctionDef) else f"{fname}: path lengths",
                            f"{txt} - for {sample}" + (f" (and {sum(1 for s2, n2, t2 in probs if n2 is node) - 1} more cases)" if sum(1 for s2, n2, t2 in probs if n2 is node) > 1 else ""),
                            getattr(node, "lineno", None)))


def recipes_p9b(repo, res):
    """P9b row recipes: for every case of lenpath.py, how each row of the resulting position / orientation paths is computed from the
    rows of the inputs (`position[1] = rot(i[0], c[1] - p[1]) + p[1]`).  The recipes of the current tree are compared with those recorded
    from the reference tree (sa/lenpath_golden.json): the lengths may all agree while a row is taken from another index (anchor from the tail
    of the parent path, subtraction before padding instead of after).  Independent of the code shape: only the evaluated recipe counts."""
    import json
    import lenpath
    rec, und = lenpath.all_recipes(repo)
    gold = json.load(open(lenpath.GOLDEN))
    mine = [k for k in gold if k.startswith(('move|', 'rotate|'))]
    if und:
        res.undecided.append("P9b: row recipes not evaluated (" + "; ".join(und)[:160] + ")")
        return
    diff = [k for k in mine if k in rec and rec[k] != gold[k]]
    res.evaluations += len(mine)
    res.ob("P9b:row recipes equal the reference", not diff, {"rule": "P9b", "cases_compared": sum(1 for k in mine if k in rec), "cases_that_differ": len(diff)})
    if diff:
        k = diff[0]
        line = next((a + "   [reference: " + b + "]") for a, b in zip(rec[k], gold[k]) if a != b)
        res.add(Finding("P9b", "magpylib/_src/obj_classes", "path plumbing", "row recipe: " + k.split("|", 1)[0],
                        f"{len(diff)} of {len(mine)} cases compute a row of the resulting path from other input rows than the reference tree, e.g. {k.split('|', 1)[1]}: {line[:400]}"))


def run(repo, res, tier):
    res.rules = ["P1 composition/anchoring (FRAME)", "P2 rotate_from_* delegation", "P3 reject-before-mutate", "P4 paired pose writes / who-may-write", "P5 in-place pose writes", "P6 one padding computation", "P6b constructor pads for both length orderings",
                 "P7 None is the single identity rotation", "P8 no read-only view becomes a pose path", "P9 LEN-PATH: path lengths consistent for every case of lengths / start / anchor", "P10 pose-path gates reject empty input"]
    frame_rules.c09_p1(repo, res)
    from props import c17 as _c17
    _c17.nonempty_gates(repo, res, "P10")       # "paths always have equal length >= 1": nothing of length 0 gets in
    p2(repo, res)
    p3(repo, res)
    p4(repo, res)
    p4b(repo, res)
    p6(repo, res)
    p6b(repo, res)
    p7(repo, res)
    p9(repo, res)
    recipes_p9b(repo, res)
    import rules_roview
    rules_roview.run(repo, res, 'P8')
    import origin_rules
    origin_rules.pose_mutations(repo, res, rule="P5")
    res.assumptions += ["SciPy/NumPy calls after the first in-place write do not raise (shapes are made consistent by path_padding before)",
                        "declared types: rotation : Rot[G->G], anchor : Pt[G], displacement : Vec[G]"]
    return {}


MANIFEST = {
    "category": "other",
    "text": "Static decision of the structural clauses of C09: rotation composes on the left of the existing orientation and moves positions about the "
            "anchor (frame typing), all rotate_from_* forms delegate to rotate() with anchor/start/degrees forwarded, every validation precedes the first "
            "write to the pose including in-place writes through aliases (a rejected call changes nothing), and position/orientation are only ever "
            "written together by a fixed set of functions. The integer padding arithmetic (path_padding_param) needs linear arithmetic over unbounded "
            "path lengths and was declared undecided at first (decided since round 6 on a finite case abstraction, see the end of this text). Also decided: both pose paths come from one padding computation, every path extension is edge padding, and only the updated object's paths are written in place (alias analysis). Round 3: rotate(None) is the single identity rotation (rank of the quaternion on the None path, P7) and each rotate_from_* hands its own unmodified parameters to the SciPy constructor (P2). Rounds 4-5: validators on the way to the SciPy constructor hand the value back unchanged (P2), no read-only view becomes a path (P8), the constructor pads for both orderings of the path lengths (P6b). Rounds 6-7: the integer padding arithmetic IS decided on a finite abstraction (LEN-PATH, P9): for 864 cases of path length / input length / start class / scalar-vs-vector / anchor form the evaluator checks slice-store lengths, rotation stack lengths and the documented result length, and compares the symbolic recipe of every resulting row with the reference tree (P9b); size tests are dominated by the rank test (S20), input guards compare exactly (S22).",
    "design_ref": "DESIGN.md §3 C09",
    "note": "Trusted: FRAME interpreter + declarations; summaries of the validators (return their argument) and of path_padding (returns aliases of the pose paths).",
    "technique": "static analysis: frame-type abstract interpretation, structural delegation check, taint/ordering dataflow, who-may-write query",
}
