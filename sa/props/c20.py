"""C20 - style settings resolve by precedence and never leak.

Decided clauses (table agreement, alias freedom, validation, no shared dicts, precedence dataflow):
  G1  reset is state independent: DefaultSettings.reset re-creates its property tree before applying DEFAULTS, or every leaf of
      the property tree has an entry in the DEFAULTS literal; and every DEFAULTS leaf names an existing property (full paths)
  G2  alias-free properties: in every style/defaults property class each property reads and writes its own backing field
      self._<name> (a forwarding alias takes part in the as_dict -> update -> setattr round trip twice: the older value wins)
  G3  every leaf setter validates (assert / raise / color_validator / validate_property_class / _validate_*) before storing
  G4  no caller-owned dict is mutated or captured (E3-ORIGIN) in BaseGeo.__init__/_process_style_kwargs, the style setter,
      MagicProperties.update, set_children_styles, get_style
  G5  precedence dataflow in get_style: the result originates from obj.style.copy(); values derived from default_settings are
      applied only through update(..., _replace_None_only=True); family defaults overwrite base defaults; show-kwargs are applied
      without _replace_None_only
Not decided: value-level precedence for each of the several hundred leaves; equivalence of the three notations beyond G2.
"""
from __future__ import annotations

import ast
import re

from flow import BaseClient, function_exits

from common import AnalysisError, Finding, norm
from repo import call_name, kw, lit

EXPLANATION = ("cross-check of the DEFAULTS literal against the property-class tree (both directions, full paths), structural check that every "
               "property owns its backing field and validates before storing, alias/escape analysis of the style-dict plumbing, and def-use of the "
               "precedence order in get_style. Decides the wiring of precedence and reset for all leaves at once, not each leaf's value.")

STYLE_MODS = ("magpylib._src.style", "magpylib._src.defaults.defaults_classes")
G3_TRIAGED = {
    ("BaseStyle", "label"): "free-form label coerced with str()",
    ("Model3d", "data"): "delegates to _validate_data",
}


def prop_tree(repo, cls, seen=()):
    """{name: child Cls or None} for the properties of `cls` (through the MRO)"""
    out = {}
    for c in reversed(repo.mro(cls)):
        for name in c.getters:
            child = None
            s = None
            for cc in repo.mro(cls):
                if name in cc.setters:
                    s = cc.setters[name]
                    break
            if s is not None:
                for call in ast.walk(s):
                    if isinstance(call, ast.Call) and call_name(call) == "validate_property_class" and len(call.args) >= 3:
                        r = repo.resolve_name(c.mod, ast.unparse(call.args[2]))
                        if r and r[0] == "class":
                            child = r[1]
            out[name] = child
    return out


def leaves(repo, cls, prefix="", depth=0):
    if depth > 8:
        return
    for name, child in prop_tree(repo, cls).items():
        if child is None:
            yield prefix + name
        else:
            yield from leaves(repo, child, prefix + name + ".", depth + 1)


def flat(d, prefix=""):
    for k, v in d.items():
        if isinstance(v, dict):
            yield from flat(v, prefix + k + ".")
        else:
            yield prefix + k


def g1(repo, res):
    dv = repo.mod("magpylib._src.defaults.defaults_values")
    D = lit(dv.assigns.get("DEFAULTS"))
    res.require(isinstance(D, dict) and "display" in D, "anchor vanished: DEFAULTS literal")
    ds = repo.cls("DefaultSettings")
    tree_leaves = set(leaves(repo, ds))
    dleaves = set(flat(D))
    res.analysed.update({"style_tree_leaves": len(tree_leaves), "DEFAULTS_leaves": len(dleaves)})
    res.require(len(tree_leaves) >= 100, f"property tree has only {len(tree_leaves)} leaves")
    # (b) every DEFAULTS leaf names an existing property
    unknown = sorted(p for p in dleaves if p not in tree_leaves and not any(p.startswith(t + ".") for t in tree_leaves))
    res.ob("G1:DEFAULTS leaves exist as properties", not unknown, {"rule": "G1", "DEFAULTS_leaves": len(dleaves), "unknown": unknown[:10]})
    for p in unknown:
        res.add(Finding("G1", dv.rel, "DEFAULTS", p, "DEFAULTS entry names no property of the settings tree (silently ignored by update(_match_properties=False))"))
    # (a) reset re-creates the tree, or all leaves covered
    fn = ds.methods.get("reset")
    res.require(fn is not None, "anchor vanished: DefaultSettings.reset")
    recreated = set()
    upd_seen = False
    order_ok = True
    for s in fn.body:
        for n in ast.walk(s):
            if isinstance(n, ast.Assign):
                for t in n.targets:
                    if isinstance(t, ast.Attribute) and isinstance(t.value, ast.Name) and t.value.id == "self":
                        fresh = (isinstance(n.value, ast.Constant) and n.value.value is None) or isinstance(n.value, (ast.Call, ast.Dict))
                        if fresh:
                            if upd_seen:
                                order_ok = False
                            recreated.add(t.attr.lstrip("_"))
            if isinstance(n, ast.Call) and call_name(n) == "update":
                upd_seen = True
    top = set(prop_tree(repo, ds))
    uncovered = sorted(p for p in tree_leaves if p not in dleaves)
    ok = (top <= recreated and order_ok) or not uncovered
    res.ob("G1:reset is state-independent", ok, {"rule": "G1", "top_level_properties": sorted(top), "recreated_before_update": sorted(recreated),
                                                   "leaves_without_default": len(uncovered), "examples": uncovered[:8]})
    if not ok:
        res.add(Finding("G1", ds.mod.rel, "DefaultSettings.reset", fn, f"reset() merges DEFAULTS into the current state and {len(uncovered)} leaves have no "
                        f"hard coded default (e.g. {uncovered[:4]}): their user-set values survive reset()", fn.lineno))
    if not upd_seen:
        res.add(Finding("G1", ds.mod.rel, "DefaultSettings.reset", fn, "reset() no longer applies the DEFAULTS dictionary", fn.lineno))


def g2_g3(repo, res):
    n = 0
    for c in repo.cls_by_key.values():
        if c.mod.name not in STYLE_MODS:
            continue
        for name, g in c.getters.items():
            n += 1
            rets = [x for x in ast.walk(g) if isinstance(x, ast.Return) and x.value is not None]
            own = f"self._{name}"
            reads_other = [ast.unparse(x) for r in rets for x in ast.walk(r.value)
                           if isinstance(x, ast.Attribute) and isinstance(x.value, (ast.Attribute,)) and ast.unparse(x).startswith("self.")]
            s = None
            for cc in repo.mro(c):
                if name in cc.setters:
                    s = cc.setters[name]
                    break
            stores = [t for x in ast.walk(s) if isinstance(x, (ast.Assign, ast.AugAssign)) for t in (x.targets if isinstance(x, ast.Assign) else [x.target])
                      if isinstance(t, ast.Attribute)] if s is not None else []
            foreign = [ast.unparse(t) for t in stores if ast.unparse(t) != own]
            g_ok = all(ast.unparse(r.value) == own or own in ast.unparse(r.value) for r in rets) and not reads_other
            ok = g_ok and not foreign
            res.ob(f"G2:{c.name}.{name}", ok, {"rule": "G2", "property": f"{c.name}.{name}", "getter_returns": [norm(r.value) for r in rets], "setter_stores": [ast.unparse(t) for t in stores]}
                   if not ok or n % 9 == 0 else None)
            if not ok:
                res.add(Finding("G2", c.mod.rel, f"{c.name}.{name}", rets[0] if rets else g,
                                f"property forwards to other storage ({(foreign or reads_other)[:2]}): it takes part in the as_dict -> update -> setattr round "
                                "trip twice, so an older value is re-applied after the newer one", g.lineno))
                continue
            # ---- G3 (leaf setters only)
            if s is None:
                continue
            is_node = any(isinstance(x, ast.Call) and call_name(x) == "validate_property_class" for x in ast.walk(s))
            validates = is_node or any(isinstance(x, (ast.Assert, ast.Raise)) for x in ast.walk(s)) or any(
                isinstance(x, ast.Call) and (call_name(x) or "").startswith(("color_validator", "validate_", "_validate_", "check_")) for x in ast.walk(s))
            # every store must either store a validating expression (validator / property-class constructor call) or be covered by an
            # assert / raise / validator call that precedes it on the same branch
            parents = {}
            for x in ast.walk(s):
                for ch in ast.iter_child_nodes(x):
                    parents[id(ch)] = x

            def branch_chain(node):
                out = []
                p = parents.get(id(node))
                child = node
                while p is not None:
                    if isinstance(p, ast.If) and " is not None" not in ast.unparse(p.test) and " is None" not in ast.unparse(p.test):
                        out.append((id(p), "body" if any(child is b for b in p.body) else ("orelse" if any(child is b for b in p.orelse) else "test")))
                    child, p = p, parents.get(id(p))
                return out
            vals = [x for x in ast.walk(s) if isinstance(x, (ast.Assert, ast.Raise)) or
                    (isinstance(x, ast.Call) and (call_name(x) or "").startswith(("color_validator", "validate_", "_validate_", "check_")))]
            inline = True
            for st in (x for x in ast.walk(s) if isinstance(x, ast.Assign) and any(ast.unparse(t) == own for t in x.targets)):
                v = st.value
                if isinstance(v, ast.Name):
                    # a local that is only ever bound to validating expressions (`x = Cls(text=val) if .. else validate_..(val, ..)`)
                    defs_ = [a_.value for a_ in ast.walk(s) if isinstance(a_, ast.Assign) and any(isinstance(t_, ast.Name) and t_.id == v.id for t_ in a_.targets)]
                    params_ = {a_.arg for a_ in s.args.args}
                    if defs_ and v.id not in params_ and all(isinstance(d_, ast.Call) and ((call_name(d_) or "").startswith(("color_validator", "validate_", "_validate_", "check_"))
                                                                                           or (call_name(d_) or "")[:1].isupper()) for d_ in defs_):
                        v = defs_[0]
                self_valid = isinstance(v, ast.Constant) or isinstance(v, ast.Call) and ((call_name(v) or "").startswith(("color_validator", "validate_", "_validate_", "check_", "str", "float", "int", "bool", "tuple"))
                                                          or (call_name(v) or "")[:1].isupper())
                sc = branch_chain(st)
                covered = any(x.lineno <= st.lineno and all(b in sc for b in branch_chain(x) if b[1] != "test") for x in vals)
                # a raise inside `if bad: raise` covers what follows the if
                inline = inline and (self_valid or covered)
            validates = validates or inline
            triaged = (c.name, name) in G3_TRIAGED
            ok3 = (validates and inline) or triaged
            res.ob(f"G3:{c.name}.{name}", ok3, None, nontrivial=False)
            if not ok3:
                res.add(Finding("G3", c.mod.rel, f"{c.name}.{name} (setter)", s, "the setter stores the value without validating it first", s.lineno))
    res.require(n >= 90, f"G2/G3: only {n} properties found in the style/defaults classes")
    res.analysed["style_properties"] = n


def g5(repo, res):
    sm = repo.mod("magpylib._src.style")
    fn = sm.funcs.get("get_style")
    res.require(fn is not None, "anchor vanished: style.get_style")
    rets = [r for r in ast.walk(fn) if isinstance(r, ast.Return)]
    binds = {}
    for n in ast.walk(fn):
        if isinstance(n, ast.Assign) and len(n.targets) == 1 and isinstance(n.targets[0], ast.Name):
            binds.setdefault(n.targets[0].id, []).append(n.value)
    ok = len(rets) == 1 and isinstance(rets[0].value, ast.Name) and all(ast.unparse(v) in ("obj.style.copy()",) for v in binds.get(rets[0].value.id, [None]))
    res.ob("G5:result is a copy of obj.style", ok, {"rule": "G5", "return": norm(rets[0]) if rets else None,
                                                     "bound_from": [norm(v) for v in binds.get(getattr(rets[0].value, 'id', ''), [])] if rets else []})
    if not ok:
        res.add(Finding("G5", sm.rel, "get_style", rets[0] if rets else fn, "the effective style must start from obj.style.copy() (object values, independent of the object)"))
        return
    svar = rets[0].value.id
    # taint: names derived from default_settings vs from kwargs
    def derived(roots):
        names = set(roots)
        changed = True
        while changed:
            changed = False
            for n in ast.walk(fn):
                tgt = None
                if isinstance(n, ast.Assign) and len(n.targets) == 1 and isinstance(n.targets[0], ast.Name):
                    tgt, val = n.targets[0].id, n.value
                elif isinstance(n, ast.For) and isinstance(n.target, ast.Name):
                    tgt, val = n.target.id, n.iter
                else:
                    continue
                if tgt not in names and any(isinstance(x, ast.Name) and x.id in names for x in ast.walk(val)):
                    names.add(tgt)
                    changed = True
        return names
    ddef = derived({fn.args.args[1].arg if len(fn.args.args) > 1 else "default_settings", "default_settings"})
    dkw = derived({"kwargs"}) - {"default_settings"}
    ups = [c for c in ast.walk(fn) if isinstance(c, ast.Call) and isinstance(c.func, ast.Attribute) and c.func.attr == "update"
           and isinstance(c.func.value, ast.Name) and c.func.value.id == svar]
    res.require(len(ups) >= 2, "get_style no longer applies kwargs and defaults through style.update")
    for c in ups:
        args = list(c.args) + [k.value for k in c.keywords if k.arg is None]
        from_def = any(isinstance(x, ast.Name) and x.id in ddef for a in args for x in ast.walk(a))
        from_kw = any(isinstance(x, ast.Name) and x.id in dkw for a in args for x in ast.walk(a)) and not from_def
        rno = lit(kw(c, "_replace_None_only"), False)
        if from_def:
            ok = rno is True
            res.ob(f"G5:defaults only fill unset leaves:{norm(c)[:50]}", ok, {"rule": "G5", "update": norm(c), "source": "defaults", "_replace_None_only": rno})
            if not ok:
                res.add(Finding("G5", sm.rel, "get_style", c, "values derived from the global defaults overwrite object/show values "
                                "(must be applied with _replace_None_only=True)", c.lineno))
        elif from_kw:
            ok = rno is not True
            res.ob(f"G5:show kwargs override:{norm(c)[:50]}", ok, {"rule": "G5", "update": norm(c), "source": "show kwargs", "_replace_None_only": rno})
            if not ok:
                res.add(Finding("G5", sm.rel, "get_style", c, "show() keyword values must override the object's own style (no _replace_None_only)", c.lineno))
    # family over base: the base dict is updated *with* family values (in get_style or in a helper it hands the defaults to)
    helpers = []
    for c in ast.walk(fn):
        if isinstance(c, ast.Call) and isinstance(c.func, ast.Name) and c.func.id in sm.funcs and c.func.id != "get_style" and \
                any(isinstance(x, ast.Name) and x.id in ddef for a in list(c.args) + [k.value for k in c.keywords] for x in ast.walk(a)):
            helpers.append(sm.funcs[c.func.id])
    for h in helpers:
        hb = {}
        for n in ast.walk(h):
            if isinstance(n, ast.Assign) and len(n.targets) == 1 and isinstance(n.targets[0], ast.Name):
                hb.setdefault(n.targets[0].id, []).append(n.value)
        hbase = {n for n, vs in hb.items() if any("base" in ast.unparse(v) for v in vs)}
        for c in ast.walk(h):
            if isinstance(c, ast.Call) and isinstance(c.func, ast.Attribute) and c.func.attr == "update" and isinstance(c.func.value, ast.Name) \
                    and c.func.value.id in hbase and c.args and "family" in ast.unparse(c.args[0]):
                res.ob("G5:family defaults overwrite base defaults", True, {"rule": "G5", "helper": h.name, "update": norm(c)})
                fam_in_helper = True
                break
        else:
            continue
        break
    else:
        fam_in_helper = False
    if fam_in_helper:
        return
    fam = [c for c in ast.walk(fn) if isinstance(c, ast.Call) and isinstance(c.func, ast.Attribute) and c.func.attr == "update"
           and isinstance(c.func.value, ast.Name) and c.func.value.id != svar and c.func.value.id in ddef]
    base_names = {n for n, vs in binds.items() if any("base" in ast.unparse(v) for v in vs)}
    ok = any(c.func.value.id in base_names and any(isinstance(x, ast.Name) and x.id in ddef and x.id not in base_names
                                                    for a in c.args for x in ast.walk(a)) for c in fam)
    if not ok:
        # the same merge written entry by entry: `for k, v in family.items(): base[k] = v`
        fb = {}
        for n in ast.walk(fn):
            if isinstance(n, ast.Assign) and len(n.targets) == 1 and isinstance(n.targets[0], ast.Name):
                fb.setdefault(n.targets[0].id, []).append(n.value)
            elif isinstance(n, (ast.For, ast.comprehension)):
                for x in ast.walk(n.target):
                    if isinstance(x, ast.Name):
                        fb.setdefault(x.id, []).append(n.iter)
        bnames, fnames = set(base_names), set()
        for _ in range(4):
            for nm, vs in fb.items():
                for v in vs:
                    if isinstance(v, ast.Name) and v.id in bnames:
                        bnames.add(nm)
                    if nm not in bnames and ("famil" in ast.unparse(v) or any(isinstance(x, ast.Name) and x.id in fnames for x in ast.walk(v))):
                        fnames.add(nm)
        for n in ast.walk(fn):
            if isinstance(n, ast.Assign) and len(n.targets) == 1 and isinstance(n.targets[0], ast.Subscript) and isinstance(n.targets[0].value, ast.Name) \
                    and n.targets[0].value.id in bnames and any(isinstance(x, ast.Name) and x.id in fnames for x in ast.walk(n.value)):
                ok = True
                fam = fam + [n]
    if not ok:
        # layered form: L = [<base defaults>] ; L.append(<family defaults>) ... ; for layer in L: acc.update(layer)   (later layers win)
        for a_ in ast.walk(fn):
            if isinstance(a_, ast.Assign) and len(a_.targets) == 1 and isinstance(a_.targets[0], ast.Name) and isinstance(a_.value, ast.List) and len(a_.value.elts) == 1 \
                    and "base" in ast.unparse(a_.value.elts[0]):
                L_ = a_.targets[0].id
                apps = [c for c in ast.walk(fn) if isinstance(c, ast.Call) and isinstance(c.func, ast.Attribute) and c.func.attr == "append"
                        and isinstance(c.func.value, ast.Name) and c.func.value.id == L_ and c.args]
                fam_apps = [c for c in apps if "famil" in ast.unparse(c.args[0]) or any(isinstance(x, ast.Name) and ("famil" in x.id) for x in ast.walk(c.args[0]))]
                folds = [lp for lp in ast.walk(fn) if isinstance(lp, ast.For) and isinstance(lp.iter, ast.Name) and lp.iter.id == L_ and isinstance(lp.target, ast.Name)
                         and any(isinstance(c, ast.Call) and isinstance(c.func, ast.Attribute) and c.func.attr == "update" and c.args and isinstance(c.args[0], ast.Name)
                                 and c.args[0].id == lp.target.id for c in ast.walk(lp))]
                other_writes = [x for x in ast.walk(fn) if isinstance(x, ast.Call) and isinstance(x.func, ast.Attribute) and isinstance(x.func.value, ast.Name)
                                and x.func.value.id == L_ and x.func.attr in ("insert", "reverse", "sort", "extend", "pop", "remove")]
                if apps and len(fam_apps) == len(apps) and folds and not other_writes and all(lp.lineno > max(c.lineno for c in apps) for lp in folds):
                    ok = True
                    fam = fam + apps
    res.ob("G5:family defaults overwrite base defaults", ok, {"rule": "G5", "updates": [norm(c) for c in fam], "base_dicts": sorted(base_names)})
    if not ok:
        res.add(Finding("G5", sm.rel, "get_style", fam[0] if fam else fn, "family defaults must be merged over the base defaults (base.update(family))"))


def g6_g7(repo, res):
    """G6: nothing on the style-resolution path is memoised (the defaults are mutable objects edited in place: a cache keyed by
    identity serves stale values).  G7: the temporary effective style set for drawing is removed on every exit."""
    from callgraph import CallGraph
    import rules_t1
    g = CallGraph(repo)
    roots = [f for f in ("magpylib._src.style:get_style",) if f in g.nodes]
    res.require(roots, "anchor vanished: style.get_style")
    seen, parent = g.reachable(roots, stop={f for f in g.nodes if f.endswith(".__init__")})
    cached = []
    for fid in sorted(seen):
        fn = g.nodes[fid].node
        for d in fn.decorator_list:
            t = ast.unparse(d)
            if "lru_cache" in t or t.endswith("cache") or "cache(" in t or "memo" in t.lower():
                cached.append((fid, fn, t))
    res.ob("G6:no memoisation on the style resolution path", not cached, {"rule": "G6", "functions_on_path": len(seen), "cached": [c[0] for c in cached]})
    for fid, fn, t in cached:
        res.add(Finding("G6", g.nodes[fid].mod.rel, fid.split(":")[1], f"@{t}", "memoised function on the style-resolution path: defaults and object styles "
                        "are mutable and edited in place, a cache returns values from before the edit", fn.lineno))
    um = repo.mod("magpylib._src.utility")
    fn = um.funcs.get("style_temp_edit")
    res.require(fn is not None, "anchor vanished: utility.style_temp_edit")
    t1 = rules_t1.analyse(fn)
    ok = t1 is not None and not t1["bad"]
    res.ob("G7:style_temp_edit restores the object's style on every exit", ok, {"rule": "G7", "attrs": t1["attrs"] if t1 else None,
                                                                              "exits_examined": t1["exits"] if t1 else 0})
    if t1 is None:
        stores = [n for n in ast.walk(fn) if isinstance(n, ast.Assign) and any(isinstance(t, ast.Attribute) and t.attr == "_style" for t in n.targets)]
        if stores:
            res.add(Finding("G7", um.rel, "style_temp_edit", stores[0], "the temporary style is never removed: show() values leak into the object", stores[0].lineno))
    elif t1["bad"]:
        exits = [f"{k}@{norm(n)[:50]}" for k, a, n in t1["bad"]]
        res.add(Finding("G7", um.rel, "style_temp_edit", "temporary overwrite of _style", f"not restored on {len(exits)} exit(s): {' ; '.join(exits[:4])} - "
                        "the resolved show()/default values stay on the object", t1["bad"][0][2].lineno))


def g9(repo, res):
    """G5b: on the style-resolution path values are filtered by `is None` / `is not None`, never by truthiness (False and 0 are
    legitimate settings);  REC-FWD: show() style keywords are forwarded through the recursion over collection children;
    G4b: the style setter never adopts the caller's style object."""
    sm = repo.mod("magpylib._src.style")
    fn = sm.funcs["get_style"]
    value_names = set()
    for n in ast.walk(fn):
        if isinstance(n, ast.comprehension) and isinstance(n.target, ast.Tuple) and len(n.target.elts) == 2 and ".items()" in ast.unparse(n.iter):
            if isinstance(n.target.elts[1], ast.Name):
                value_names.add((id(n), n.target.elts[1].id))
    n_f = 0
    for n in ast.walk(fn):
        if isinstance(n, ast.comprehension):
            vals = {nm for (i, nm) in value_names if i == id(n)}
            for t in n.ifs:
                n_f += 1
                truthy = (isinstance(t, ast.Name) and t.id in vals) or (isinstance(t, ast.UnaryOp) and isinstance(t.op, ast.Not) and
                                                                         isinstance(t.operand, ast.Name) and t.operand.id in vals)
                res.ob(f"G5b:{norm(t)}", not truthy, {"rule": "G5b", "filter": norm(t)}, nontrivial=False)
                if truthy:
                    res.add(Finding("G5b", sm.rel, "get_style", t, "style values are filtered by truthiness: a default of False or 0 is treated as unset "
                                    "and loses to a less specific default", t.lineno))
    import rules_recfwd
    nrec = rules_recfwd.recursive_forwarding(repo, res, "REC-FWD", lambda name: name.startswith("magpylib._src.display") or
                                             name.startswith("magpylib._src.defaults") or name == "magpylib._src.style" or
                                             name == "magpylib._src.obj_classes.class_Collection")
    res.analysed["recursive_calls_checked"] = nrec
    res.require(nrec >= 5, f"REC-FWD: only {nrec} recursive calls found")
    # G4b
    import origin_rules
    from origin_rules import O, org_of, run_node, find_ast
    G = "magpylib._src.obj_classes.class_BaseGeo"
    # judged on the style setter itself (what it stores in `_style`), through whatever helper it delegates to
    node = find_ast(G, "BaseGeo.style", True)
    pname = node.args.args[1].arg
    out, dom, it = run_node(G, node, {"self": O({"A:self"}), pname: O({"P:val"})}, name="BaseGeo.style[set]")
    stores = [x for x in dom.attr_stores if x[1] == "_style"]
    res.require(stores, "anchor vanished: the style setter no longer stores `_style`")
    leak = sorted({o for x in stores for o in x[2] if o.startswith("P:")})
    # a value produced by a method of the object itself (`self._style = self._validate_style(val)`): what that method returns
    for a_ in ast.walk(node):
        if isinstance(a_, ast.Assign) and any(isinstance(t, ast.Attribute) and t.attr == "_style" for t in a_.targets) and isinstance(a_.value, ast.Call) \
                and isinstance(a_.value.func, ast.Attribute) and isinstance(a_.value.func.value, ast.Name) and a_.value.func.value.id == "self":
            try:
                hnode = find_ast(G, "BaseGeo." + a_.value.func.attr)
            except Exception:  # noqa - not a method of BaseGeo itself
                continue
            hp = [x.arg for x in hnode.args.args][1:]
            bind = {"self": O({"A:self"})}
            for prm, arg in list(zip(hp, a_.value.args)) + [(k.arg, k.value) for k in a_.value.keywords if k.arg]:
                if any(isinstance(x, ast.Name) and x.id == pname for x in ast.walk(arg)):
                    bind[prm] = O({"P:val"})
            out_h, _d, _i = run_node(G, hnode, bind, name="BaseGeo." + a_.value.func.attr)
            leak = sorted(set(leak) | {o for o in org_of(out_h) if o.startswith("P:")})
    res.ob("G4b:the style setter never adopts the caller's object", not leak, {"rule": "G4b", "stored_origins": [sorted(x[2]) for x in stores]})
    if leak:
        res.add(Finding("G4b", "magpylib/_src/obj_classes/class_BaseGeo.py", "BaseGeo.style (setter)", f"stores {leak} in _style",
                        "assigning another object's style would make both objects share one style instance (later edits leak)"))


G10_TRIAGED = {"Trace3d": "a user-created model3d trace, not a leaf class of the defaults tree: backend/show/scale are per-trace values"}


def g10(repo, res):
    """G10: style leaf classes do not preset non-None values in their constructors.  A preset value sits on every object's own style,
    so it always wins over the family/base defaults: changing that default has no effect."""
    n = 0
    for c in repo.cls_by_key.values():
        if c.mod.name != "magpylib._src.style" or "__init__" not in c.methods or c.name in G10_TRIAGED:
            continue
        f = c.methods["__init__"]
        a = f.args
        pos = a.args[1:]
        ds = [None] * (len(pos) - len(a.defaults)) + list(a.defaults)
        pairs = list(zip(pos, ds)) + list(zip(a.kwonlyargs, a.kw_defaults))
        for p, d in pairs:
            if d is None:
                continue
            n += 1
            ok = isinstance(d, ast.Constant) and d.value is None
            if not ok:
                res.ob(f"G10:{c.name}.{p.arg}", False, {"rule": "G10", "class": c.name, "parameter": p.arg, "preset": ast.unparse(d)})
                res.add(Finding("G10", c.mod.rel, f"{c.name}.__init__", f"{p.arg}={ast.unparse(d)}",
                                f"the style class presets `{p.arg}`: every object's own style carries that value, so the family and base defaults "
                                "for this leaf are never consulted", f.lineno))
    res.ob("G10:constructor defaults of style classes inspected", True, {"rule": "G10", "defaulted_parameters": n}, nontrivial=False)
    res.require(n >= 40, f"G10: only {n} constructor defaults found in the style classes")


def g8(repo, res):
    """invalid style names are rejected by *exact* membership of the level-0 key in the set of valid keys (set difference / `in`),
    not by prefix/substring matching - otherwise misspelt names that merely start like a valid one are accepted silently"""
    du = repo.mod("magpylib._src.defaults.defaults_utility")
    fn = du.funcs.get("validate_style_keys")
    res.require(fn is not None, "anchor vanished: validate_style_keys")
    fuzzy = [c for c in ast.walk(fn) if isinstance(c, ast.Call) and isinstance(c.func, ast.Attribute) and c.func.attr in
             ("startswith", "endswith", "find", "index", "match", "search", "fullmatch", "count")]
    exact = [c for c in ast.walk(fn) if (isinstance(c, ast.Call) and isinstance(c.func, ast.Attribute) and c.func.attr in ("difference", "issubset", "issuperset", "__sub__"))
             or (isinstance(c, ast.Compare) and isinstance(c.ops[0], (ast.In, ast.NotIn)))
             or (isinstance(c, ast.BinOp) and isinstance(c.op, ast.Sub) and any(isinstance(x, ast.Call) and getattr(x.func, "id", "") == "set" for x in ast.walk(c)))]
    raises = any(isinstance(x, ast.Raise) for x in ast.walk(fn))
    ok = raises and bool(exact) and not fuzzy
    res.ob("G8:style names validated by exact membership", ok, {"rule": "G8", "exact_tests": [norm(x) for x in exact][:4], "fuzzy_tests": [norm(x) for x in fuzzy]})
    if not ok:
        res.add(Finding("G8", du.rel, "validate_style_keys", fuzzy[0] if fuzzy else fn, "style names are validated by prefix/substring matching (or not at all): "
                        "invalid names that begin like a valid key are accepted and then silently dropped", (fuzzy[0] if fuzzy else fn).lineno))


def g12(repo, res):
    """G12 family order: get_style lets later families override earlier ones, and get_families lists them in the order of its local
    imports (locals() iteration order).  A generic family (a base class, imported under an alias: BaseMagnet as Magnet) must therefore
    be imported before every imported subclass of it, or the generic defaults override the specific ones."""
    st = repo.mod("magpylib._src.style")
    fn = st.funcs.get("get_families")
    res.require(fn is not None, "anchor vanished: style.get_families")
    order = []
    for s_ in fn.body:
        if isinstance(s_, ast.ImportFrom):
            for a in s_.names:
                order.append((a.asname or a.name, a.name, s_.module, s_))
    res.require(len(order) >= 10 and any(isinstance(x, ast.Call) and getattr(x.func, "id", "") == "locals" for x in ast.walk(fn)),
                "anchor vanished: get_families no longer derives the families from its local imports")
    pos = {real: i for i, (alias, real, mod, s_) in enumerate(order)}
    alias_of = {real: alias for alias, real, mod, s_ in order}
    # only families that have a defaults section matter (getattr(default_style, family, {}) is empty otherwise)
    ds = repo.classes.get("DisplayStyle")
    res.require(ds is not None and len(ds.getters) >= 6, "anchor vanished: DisplayStyle property tree")
    styled = set(ds.getters)
    n = 0
    for alias, real, mod, s_ in order:
        cl = repo.cls_by_key.get((mod, real))
        if cl is None or alias.lower() not in styled:
            continue
        for b in repo.mro(cl)[1:]:
            if b.name in pos and alias_of[b.name].lower() in styled:
                n += 1
                ok = pos[b.name] < pos[real]
                res.ob(f"G12:{b.name}<{real}", ok, {"rule": "G12", "generic": b.name, "specific": real, "positions": [pos[b.name], pos[real]]})
                if not ok:
                    res.add(Finding("G12", st.rel, "get_families", s_, f"{real} is listed before its generic family {b.name}: get_style applies the families in this order, "
                                    f"so the defaults of the generic family override those of `{alias.lower()}`", s_.lineno))
    res.require(n >= 2, f"G12: only {n} generic/specific pairs among the styled families (2 confirmed by hand: triangle, triangularmesh under magnet)")
    # the merge loop applies the families in list order with plain dict.update (later wins)
    gs = st.funcs.get("get_style")
    loops = [l for l in ast.walk(gs) if isinstance(l, ast.For) and isinstance(l.iter, ast.Name) and "famil" in l.iter.id]
    res.require(loops, "anchor vanished: family merge loop in get_style")


def g13(repo, res):
    """G13 lazy style materialisation: constructor style arguments wait in `_style_kwargs` until the `style` getter applies them.
    Any other code of the class that reads `self._style` directly sees a style without them (and they are applied later, on top of
    newer assignments); it must go through the getter or handle `_style_kwargs` itself."""
    geo = repo.cls("BaseGeo")
    res.require("style" in geo.getters and any("_style_kwargs" in ast.unparse(x) for x in ast.walk(geo.getters["style"])),
                "anchor vanished: lazy `_style_kwargs` handling in the BaseGeo.style getter")
    n = 0
    for c in [geo] + repo.subclasses("BaseGeo"):
        fns = [(k, v, "") for k, v in c.methods.items()] + [(k, v, " (setter)") for k, v in c.setters.items()]
        for name, fn, kind in fns:
            reads = []
            for x in ast.walk(fn):
                if isinstance(x, ast.Attribute) and x.attr == "_style" and isinstance(x.ctx, ast.Load) and isinstance(x.value, ast.Name) and x.value.id == "self":
                    reads.append(x)
                if isinstance(x, ast.Call) and getattr(x.func, "id", "") == "getattr" and len(x.args) >= 2 and isinstance(x.args[1], ast.Constant) \
                        and x.args[1].value == "_style" and ast.unparse(x.args[0]) == "self":
                    reads.append(x)
            if not reads:
                continue
            n += 1
            handles = any("_style_kwargs" in ast.unparse(x) for x in ast.walk(fn) if isinstance(x, (ast.Attribute, ast.Constant)))
            res.ob(f"G13:{c.name}.{name}", handles, {"rule": "G13", "function": f"{c.name}.{name}{kind}", "direct_reads": [norm(r) for r in reads], "handles_pending_kwargs": handles})
            if not handles:
                res.add(Finding("G13", c.mod.rel, f"{c.name}.{name}{kind}", reads[0], "reads `self._style` directly, bypassing the getter that applies the pending constructor "
                                "style arguments: they are applied later, on top of whatever is assigned now", reads[0].lineno))
    res.analysed["G13_direct_readers"] = n


SHALLOW_IDIOMS = ("__dict__.update(self.__dict__)", "self.__dict__.copy()", "dict(self.__dict__)", "copy.copy(self)", "copy(self)")


class _PendingClient(BaseClient):
    """typestate of the lazy style getter: CLEARED = the pending constructor arguments were forgotten, APPLIED = they were applied"""
    def __init__(self, attr):
        self.attr = attr

    def call_may_raise(self, call):
        return isinstance(call.func, ast.Attribute) and call.func.attr in ("update", "__init__")

    def transfer(self, s, S):
        for c in ast.walk(s):
            if isinstance(c, ast.Call) and isinstance(c.func, ast.Attribute) and c.func.attr == "update":
                S = (S - {"CLEARED"}) | {"APPLIED"}
        if isinstance(s, ast.Assign):
            for t in s.targets:
                if isinstance(t, ast.Attribute) and t.attr == self.attr and isinstance(t.value, ast.Name) and t.value.id == "self":
                    empty = isinstance(s.value, ast.Dict) and not s.value.keys
                    if empty and "APPLIED" not in S:
                        S = S | {"CLEARED"}
                    elif not empty:
                        S = S - {"CLEARED"}          # the arguments are put back
        return S


def g13b(repo, res):
    """G13b an invalid constructor style argument is rejected on *every* access: on no exceptional exit of the `style` getter have the
    pending arguments been forgotten without having been applied (otherwise the first access raises and the second silently succeeds
    with the invalid argument dropped - the same getB(..., output='dataframe') / show() call then behaves differently when repeated)"""
    geo = repo.cls("BaseGeo")
    fn = geo.getters.get("style")
    res.require(fn is not None, "anchor vanished: BaseGeo.style getter")
    exits, nst = function_exits(fn, _PendingClient("_style_kwargs"))
    bad = [(k, n) for k, S, n in exits if k in ("exc", "raise") and "CLEARED" in S]
    res.evaluations += len(exits)
    res.ob("G13b:rejected style arguments stay pending", not bad, {"rule": "G13b", "exits_examined": len(exits), "exits_with_forgotten_arguments": len(bad)})
    if bad:
        k, n = bad[0]
        res.add(Finding("G13b", geo.mod.rel, "BaseGeo.style (getter)", n, f"on {len(bad)} exceptional exit(s) the pending constructor style arguments have been cleared but not "
                        "applied: the rejection happens once, the next access succeeds with the invalid argument silently dropped", n.lineno))


def g14(repo, res, rule="G14"):
    """G14 a style/property tree is copied deeply: MagicProperties.copy() returns deepcopy(self) or an object rebuilt from as_dict();
    recognised shallow idioms (sharing the nested property objects) are a violation, any other form is reported undecided"""
    du = repo.mod("magpylib._src.defaults.defaults_utility")
    cl = repo.cls_by_key.get((du.name, "MagicProperties"))
    res.require(cl is not None and "copy" in cl.methods, "anchor vanished: MagicProperties.copy")
    fn = cl.methods["copy"]
    txt = " ".join(ast.unparse(fn).split())
    deep = any(isinstance(c, ast.Call) and getattr(c.func, "id", getattr(c.func, "attr", "")) == "deepcopy" and c.args and ast.unparse(c.args[0]) == "self" for c in ast.walk(fn)) \
        or "self.as_dict()" in txt
    shallow = [i for i in SHALLOW_IDIOMS if i in txt and not (i == "copy(self)" and "deepcopy(self)" in txt and "copy.copy(self)" not in txt)]
    ok = deep and not shallow
    res.ob(f"{rule}:MagicProperties.copy is deep", ok or not shallow, {"rule": rule, "deep_construct": deep, "shallow_idioms": shallow})
    if shallow:
        res.add(Finding(rule, du.rel, "MagicProperties.copy", fn, f"shallow copy ({shallow[0]}): the copy shares its nested property objects with the original, so an "
                        "attribute assignment on a nested leaf of one shows up in the other (temporary display styles leak into the objects)", fn.lineno))
    elif not deep:
        res.undecided.append(f"{rule}: MagicProperties.copy uses neither deepcopy(self) nor as_dict(); depth of the copy not decided")


def g15(repo, res):
    """G15 the three notations reach get_style as ONE flat underscore dictionary: RegisteredBackend.show collects every keyword that
    starts with "style" and passes it through linearize_dict (nested dicts flattened, separator "_").  The ORIGIN run of get_style
    (G4/G5) assumes exactly that; a partial merge makes mixed notation order dependent (a nested group given last replaces the
    underscore keywords of the same group)."""
    m = repo.mod("magpylib._src.display.display")
    cl = repo.cls_by_key.get((m.name, "RegisteredBackend"))
    res.require(cl is not None and "show" in cl.methods, "anchor vanished: display.RegisteredBackend.show")
    fn = cl.methods["show"]
    calls = [c for c in ast.walk(fn) if isinstance(c, ast.Call) and getattr(c.func, "id", getattr(c.func, "attr", "")) == "linearize_dict"]
    ok = False
    for c in calls:
        arg = c.args[0] if c.args else None
        sep = next((k.value for k in c.keywords if k.arg == "separator"), c.args[1] if len(c.args) > 1 else None)
        # the argument must be the collection of the style keywords (a name bound from a comprehension filtering on "style")
        src = None
        if isinstance(arg, ast.Name):
            defs = [s_.value for s_ in ast.walk(fn) if isinstance(s_, ast.Assign) and any(isinstance(t, ast.Name) and t.id == arg.id for t in s_.targets)]
            src = next((d for d in defs if isinstance(d, ast.DictComp)), None)
            if src is None and any(isinstance(d, ast.Dict) and not d.keys for d in defs):
                # the same collection written as a loop: `D = {}; for k, v in kw.items(): .. if k.startswith("style"): D[k] = v` - the test is a
                # direct child of the loop body and nothing in the loop skips an entry (no continue / break)
                for lp in [x for x in ast.walk(fn) if isinstance(x, ast.For) and ast.unparse(x.iter).endswith(".items()")]:
                    if any(isinstance(x, (ast.Continue, ast.Break)) for x in ast.walk(lp)):
                        continue
                    for st in lp.body:
                        if isinstance(st, ast.If) and not st.orelse and re.fullmatch(r"\w+\.startswith\(['\"]style['\"]\)", ast.unparse(st.test)) and any(
                                isinstance(a_, ast.Assign) and isinstance(a_.targets[0], ast.Subscript) and isinstance(a_.targets[0].value, ast.Name)
                                and a_.targets[0].value.id == arg.id for a_ in st.body):
                            src = st
        elif isinstance(arg, ast.DictComp):
            src = arg
        if src is not None and "style" in ast.unparse(src) and isinstance(sep, ast.Constant) and sep.value == "_":
            ok = True
    res.ob("G15:show() flattens all style keywords with linearize_dict", ok, {"rule": "G15", "linearize_calls": [norm(c) for c in calls]})
    if not ok:
        res.add(Finding("G15", m.rel, "RegisteredBackend.show", fn, "the style keywords of show() are not passed as a whole through linearize_dict(.., separator='_'): "
                        "nested and underscore notation given in one call are merged order dependently and one of them is lost", fn.lineno))


def g17_g18(repo, res):
    """G17 `DisplayContext.reset()` forgets everything a finished `show_context()` collected: every attribute initialised in __init__
        is re-assigned unconditionally, except the one a `reset_<name>` flag is named after (keywords kept from one context would be
        applied to the next display with show()-level priority)
    G18 a style leaf whose setter treats its value as a sequence (iterates over it to validate the entries) stores a converted copy
        (`tuple(val)`, `list(val)`, `np.array(val)`), not the caller's own list: otherwise a later in-place change of that list changes
        the style of every object it was given to, in some notations only"""
    m = repo.mod("magpylib._src.display.display")
    cl = repo.cls_by_key.get((m.name, "DisplayContext"))
    res.require(cl is not None and "reset" in cl.methods and "__init__" in cl.methods, "anchor vanished: display.DisplayContext")
    init_attrs = [t.attr for s_ in ast.walk(cl.methods["__init__"]) if isinstance(s_, ast.Assign) for t in s_.targets
                  if isinstance(t, ast.Attribute) and isinstance(t.value, ast.Name) and t.value.id == "self"]
    rs = cl.methods["reset"]
    uncond = {t.attr for s_ in rs.body if isinstance(s_, ast.Assign) for t in s_.targets if isinstance(t, ast.Attribute)}
    flags = {a.arg[len("reset_"):] for a in rs.args.args if a.arg.startswith("reset_")}
    cond = {}
    for iff in [x for x in ast.walk(rs) if isinstance(x, ast.If)]:
        for s_ in ast.walk(iff):
            if isinstance(s_, ast.Assign):
                for t in s_.targets:
                    if isinstance(t, ast.Attribute):
                        cond[t.attr] = iff
    for a in init_attrs:
        ok = a in uncond or (a in cond and a in flags)
        res.ob(f"G17:DisplayContext.reset:{a}", ok, {"rule": "G17", "attribute": a, "reset_unconditionally": a in uncond, "behind_flag": a in cond})
        if not ok:
            where = cond.get(a, rs)
            res.add(Finding("G17", m.rel, "DisplayContext.reset", where, f"`{a}` is {'only reset under a flag that is not named after it' if a in cond else 'not reset at all'}: "
                            "what one show_context() collected (style keywords!) is applied to the next display", where.lineno))
    # ---- G18
    n = 0
    for (mname, cname), c in repo.cls_by_key.items():
        if mname not in ("magpylib._src.style", "magpylib._src.defaults.defaults_classes"):
            continue
        for name, fn in c.setters.items():
            ps = [a.arg for a in fn.args.args if a.arg != "self"]
            if not ps:
                continue
            p = ps[0]
            iterates = any((isinstance(x, (ast.comprehension, ast.For)) and isinstance(x.iter, ast.Name) and x.iter.id == p) for x in ast.walk(fn))
            if not iterates:
                continue
            n += 1
            stores = [s_ for s_ in ast.walk(fn) if isinstance(s_, ast.Assign) and any(isinstance(t, ast.Attribute) and t.attr == "_" + name for t in s_.targets)]
            rebound = any(isinstance(s_, ast.Assign) and any(isinstance(t, ast.Name) and t.id == p for t in s_.targets) and isinstance(s_.value, ast.Call)
                          and getattr(s_.value.func, "id", getattr(s_.value.func, "attr", "")) in ("tuple", "list", "array", "asarray", "copy", "deepcopy", "validate_property_class")
                          for s_ in ast.walk(fn))
            direct = [s_ for s_ in stores if isinstance(s_.value, ast.Name) and s_.value.id == p]
            ok = not direct or rebound
            res.ob(f"G18:{cname}.{name}", ok, {"rule": "G18", "setter": f"{cname}.{name}", "sequence_valued": True, "converted_before_store": rebound})
            if not ok:
                res.add(Finding("G18", c.mod.rel, f"{cname}.{name} (setter)", direct[0], f"the setter iterates over `{p}` (a sequence) and stores the caller's own object: a later "
                                "in-place change of that list changes this style - and every other style it was given to", direct[0].lineno))
    res.require(n >= 1, "G18: no sequence-valued style leaf found (Path.frames confirmed by hand)")


# sites that switch off name matching in MagicProperties.update, each confirmed by reading (one line of reason)
NO_MATCH_TRIAGED = {
    "get_style": "fills unset leaves from the (already validated) default tree; names that an object's style does not have are expected",
    "TriangularMesh.to_TriangleCollection": "copies the mesh's own validated style onto the new collection's (smaller) style tree",
    "DefaultSettings.reset": "re-applies the hard coded DEFAULTS table",
    "DisplayStyle.reset": "re-applies the hard coded DEFAULTS table",
    "process_animation_kwargs": "animation_* keywords, not style names (outside C20)",
}


def g23_g24(repo, res):
    """G23 a pattern that decides whether a style value is accepted is matched exactly: `fullmatch`, or a pattern that ends in `\\Z`.  `match` /
        `search` with a pattern ending in `$` also accept the value followed by a newline (`"#ff0000\\n"` is stored as a colour), `match`
        without an end anchor accepts any continuation.
    G24 an assertion whose message announces a range ("between A and B") tests that range: both bounds occur in the asserted expression, or
        are handed to the helper it calls (a shared helper with optional bounds called without them checks the type only)."""
    mods = [m for m in repo.mods.values() if m.name.startswith(("magpylib._src.defaults", "magpylib._src.style"))]
    n23 = n24 = 0
    for m in mods:
        pats = {}          # name -> pattern text, for `X = re.compile("..")` at module or function level
        for a in ast.walk(m.tree):
            if isinstance(a, ast.Assign) and len(a.targets) == 1 and isinstance(a.targets[0], ast.Name) and isinstance(a.value, ast.Call) \
                    and ast.unparse(a.value.func) == "re.compile" and a.value.args and isinstance(a.value.args[0], ast.Constant) and isinstance(a.value.args[0].value, str):
                pats[a.targets[0].id] = a.value.args[0].value
        for _m, qn, fn, cl in repo.all_functions():
            if _m is not m:
                continue
            for c in ast.walk(fn):
                if not (isinstance(c, ast.Call) and isinstance(c.func, ast.Attribute) and c.func.attr in ("match", "search", "fullmatch")):
                    continue
                pat = None
                if isinstance(c.func.value, ast.Name) and c.func.value.id in pats:
                    pat = pats[c.func.value.id]
                elif isinstance(c.func.value, ast.Name) and c.func.value.id == "re" and c.args and isinstance(c.args[0], ast.Constant) and isinstance(c.args[0].value, str):
                    pat = c.args[0].value
                elif isinstance(c.func.value, ast.Call) and ast.unparse(c.func.value.func) == "re.compile" and c.func.value.args \
                        and isinstance(c.func.value.args[0], ast.Constant) and isinstance(c.func.value.args[0].value, str):
                    pat = c.func.value.args[0].value
                if pat is None:
                    continue
                n23 += 1
                exact = c.func.attr == "fullmatch" or pat.endswith("\\Z")
                res.ob(f"G23:{qn}:{norm(c)}", exact, {"rule": "G23", "function": qn, "pattern": pat, "method": c.func.attr})
                if not exact:
                    why = "`$` also matches in front of a trailing newline" if pat.endswith("$") and not pat.endswith("\\$") else "nothing anchors the end of the value"
                    res.add(Finding("G23", m.rel, qn, c, f"the pattern {pat!r} is applied with `{c.func.attr}`: {why}, so a value that is not of the announced form is accepted "
                                    "and stored", c.lineno))
            for a in ast.walk(fn):
                if not (isinstance(a, ast.Assert) and a.msg is not None):
                    continue
                text = " ".join(x.value for x in ast.walk(a.msg) if isinstance(x, ast.Constant) and isinstance(x.value, str))
                mm = re.search(r"between\s+\[?(-?\d+(?:\.\d+)?)\s*(?:and|,)\s*(-?\d+(?:\.\d+)?)", text)
                if not mm:
                    continue
                n24 += 1
                bounds = {float(mm.group(1)), float(mm.group(2))}
                seen_ = {float(x.value) for x in ast.walk(a.test) if isinstance(x, ast.Constant) and isinstance(x.value, (int, float)) and not isinstance(x.value, bool)}
                ok = bounds <= seen_
                res.ob(f"G24:{qn}", ok, {"rule": "G24", "function": qn, "announced": sorted(bounds), "numbers_in_the_test": sorted(seen_)})
                if not ok:
                    res.add(Finding("G24", m.rel, qn, a.test, f"the message announces the range {sorted(bounds)} but the asserted expression `{norm(a.test)[:80]}` does not "
                                    "mention these bounds (a shared helper called without them checks the type only): out-of-range values are stored", a.lineno))
    res.require(n23 >= 1 and n24 >= 2, f"G23/G24: only {n23} pattern matches / {n24} range assertions found in the style code")


def g20_g21(repo, res):
    """G20 a style / defaults class hands every named constructor parameter on to its base constructor (`super().__init__(a=a, b=b, **kwargs)`):
        `update()` and `reset()` rebuild sub-objects through their constructors, so a parameter that is swallowed loses the whole sub-tree
        behind it on every update from above.
    G21 `set_children_styles` applies the values to *every* child: the update of the child's own style is reached on every path through the
        loop body (a nested collection is recursed into AND styled itself)."""
    from flow import BaseClient, Flow
    n = 0
    for cl in repo.cls_by_key.values():
        if cl.mod.name not in STYLE_MODS:
            continue
        init = cl.methods.get("__init__")
        if init is None:
            continue
        named = [a.arg for a in init.args.args[1:] + init.args.kwonlyargs]
        sup = [c for c in ast.walk(init) if isinstance(c, ast.Call) and isinstance(c.func, ast.Attribute) and c.func.attr == "__init__"
               and isinstance(c.func.value, ast.Call) and getattr(c.func.value.func, "id", "") == "super"]
        if not named or not sup:
            continue
        n += 1
        passed = set()
        for c in sup:
            for a in list(c.args) + [k.value for k in c.keywords]:
                for x in ast.walk(a):
                    if isinstance(x, ast.Name):
                        passed.add(x.id)
        # a parameter may also be stored / used by the constructor itself
        used_else = {x.id for st in init.body for x in ast.walk(st) if isinstance(x, ast.Name) and isinstance(x.ctx, ast.Load)} - passed
        missing = [p_ for p_ in named if p_ not in passed and p_ not in used_else]
        res.ob(f"G20:{cl.name}.__init__", not missing, {"rule": "G20", "class": cl.name, "named_parameters": named, "not_forwarded": missing} if missing or n % 8 == 0 else None,
               nontrivial=bool(missing))
        for p_ in missing:
            res.add(Finding("G20", cl.mod.rel, f"{cl.name}.__init__", sup[0], f"the constructor accepts `{p_}` but does not hand it to the base constructor: update()/reset() rebuild this "
                            f"object through its constructor, so every value under `{p_}` is lost whenever the tree is updated from above", sup[0].lineno))
    res.require(n >= 20, f"G20: only {n} style / defaults constructors with named parameters found")
    # ---- G22: the live defaults tree is never captured in a default argument value: `def f(.., style=default_settings.display.style)` is
    #           evaluated once at import; reset() / update() from above replace those objects, and the function keeps resolving defaults from the
    #           orphaned first tree
    n22 = 0
    for m_, qn_, f_, cl_ in repo.all_functions():
        for d_ in list(f_.args.defaults) + [x for x in f_.args.kw_defaults if x is not None]:
            n22 += 1
            live = any(isinstance(x, ast.Name) and x.id in ("default_settings", "defaults") for x in ast.walk(d_)) and isinstance(d_, ast.Attribute)
            if live:
                res.ob(f"G22:{qn_}:{norm(d_)}", False)
                res.add(Finding("G22", m_.rel, qn_, d_, "a default argument value reads the defaults tree at import time: after defaults.reset() or an update from above the "
                                "function still resolves defaults from the old objects", d_.lineno))
    res.ob("G22:no default argument captures the defaults tree", True, {"rule": "G22", "default_values_scanned": n22}, nontrivial=False)
    # ---- G21
    col = repo.cls("BaseCollection")
    fn = col.methods.get("set_children_styles")
    res.require(fn is not None, "anchor vanished: BaseCollection.set_children_styles")
    loops = [l for l in ast.walk(fn) if isinstance(l, ast.For) and isinstance(l.target, ast.Name) and "children" in ast.unparse(l.iter)]
    res.require(loops, "anchor vanished: loop over the children in set_children_styles")

    class Cl(BaseClient):
        def __init__(self, var):
            self.var = var

        def call_may_raise(self, call):
            return False

        def transfer(self, s_, S):
            for c in ast.walk(s_):
                if isinstance(c, ast.Call) and isinstance(c.func, ast.Attribute) and c.func.attr == "update" and ast.unparse(c.func.value) in (f"{self.var}.style", f"{self.var}._style"):
                    return frozenset()
            return S
    for lp in loops:
        S, exits = Flow(Cl(lp.target.id)).block(lp.body, frozenset({"TODO"}))
        ok = not S and not any(St for k, St, n_ in exits if k in ("continue", "break", "return"))
        res.ob("G21:set_children_styles styles every child", ok, {"rule": "G21", "loop": norm(lp.iter)})
        if not ok:
            res.add(Finding("G21", col.mod.rel, "BaseCollection.set_children_styles", lp, "a path through the loop body skips the update of the child's own style: a nested collection "
                            "keeps its old values (its own model, path and legend) although the last assignment should win", lp.lineno))


def g19(repo, res):
    """G19 invalid style names are rejected on every public path: MagicProperties.update drops unknown names silently when called with
    `_match_properties=False`; only the triaged internal sites (values that come from validated trees / tables) may do that"""
    n = 0
    for m, q, fn, cl in repo.all_functions():
        for c in ast.walk(fn):
            if isinstance(c, ast.Call) and isinstance(c.func, ast.Attribute) and c.func.attr == "update":
                mk = next((k.value for k in c.keywords if k.arg == "_match_properties"), None)
                if isinstance(mk, ast.Constant) and mk.value is False:
                    n += 1
                    ok = q in NO_MATCH_TRIAGED
                    res.ob(f"G19:{q}", ok, {"rule": "G19", "function": q, "call": norm(c), "triaged_as": NO_MATCH_TRIAGED.get(q)})
                    if not ok:
                        res.add(Finding("G19", m.rel, q, c, "style names are applied with `_match_properties=False` at an untriaged site: misspelt / unknown names below a valid "
                                        "group are dropped silently instead of being rejected", c.lineno))
    res.require(n >= 3, f"G19: only {n} `_match_properties=False` sites found (5 confirmed by hand)")


def run(repo, res, tier):
    res.rules = ["G1 reset/DEFAULTS vs property tree", "G2 alias-free properties", "G3 leaf setters validate", "G4 no caller dict mutated/captured", "G5 precedence dataflow in get_style", "G6 no memoisation on the style path", "G7 temporary style removed on all exits", "G8 exact validation of style names", "G5b None-filters not truthiness", "REC-FWD style keywords forwarded through recursion", "G4b style setter adopts no foreign style object", "G10 no preset values in style constructors",
                 "G12 generic families before specific ones", "G13 lazy style kwargs not bypassed", "G13b rejected style kwargs stay pending", "G14 style copies are deep", "G15 show() flattens every style keyword", "G16 admitted-value tables are collections, not strings", "G17 DisplayContext.reset forgets everything", "G18 sequence-valued leaves store a copy", "G19 name matching switched off only at triaged internal sites", "G23 value patterns matched exactly", "G24 announced ranges are tested", "G25 parent-constructor arguments line up with the parent's parameters"]
    g1(repo, res)
    g2_g3(repo, res)
    import origin_rules
    origin_rules.c20_g4(repo, res)
    g5(repo, res)
    g6_g7(repo, res)
    g8(repo, res)
    g9(repo, res)
    g10(repo, res)
    g12(repo, res)
    g13(repo, res)
    g13b(repo, res)
    g14(repo, res)
    g15(repo, res)
    g17_g18(repo, res)
    g19(repo, res)
    g20_g21(repo, res)
    g23_g24(repo, res)
    # G25: the constructor notation `style={..}` reaches the style slot of every class
    import rules_argalign
    n25 = rules_argalign.run(repo, res, "G25", lambda mn: mn.startswith("magpylib._src.obj_classes"))
    res.require(n25 >= 12, f"G25: only {n25} parent-constructor calls found in the object classes")
    import rules_domain
    rules_domain.sets_are_collections(repo, res, 'G16')
    res.assumptions += ["property tree links are the validate_property_class(val, name, Class, self) calls in the setters",
                        "NumPy/stdlib copy-view table of origdom.py (dict.copy / dict display / {**d} are copies one level deep)"]
    return {}


MANIFEST = {
    "category": "other",
    "text": "Static decision of the structural clauses of C20 for every style leaf at once: the DEFAULTS literal and the property-class tree agree in both "
            "directions and reset() re-creates the tree before applying it (so every default is restored), every property owns its backing field and "
            "validates before storing, the style-dict plumbing of constructors/setters/update/set_children_styles/get_style neither mutates nor captures "
            "caller-owned dicts, and get_style applies object copy < show kwargs with defaults only filling unset leaves (family over base). "
            "Per-leaf values and full notation equivalence are not decided. Also decided: nothing on the resolution path is memoised, the temporary style is removed on all exits, names are validated exactly, None-filters are not truthiness filters, recursion forwards the show keywords, the style setter adopts no foreign instance, style constructors preset no values (3 known findings). Round 3: the notation helpers do not modify the dictionaries they are given (G4, one defect repaired), generic families are listed before specific ones (G12), the lazy constructor style arguments are not bypassed (G13), style copies are deep (G14). Rounds 4-5: show() flattens every style keyword (G15), value tables are collections (G16), rejected constructor style arguments stay pending (G13b), DisplayContext.reset forgets everything (G17), sequence-valued leaves store a copy (G18), name matching is switched off only at triaged sites (G19); G4 uses dict-typed origins. Rounds 6-7: style constructors forward every named parameter (G20), the child's own style update is reached on every path of set_children_styles (G21), no default argument reads the live defaults tree (G22), value patterns are matched exactly (G23), announced ranges are tested (G24).",
    "design_ref": "DESIGN.md §3 C20",
    "note": "Trusted: python ast; ORIGIN interpreter with its copy/view table; two triaged setters without inline validation.",
    "technique": "static analysis: table cross-check over the property tree, structural property lint, alias/escape analysis, def-use taint on get_style",
}
